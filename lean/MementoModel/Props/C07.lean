import MementoModel.Lemmas.StoreLemmas
import MementoModel.Lemmas.StoreData
import MementoModel.Props.C05

/-!
# C07 — result blobs are content-addressed, deduplicated and immutable once referenced

`Bytes` ids stand for byte strings with SHA-256 idealised as injective: the content key of bytes
`b` is `K.content b`. All statements are over every admissible history of the C05 op language
(which includes key-override writes to shared override keys).
-/
set_option linter.unusedVariables false
namespace Memento.Store

/-- the state reached by a history from the empty store -/
def reach (separate : Bool) (budget : Option Nat) (ops : List Op) : FsBackend :=
  (runFs (FsBackend.init separate budget false) ops).1

/-- the invariant `WF` holds along every admissible history -/
theorem runFs_wf : ∀ (ops : List Op) (s : FsBackend), WF s → AdmissibleFs s ops → WF (runFs s ops).1
  | [], _, h, _ => h
  | op :: ops, s, h, hadm => by
    simp only [runFs]
    exact runFs_wf ops _ (fs_refines h op hadm.1).2.2 hadm.2

theorem reach_wf (separate : Bool) (budget : Option Nat) (ops : List Op)
    (hadm : AdmissibleFs (FsBackend.init separate budget false) ops) : WF (reach separate budget ops) :=
  runFs_wf ops _ (fs_init_wf separate budget) hadm

/-- "the bytes found under a content key always hash to that key": every version file of a content
    key `c/<h>` holds exactly the bytes `h` -/
theorem content_key_integrity (separate : Bool) (budget : Option Nat) (ops : List Op)
    (hadm : AdmissibleFs (FsBackend.init separate budget false) ops) :
    ∀ h v c, alookup (reach separate budget ops).ds.objs (.content h, v) = some c → c = .blob h := by
  exact (reach_wf separate budget ops hadm).ds.contentOk

/-- "results that serialize to the same bytes, whichever functions produced them, share one
    stored object instead of creating another": a content key never has two version files -/
theorem one_object_per_content_key (separate : Bool) (budget : Option Nat) (ops : List Op)
    (hadm : AdmissibleFs (FsBackend.init separate budget false) ops) (h : Bytes) :
    ((reach separate budget ops).ds.objs.filter (fun p => p.1.1 == K.content h)).length ≤ 1 := by
  exact (reach_wf separate budget ops hadm).ds.content_unique h

/-- memoizing bytes that are already stored (no key override) creates no data object at all -/
theorem memoize_existing_bytes_writes_no_data (s : FsBackend) (h : WF s) (fn arg mem b sz wr)
    (hadm : FsBackend.admissible s (.memoize fn arg none mem (some b) sz wr))
    (hex : s.ds.existsNV (.content b) = true) :
    (FsBackend.step s (.memoize fn arg none mem (some b) sz wr)).1.ds.objs.filter (fun p => !p.1.1.isMetaArea)
      = s.ds.objs.filter (fun p => !p.1.1.isMetaArea) := by
  rw [step_memoize s h.writable, FsBackend.codecStore_existing s.ds b hex]
  exact DS.dataObjs_output_meta s.ds _ _ rfl

/-- which operations can remove data-area objects: only `forget_everything` on a store whose
    metadata lives in the same root -/
def Op.wipesData (separate : Bool) : Op → Bool
  | .fall => !separate
  | _ => false

/-- "a memento keeps reading exactly the bytes that were stored when it was created, whatever is
    memoized, overwritten under the same override key, or forgotten afterwards": a data-area
    version file, once written, is never modified or removed by any other operation -/
theorem data_objects_immutable (s : FsBackend) (op : Op) (h : WF s) (hadm : FsBackend.admissible s op)
    (hw : Op.wipesData s.separate op = false) (k : K) (v : Ver) (c : Content)
    (hk : k.isMetaArea = false) (hc : s.ds.inputV k v = some c) :
    (FsBackend.step s op).1.ds.inputV k v = some c := by
  have hw' := h.writable
  obtain ⟨f1, f2, f3⟩ := FsBackend.step_forget_ds s hw'
  cases op with
  | fcall fn arg =>
    rw [f1, DS.inputV_deleteWhere _ _ _ _ ?_]; exact hc
    cases hs : (k.call? == some (fn, arg)) with
    | false => rfl
    | true => rw [FsBackend.call_sel_meta fn arg k hs] at hk; cases hk
  | ffn fn =>
    rw [f2, DS.inputV_deleteWhere _ _ _ _ ?_]; exact hc
    cases hs : (k.fn? == some fn) with
    | false => rfl
    | true => rw [FsBackend.fn_sel_meta fn k hs] at hk; cases hk
  | fall =>
    have hsep : s.separate = true := by simpa [Op.wipesData] using hw
    rw [f3, DS.inputV_deleteWhere _ _ _ _ ?_]; exact hc
    simp [hsep, hk]
  | _ => exact FsBackend.step_objsExt h _ hadm trivial _ _ hc

/-- the same along every history that contains no data-wiping operation -/
theorem memento_reads_own_bytes (s : FsBackend) (ops : List Op) (h : WF s) (hadm : AdmissibleFs s ops)
    (hw : ∀ op ∈ ops, Op.wipesData s.separate op = false) (k : K) (v : Ver) (c : Content)
    (hk : k.isMetaArea = false) (hc : s.ds.inputV k v = some c) :
    (runFs s ops).1.ds.inputV k v = some c := by
  induction ops generalizing s with
  | nil => exact hc
  | cons op ops ih =>
    simp only [runFs]
    have h1 := fs_refines h op hadm.1
    apply ih _ h1.2.2 hadm.2
    · intro op' hop'
      rw [FsBackend.step_separate]
      exact hw op' (List.mem_cons_of_mem _ hop')
    · exact data_objects_immutable s op h hadm.1 (hw op List.mem_cons_self) k v c hk hc

/-- forget_call / forget_function never delete data objects (nor does forget_everything when the
    metadata has its own root) -/
theorem forget_deletes_no_data (s : FsBackend) (op : Op) (h : WF s)
    (hop : (∃ fn arg, op = .fcall fn arg) ∨ (∃ fn, op = .ffn fn) ∨ (op = .fall ∧ s.separate = true)) :
    (FsBackend.step s op).1.ds.objs.filter (fun p => !p.1.1.isMetaArea)
      = s.ds.objs.filter (fun p => !p.1.1.isMetaArea) := by
  obtain ⟨f1, f2, f3⟩ := FsBackend.step_forget_ds s h.writable
  rcases hop with ⟨fn, arg, rfl⟩ | ⟨fn, rfl⟩ | ⟨rfl, hsep⟩
  · rw [f1]; exact DS.dataObjs_deleteWhere _ _ (FsBackend.call_sel_meta fn arg)
  · rw [f2]; exact DS.dataObjs_deleteWhere _ _ (FsBackend.fn_sel_meta fn)
  · rw [f3]; exact DS.dataObjs_deleteWhere _ _ (by intro k hk; simpa [hsep] using hk)

/-! non-vacuity -/
private def demo7 : List Op :=
  [.memoize 1 1 none 10 (some 7) 40 false, .memoize 2 1 none 11 (some 7) 40 false,   -- same bytes, two functions
   .memoize 1 2 (some 1) 12 (some 8) 40 false, .memoize 2 2 (some 1) 13 (some 9) 40 false, -- override key rewritten
   .ffn 2, .lookread 1 1, .lookread 1 2]

example : ((reach false none demo7).ds.objs.filter (fun p => p.1.1 == K.content 7)).length = 1 := by decide
example : (runFs (FsBackend.init false none false) demo7).2.drop 5 = [.val (some (some 7)), .val (some (some 8))] := by decide

/-! ### partitions: several objects per result

`PicklePartitionStrategy.store` (no key override) sends every value of the partition through the value codec — the same
`codecStore` as a plain result, so each lands under its own content key — and then stores the index document, again
content-addressed. At the level of the object store a partition is therefore a *list of byte strings written one after
the other* (the values in key order, then the index). The statements of this file hold along such a list as well. -/

/-- the object-store effect of storing a partition: the byte strings of its values, then of its index -/
def storeBlobs (d : DS) : List Bytes → DS
  | [] => d
  | b :: bs => storeBlobs (FsBackend.codecStore d none (some b)).1 bs

theorem existsNV_content_after (d : DS) (h : DSWF d) (b : Bytes) :
    (FsBackend.codecStore d none (some b)).1.existsNV (.content b) = true := by
  unfold FsBackend.codecStore
  by_cases hex : d.existsNV (.content b) = true
  · simp only [hex, if_true]
    cases hg : d.getVersioned (.content b) <;> exact hex
  · simp only [hex]
    show DS.existsNV (d.output (.content b) (.blob b)).1 (.content b) = true
    unfold DS.existsNV
    rw [DS.alookup_links_output, if_pos rfl]
    simp only [DS.alookup_objs_output, if_true, Option.isSome_some]

/-- well-formedness (content keys hold their own bytes, one object per content key) is kept, and no object that was
    there is modified or removed -/
theorem storeBlobs_wf : ∀ (bs : List Bytes) (d : DS), DSWF d → (∀ b ∈ bs, b + 1 < 1000000) →
    DSWF (storeBlobs d bs) ∧ ObjsExt d (storeBlobs d bs)
  | [], d, h, _ => ⟨h, ObjsExt.refl d⟩
  | b :: bs, d, h, hb => by
    obtain ⟨hstep, _, _⟩ := FsBackend.codecStore_post h none (some b)
      (by intro b' e; cases e; exact hb b List.mem_cons_self)
    obtain ⟨h2, e2⟩ := storeBlobs_wf bs _ hstep.wf (fun x hx => hb x (List.mem_cons_of_mem _ hx))
    exact ⟨h2, hstep.ext.trans e2⟩

/-- a byte string that is stored stays stored while further byte strings are written -/
theorem existsNV_content_mono (d : DS) (h : DSWF d) (b c : Bytes) (hc : c + 1 < 1000000)
    (hex : d.existsNV (.content b) = true) : (FsBackend.codecStore d none (some c)).1.existsNV (.content b) = true := by
  by_cases hbc : b = c
  · subst hbc; exact existsNV_content_after d h b
  · unfold FsBackend.codecStore
    by_cases hexc : d.existsNV (.content c) = true
    · simp only [hexc, if_true]
      cases hg : d.getVersioned (.content c) <;> exact hex
    · simp only [hexc]
      show DS.existsNV (d.output (.content c) (.blob c)).1 (.content b) = true
      unfold DS.existsNV at hex ⊢
      have hne : (K.content c) ≠ K.content b := by intro e; cases e; exact hbc rfl
      rw [DS.alookup_links_output, if_neg (Ne.symm hne)]
      cases hl : alookup d.links (.content b) with
      | none => simp [hl] at hex
      | some v =>
        simp only [hl] at hex ⊢
        rw [DS.alookup_objs_output]
        split
        · rfl
        · exact hex

theorem storeBlobs_exists : ∀ (bs : List Bytes) (d : DS), DSWF d → (∀ b ∈ bs, b + 1 < 1000000) →
    (∀ b, d.existsNV (.content b) = true → (storeBlobs d bs).existsNV (.content b) = true) ∧
    (∀ b ∈ bs, (storeBlobs d bs).existsNV (.content b) = true)
  | [], d, _, _ => ⟨fun _ h => h, fun _ h => by cases h⟩
  | c :: bs, d, h, hb => by
    have hc := hb c List.mem_cons_self
    obtain ⟨hstep, _, _⟩ := FsBackend.codecStore_post h none (some c) (by intro b' e; cases e; exact hc)
    obtain ⟨ih1, ih2⟩ := storeBlobs_exists bs _ hstep.wf (fun x hx => hb x (List.mem_cons_of_mem _ hx))
    refine ⟨fun b hex => ih1 b (existsNV_content_mono d h b c hc hex), ?_⟩
    intro b hbm
    rcases List.mem_cons.mp hbm with rfl | hbm
    · exact ih1 _ (existsNV_content_after d h _)
    · exact ih2 b hbm

/-- storing byte strings that are all stored already writes nothing at all -/
theorem storeBlobs_existing : ∀ (bs : List Bytes) (d : DS), (∀ b ∈ bs, d.existsNV (.content b) = true) → storeBlobs d bs = d
  | [], _, _ => rfl
  | b :: bs, d, h => by
    simp only [storeBlobs]
    rw [FsBackend.codecStore_existing d b (h b List.mem_cons_self)]
    exact storeBlobs_existing bs d (fun x hx => h x (List.mem_cons_of_mem _ hx))

/-- **equal partitions share all their objects**: storing the same values and index a second time (by whatever
    function) creates no object -/
theorem partition_stored_twice_shares (d : DS) (h : DSWF d) (bs : List Bytes) (hb : ∀ b ∈ bs, b + 1 < 1000000) :
    storeBlobs (storeBlobs d bs) bs = storeBlobs d bs :=
  storeBlobs_existing bs _ (storeBlobs_exists bs d h hb).2

/-- the values of a partition share objects with plain results of the same bytes: after a history that memoized the
    bytes `b`, a partition containing `b` writes no object for it -/
theorem partition_value_shared_with_plain_result (d : DS) (b : Bytes) (hex : d.existsNV (.content b) = true) :
    storeBlobs d [b] = d := storeBlobs_existing [b] d (by intro x hx; simp at hx; subst hx; exact hex)

/-- along a history followed by a partition write, content keys still hold their own bytes and have one object each -/
theorem partition_keeps_integrity (separate : Bool) (budget : Option Nat) (ops : List Op)
    (hadm : AdmissibleFs (FsBackend.init separate budget false) ops) (bs : List Bytes) (hb : ∀ b ∈ bs, b + 1 < 1000000) :
    let d := storeBlobs (reach separate budget ops).ds bs
    (∀ h v c, alookup d.objs (.content h, v) = some c → c = .blob h) ∧
    (∀ h, (d.objs.filter (fun p => p.1.1 == K.content h)).length ≤ 1) := by
  have hw := (storeBlobs_wf bs _ (reach_wf separate budget ops hadm).ds hb).1
  exact ⟨hw.contentOk, hw.content_unique⟩

example : ((storeBlobs (storeBlobs (reach false none demo7).ds [7, 21, 22]) [21, 7, 23]).objs.filter
    (fun p => !p.1.1.isMetaArea)).length = 6 := by decide

end Memento.Store
