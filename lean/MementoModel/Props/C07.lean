import MementoModel.Lemmas.StoreLemmas
import MementoModel.Lemmas.StoreData
import MementoModel.Props.C05

/-!
# C07 — result blobs are content-addressed, deduplicated and immutable once referenced

`Bytes` ids stand for byte strings with SHA-256 idealised as injective: the content key of bytes
`b` is `K.content b`. All statements are over every admissible history of the C05 op language
(which includes key-override writes to shared override keys).
-/
set_option linter.unusedVariables false
namespace Memento.Store

/-- the state reached by a history from the empty store -/
def reach (separate : Bool) (budget : Option Nat) (ops : List Op) : FsBackend :=
  (runFs (FsBackend.init separate budget false) ops).1

/-- the invariant `WF` holds along every admissible history -/
theorem runFs_wf : ∀ (ops : List Op) (s : FsBackend), WF s → AdmissibleFs s ops → WF (runFs s ops).1
  | [], _, h, _ => h
  | op :: ops, s, h, hadm => by
    simp only [runFs]
    exact runFs_wf ops _ (fs_refines h op hadm.1).2.2 hadm.2

theorem reach_wf (separate : Bool) (budget : Option Nat) (ops : List Op)
    (hadm : AdmissibleFs (FsBackend.init separate budget false) ops) : WF (reach separate budget ops) :=
  runFs_wf ops _ (fs_init_wf separate budget) hadm

/-- "the bytes found under a content key always hash to that key": every version file of a content
    key `c/<h>` holds exactly the bytes `h` -/
theorem content_key_integrity (separate : Bool) (budget : Option Nat) (ops : List Op)
    (hadm : AdmissibleFs (FsBackend.init separate budget false) ops) :
    ∀ h v c, alookup (reach separate budget ops).ds.objs (.content h, v) = some c → c = .blob h := by
  exact (reach_wf separate budget ops hadm).ds.contentOk

/-- "results that serialize to the same bytes, whichever functions produced them, share one
    stored object instead of creating another": a content key never has two version files -/
theorem one_object_per_content_key (separate : Bool) (budget : Option Nat) (ops : List Op)
    (hadm : AdmissibleFs (FsBackend.init separate budget false) ops) (h : Bytes) :
    ((reach separate budget ops).ds.objs.filter (fun p => p.1.1 == K.content h)).length ≤ 1 := by
  exact (reach_wf separate budget ops hadm).ds.content_unique h

/-- memoizing bytes that are already stored (no key override) creates no data object at all -/
theorem memoize_existing_bytes_writes_no_data (s : FsBackend) (h : WF s) (fn arg mem b sz wr)
    (hadm : FsBackend.admissible s (.memoize fn arg none mem (some b) sz wr))
    (hex : s.ds.existsNV (.content b) = true) :
    (FsBackend.step s (.memoize fn arg none mem (some b) sz wr)).1.ds.objs.filter (fun p => !p.1.1.isMetaArea)
      = s.ds.objs.filter (fun p => !p.1.1.isMetaArea) := by
  rw [step_memoize s h.writable, FsBackend.codecStore_existing s.ds b hex]
  exact DS.dataObjs_output_meta s.ds _ _ rfl

/-- which operations can remove data-area objects: only `forget_everything` on a store whose
    metadata lives in the same root -/
def Op.wipesData (separate : Bool) : Op → Bool
  | .fall => !separate
  | _ => false

/-- "a memento keeps reading exactly the bytes that were stored when it was created, whatever is
    memoized, overwritten under the same override key, or forgotten afterwards": a data-area
    version file, once written, is never modified or removed by any other operation -/
theorem data_objects_immutable (s : FsBackend) (op : Op) (h : WF s) (hadm : FsBackend.admissible s op)
    (hw : Op.wipesData s.separate op = false) (k : K) (v : Ver) (c : Content)
    (hk : k.isMetaArea = false) (hc : s.ds.inputV k v = some c) :
    (FsBackend.step s op).1.ds.inputV k v = some c := by
  have hw' := h.writable
  obtain ⟨f1, f2, f3⟩ := FsBackend.step_forget_ds s hw'
  cases op with
  | fcall fn arg =>
    rw [f1, DS.inputV_deleteWhere _ _ _ _ ?_]; exact hc
    cases hs : (k.call? == some (fn, arg)) with
    | false => rfl
    | true => rw [FsBackend.call_sel_meta fn arg k hs] at hk; cases hk
  | ffn fn =>
    rw [f2, DS.inputV_deleteWhere _ _ _ _ ?_]; exact hc
    cases hs : (k.fn? == some fn) with
    | false => rfl
    | true => rw [FsBackend.fn_sel_meta fn k hs] at hk; cases hk
  | fall =>
    have hsep : s.separate = true := by simpa [Op.wipesData] using hw
    rw [f3, DS.inputV_deleteWhere _ _ _ _ ?_]; exact hc
    simp [hsep, hk]
  | _ => exact FsBackend.step_objsExt h _ hadm trivial _ _ hc

/-- the same along every history that contains no data-wiping operation -/
theorem memento_reads_own_bytes (s : FsBackend) (ops : List Op) (h : WF s) (hadm : AdmissibleFs s ops)
    (hw : ∀ op ∈ ops, Op.wipesData s.separate op = false) (k : K) (v : Ver) (c : Content)
    (hk : k.isMetaArea = false) (hc : s.ds.inputV k v = some c) :
    (runFs s ops).1.ds.inputV k v = some c := by
  induction ops generalizing s with
  | nil => exact hc
  | cons op ops ih =>
    simp only [runFs]
    have h1 := fs_refines h op hadm.1
    apply ih _ h1.2.2 hadm.2
    · intro op' hop'
      rw [FsBackend.step_separate]
      exact hw op' (List.mem_cons_of_mem _ hop')
    · exact data_objects_immutable s op h hadm.1 (hw op List.mem_cons_self) k v c hk hc

/-- forget_call / forget_function never delete data objects (nor does forget_everything when the
    metadata has its own root) -/
theorem forget_deletes_no_data (s : FsBackend) (op : Op) (h : WF s)
    (hop : (∃ fn arg, op = .fcall fn arg) ∨ (∃ fn, op = .ffn fn) ∨ (op = .fall ∧ s.separate = true)) :
    (FsBackend.step s op).1.ds.objs.filter (fun p => !p.1.1.isMetaArea)
      = s.ds.objs.filter (fun p => !p.1.1.isMetaArea) := by
  obtain ⟨f1, f2, f3⟩ := FsBackend.step_forget_ds s h.writable
  rcases hop with ⟨fn, arg, rfl⟩ | ⟨fn, rfl⟩ | ⟨rfl, hsep⟩
  · rw [f1]; exact DS.dataObjs_deleteWhere _ _ (FsBackend.call_sel_meta fn arg)
  · rw [f2]; exact DS.dataObjs_deleteWhere _ _ (FsBackend.fn_sel_meta fn)
  · rw [f3]; exact DS.dataObjs_deleteWhere _ _ (by intro k hk; simpa [hsep] using hk)

/-! non-vacuity -/
private def demo7 : List Op :=
  [.memoize 1 1 none 10 (some 7) 40 false, .memoize 2 1 none 11 (some 7) 40 false,   -- same bytes, two functions
   .memoize 1 2 (some 1) 12 (some 8) 40 false, .memoize 2 2 (some 1) 13 (some 9) 40 false, -- override key rewritten
   .ffn 2, .lookread 1 1, .lookread 1 2]

example : ((reach false none demo7).ds.objs.filter (fun p => p.1.1 == K.content 7)).length = 1 := by decide
example : (runFs (FsBackend.init false none false) demo7).2.drop 5 = [.val (some (some 7)), .val (some (some 8))] := by decide

end Memento.Store
