import MementoModel.Model.Store
namespace Memento.Store
theorem placeholder_c07 : DS.empty.objs = [] := rfl
end Memento.Store
