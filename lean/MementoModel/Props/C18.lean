import MementoModel.Model.Config

/-!
# C18 — declarative configuration is honoured, ordered, and reproducible from its dump

Model: `Model/Config.lean` (after fixes F8a `memory_cache_mb` read from the configuration, F8b `metadata_path`
emitted by `to_dict`). All statements are for every option map / argument combination / repository list.
Where paths, cache and read-only flag *act* is C05/C06/C19's business; here: which value each backend gets.
-/
namespace Memento.Config

/-- every option has the same effect given in the configuration as given as constructor argument -/
theorem config_eq_args (home : Str) (cfg : StorageCfg) :
    mkStorage home cfg {} = mkStorage home { type := cfg.type } (argsOf cfg) := by
  unfold mkStorage argsOf orElse
  cases cfg.path <;> cases cfg.metaPath <;> cases cfg.cacheMb <;> cases cfg.readonly <;> simp

/-- explicit arguments override the configuration, option by option -/
theorem args_override (home : Str) (cfg : StorageCfg) (args : StorageArgs) (h : cfg.type = 0) :
    let s := mkStorage home cfg args
    (∀ p, args.path = some p → s.path = some p) ∧
    (∀ p, args.metaPath = some p → s.metaPath = some p) ∧
    (∀ c, args.cacheMb = some c → s.cache = truthy (some c)) ∧
    (∀ b, args.readOnly = some b → s.readOnly = b) := by
  simp only [mkStorage, h, if_true]
  refine ⟨?_, ?_, ?_, ?_⟩ <;> intro x hx <;> simp [hx, orElse]

/-- … and options that are not given as arguments come from the configuration -/
theorem config_used_when_no_arg (home : Str) (cfg : StorageCfg) (h : cfg.type = 0) :
    let s := mkStorage home cfg {}
    (∀ p, cfg.path = some p → s.path = some p) ∧
    (∀ p, cfg.metaPath = some p → s.metaPath = some p) ∧
    (∀ c, cfg.cacheMb = some c → s.cache = truthy (some c)) ∧
    (∀ b, cfg.readonly = some b → s.readOnly = b) ∧
    (cfg.metaPath = none → s.metaPath = s.path) := by
  simp only [mkStorage, h, if_true]
  refine ⟨?_, ?_, ?_, ?_, ?_⟩ <;> intro x <;> (try intro hx) <;> simp_all [orElse]

theorem truthy_idem (c : Option Nat) : truthy (truthy c) = truthy c := by
  cases c with
  | none => rfl
  | some n => cases n <;> rfl

theorem getD_ite (m p : Str) : (if some m = some p then (none : Option Str) else some m).getD p = m := by
  by_cases h : m = p
  · simp [h]
  · simp [h]

/-- a backend rebuilt from its own dictionary form behaves the same -/
theorem storage_dump_roundtrip (home : Str) (cfg : StorageCfg) (args : StorageArgs) :
    let s := mkStorage home cfg args
    mkStorage home (storageToCfg s) {} = s := by
  simp only [mkStorage]
  by_cases h : cfg.type = 0
  · simp only [h, if_true, storageToCfg, orElse, Option.getD_some, truthy_idem]
    generalize (match args.path with | some x => some x | none => cfg.path).getD home = p
    generalize (match args.metaPath with | some x => some x | none => cfg.metaPath).getD p = m
    simp only [getD_ite]
  · simp only [h, if_false, storageToCfg, orElse, Option.getD_some]

theorem cluster_dump_roundtrip (home : Str) (cfg : ClusterCfg) (sa : Option StorageSig) (ra : Option Str)
    (hsa : ∀ s, sa = some s → ∃ c a, s = mkStorage home c a) :
    mkCluster home (clusterToCfg (mkCluster home cfg sa ra)) none none = mkCluster home cfg sa ra := by
  have hst : ∃ sc a, (mkCluster home cfg sa ra).storage = mkStorage home sc a := by
    simp only [mkCluster]
    cases sa with
    | some s => exact hsa s rfl
    | none => cases cfg.storage with
      | some sc => exact ⟨sc, {}, rfl⟩
      | none => exact ⟨{ type := 0 }, {}, rfl⟩
  obtain ⟨sc, a, hs⟩ := hst
  have hrt := storage_dump_roundtrip home sc a
  simp only at hrt
  generalize mkCluster home cfg sa ra = c at hs ⊢
  obtain ⟨nm, st, rn⟩ := c
  simp only at hs
  subst hs
  simp only [mkCluster, clusterToCfg, Option.getD_some, hrt]

/-- a cluster name resolves to the first repository in priority order that defines it -/
theorem get_cluster_first (pre : List Repo) (r : Repo) (post : List Repo) (n : Str) (c : ClusterSig)
    (hpre : ∀ q ∈ pre, repoGet q n = none) (hr : repoGet r n = some c) :
    getCluster (pre ++ r :: post) n = some c := by
  induction pre with
  | nil => simp [getCluster, hr]
  | cons q qs ih =>
    simp only [List.cons_append, getCluster, hpre q List.mem_cons_self]
    exact ih (fun x hx => hpre x (List.mem_cons_of_mem _ hx))

/-- … or to nothing -/
theorem get_cluster_none (e : Env) (n : Str) (h : ∀ q ∈ e, repoGet q n = none) : getCluster e n = none := by
  induction e with
  | nil => rfl
  | cons q qs ih =>
    simp only [getCluster, h q List.mem_cons_self]
    exact ih (fun x hx => h x (List.mem_cons_of_mem _ hx))

/-- "explicit arguments override the file" for a repository: an explicit `clusters` argument replaces the clusters of the
    configuration as a whole — a name defined only in the configuration is not defined by the repository, so it resolves
    to a later repository or to nothing -/
theorem repo_clusters_arg_overrides (home : Str) (cfgClusters : List (Str × ClusterCfg)) (arg : Repo) (n : Str) :
    repoGet (mkRepo home cfgClusters (some arg)) n = repoGet arg n := rfl

theorem repo_clusters_arg_hides_config (home : Str) (cfgClusters : List (Str × ClusterCfg)) (arg : Repo) (post : List Repo)
    (n : Str) (h : repoGet arg n = none) :
    getCluster (mkRepo home cfgClusters (some arg) :: post) n = getCluster post n := by
  simp only [getCluster, mkRepo, h]

/-- without the argument the clusters are those of the configuration, each built as `FunctionCluster(config)` builds it -/
theorem repo_clusters_from_config (home : Str) (k : Str) (cc : ClusterCfg) (rest : List (Str × ClusterCfg)) :
    repoGet (mkRepo home ((k, cc) :: rest) none) k = some (mkCluster home cc none none) := by
  simp [mkRepo, repoGet]

example : getCluster [mkRepo 9 [(1, { name := 1 })] (some [(2, mkCluster 9 { name := 2 } none none)]),
                      [(1, mkCluster 9 { name := 1, runner := some 1 } none none)]] 1
    = some (mkCluster 9 { name := 1, runner := some 1 } none none) := by decide

theorem repoGet_map (f : ClusterSig → ClusterSig) (r : Repo) (n : Str) :
    repoGet (r.map (fun kc => (kc.1, f kc.2))) n = (repoGet r n).map f := by
  induction r with
  | nil => rfl
  | cons kc r ih =>
    obtain ⟨k, c⟩ := kc
    simp only [List.map_cons, repoGet]
    by_cases h : k = n
    · simp [h]
    · simp only [h, if_false]; exact ih

/-- every cluster was made by the constructors -/
def WellMade (home : Str) (e : Env) : Prop :=
  ∀ r ∈ e, ∀ kc ∈ r, ∃ cfg sa ra, (∀ s, sa = some s → ∃ c a, s = mkStorage home c a) ∧ kc.2 = mkCluster home cfg sa ra

theorem repoGet_mem {r : Repo} {n : Str} {c : ClusterSig} (h : repoGet r n = some c) : (n, c) ∈ r := by
  induction r with
  | nil => simp [repoGet] at h
  | cons kc r ih =>
    obtain ⟨k, d⟩ := kc
    simp only [repoGet] at h
    by_cases hk : k = n
    · simp only [hk, if_true, Option.some.injEq] at h; subst h; subst hk; exact List.mem_cons_self
    · simp only [hk, if_false] at h; exact List.mem_cons_of_mem _ (ih h)

/-- **dump round trip**: an environment rebuilt from its dictionary form resolves every cluster name to a cluster with
    the same storage and runner behaviour (same priority order, duplicates included) -/
theorem env_dump_roundtrip (home : Str) (e : Env) (hw : WellMade home e) (n : Str) :
    getCluster (dumpLoad home e) n = getCluster e n := by
  induction e with
  | nil => rfl
  | cons r rs ih =>
    simp only [dumpLoad, List.map_cons, getCluster]
    rw [repoGet_map (fun c => mkCluster home (clusterToCfg c) none none) r n]
    cases hr : repoGet r n with
    | none =>
      simp only [Option.map_none]
      exact ih (fun q hq => hw q (List.mem_cons_of_mem _ hq))
    | some c =>
      simp only [Option.map_some]
      obtain ⟨cfg, sa, ra, hsa, hc⟩ := hw r List.mem_cons_self (n, c) (repoGet_mem hr)
      simp only at hc
      rw [hc]
      rw [cluster_dump_roundtrip home cfg sa ra hsa]

/-! ### non-vacuity -/
example : mkStorage 9 { type := 0, path := some 1, metaPath := some 2, cacheMb := some 5, readonly := some true } {} =
    { type := 0, path := some 1, metaPath := some 2, cache := some 5, readOnly := true } := by decide
example : mkStorage 9 { type := 0, path := some 1, cacheMb := some 5 } { cacheMb := some 0, readOnly := some true } =
    { type := 0, path := some 1, metaPath := some 1, cache := none, readOnly := true } := by decide
example : getCluster [[(1, ⟨1, mkStorage 9 { type := 1 } {}, 0⟩)], [(1, ⟨1, mkStorage 9 { type := 2 } {}, 1⟩), (2, ⟨2, mkStorage 9 { type := 0 } {}, 0⟩)]] 1 =
    some ⟨1, mkStorage 9 { type := 1 } {}, 0⟩ := by decide

end Memento.Config
