import MementoModel.Lemmas.VersionLemmas

/-!
# C14 — the static dependency closure is exact and calls outside it are refused

Model: `Model/Version.lean` (rule collection as a depth-first closure over rule keys with cycle
breaking, `transitive_/direct_memento_fn_dependencies`, graph edges, `_validate_dependency`).
All statements hold for every program (any number of definitions, any reference graph incl. cycles
and self references), every root function and every enumeration order `ord` of reference sets.

Name-level vocabulary (defined in `Lemmas/VersionLemmas.lean`):
* `RefersTo P p g`  — `g` is among the names in the body of `p`;
* `expands P h`     — `h` is a memento function or an in-package plain function (descended into);
* `ReachN P f g`    — `g` is reached from `f` along references whose intermediate definitions expand;
* `ReachPlain P g h`— `h` is reached from `g` along references through in-package plain functions only.
-/
namespace Memento.Version

/-- The workhorse (also used by C01/C03): with the fuel the model uses, the collected rule set is
    exactly the set of rule nodes reachable from the root rule — soundness and completeness of the
    depth-first traversal with cycle breaking, for any enumeration order. -/
theorem rules_eq_reachable (P : Prog) (ord : List Name → List Name) (hord : OrdOK ord) (f : Name) (x : Node) :
    x ∈ rules P ord f ↔
      (x = rootNode f ∨ ∃ p, (p = f ∨ (ReachN P f p ∧ expands P p = true)) ∧ RefersTo P p x.target ∧
        mkNode P p x.target = some x) :=
  mem_rules_nodeOK hord

/-- the rule set has no duplicate keys (it is a set) -/
theorem rules_keys_nodup (P : Prog) (ord : List Name → List Name) (f : Name) : (rules P ord f).Nodup :=
  rules_nodup P ord f

/-- the reported transitive memento dependencies are exactly the memento functions reachable in the
    reference graph (through memento and in-package plain functions), the function itself excluded -/
theorem transDeps_exact (P : Prog) (ord : List Name → List Name) (hord : OrdOK ord) (f g : Name) :
    g ∈ transDeps P ord f ↔ g ≠ f ∧ isMemento P g = true ∧ ReachN P f g :=
  mem_transDeps hord

/-- the reported direct dependencies are exactly the memento functions named in the function's own body -/
theorem directDeps_exact (P : Prog) (ord : List Name → List Name) (hord : OrdOK ord) (f g : Name) :
    g ∈ directDeps P ord f ↔ g ≠ f ∧ isMemento P g = true ∧ RefersTo P f g :=
  mem_directDeps hord

/-- direct dependencies are transitive dependencies -/
theorem directDeps_subset_transDeps (P : Prog) (ord : List Name → List Name) (hord : OrdOK ord) (f g : Name)
    (h : g ∈ directDeps P ord f) : g ∈ transDeps P ord f := by
  obtain ⟨hne, hm, href⟩ := (mem_directDeps hord).mp h
  exact (mem_transDeps hord).mpr ⟨hne, hm, ReachN.direct href⟩

/-- the dependency graph links a memento function `g` of the closure to exactly the memento functions it
    reaches without passing through another memento function -/
theorem graph_exact (P : Prog) (ord : List Name → List Name) (hord : OrdOK ord) (f g h : Name) :
    (g, h) ∈ graphEdges P ord f ↔
      (g = f ∨ (g ≠ f ∧ isMemento P g = true ∧ ReachN P f g)) ∧
      h ≠ g ∧ isMemento P h = true ∧ ReachPlain P g h := by
  unfold graphEdges
  simp only [List.mem_flatMap, List.mem_map, List.mem_cons, Prod.mk.injEq, mem_transDeps hord]
  constructor
  · rintro ⟨g', hg', h', hh', rfl, rfl⟩
    exact ⟨hg', (mem_edgesFrom hord).mp hh'⟩
  · rintro ⟨hg, hh⟩
    exact ⟨g, hg, h, (mem_edgesFrom hord).mpr hh, rfl, rfl⟩

/-- a call from an automatically versioned caller to a memento function that is neither the caller itself,
    nor in its closure, nor passed to this invocation as an argument, is refused -/
theorem validate_refuses (P : Prog) (ord : List Name → List Name) (hord : OrdOK ord)
    (caller callee : Name) (fnArgs : List Name) (tok : Tok) (refs : List Name)
    (hauto : lookup P caller = some (.memento none tok refs))
    (hself : callee ≠ caller) (hargs : callee ∉ fnArgs)
    (hout : ¬ (isMemento P callee = true ∧ ReachN P caller callee)) :
    callAllowed P ord caller callee fnArgs = false := by
  unfold callAllowed
  simp only [hauto]
  have h1 : (caller == callee) = false := by simpa using fun h => hself h.symm
  have h2 : (transDeps P ord caller).contains callee = false := by
    simp only [List.contains_eq_mem, decide_eq_false_iff_not, mem_transDeps hord]
    exact fun h => hout ⟨h.2.1, h.2.2⟩
  have h3 : fnArgs.contains callee = false := by simpa using hargs
  simp only [h1, h2, h3, Bool.or_self]

/-- conversely: everything in the closure, the caller itself and functions passed as arguments may be
    called; an explicitly versioned caller is not checked at all -/
theorem validate_allows (P : Prog) (ord : List Name → List Name) (hord : OrdOK ord)
    (caller callee : Name) (fnArgs : List Name)
    (h : callee = caller ∨ callee ∈ fnArgs ∨ (callee ≠ caller ∧ isMemento P callee = true ∧ ReachN P caller callee)) :
    callAllowed P ord caller callee fnArgs = true := by
  unfold callAllowed
  split
  · rfl
  · rcases h with rfl | h | h
    · simp
    · simp [h]
    · have : callee ∈ transDeps P ord caller := (mem_transDeps hord).mpr h
      simp [this]

theorem validate_explicit_unchecked (P : Prog) (ord : List Name → List Name) (caller callee : Name)
    (fnArgs : List Name) (e : List Char) (tok : Tok) (refs : List Name)
    (h : lookup P caller = some (.memento (some e) tok refs)) :
    callAllowed P ord caller callee fnArgs = true := by
  unfold callAllowed; simp [h]

/-- the reports do not depend on the order in which reference sets are enumerated -/
theorem deps_order_independent (P : Prog) (ord ord' : List Name → List Name) (h : OrdOK ord) (h' : OrdOK ord')
    (f g : Name) :
    (g ∈ transDeps P ord f ↔ g ∈ transDeps P ord' f) ∧ (g ∈ directDeps P ord f ↔ g ∈ directDeps P ord' f) := by
  rw [mem_transDeps h, mem_transDeps h', mem_directDeps h, mem_directDeps h']
  exact ⟨Iff.rfl, Iff.rfl⟩

/-! ### non-vacuity: a cycle through a plain helper, an out-of-package helper, a hidden (unlisted) callee

    0 = m0 (memento) -> 1 (plain, in package) -> 2 = m2 (memento) -> 0 ; m0 -> 3 (plain, other package) -> 4 = m4 -/
def exProg : Prog :=
  [(0, .memento none 10 [1, 3, 5]), (1, .plain true 11 [2]), (2, .memento none 12 [0]),
   (3, .plain false 13 [4]), (4, .memento none 14 []), (5, .var (some 7))]

example : transDeps exProg id 0 = [2] := by decide +kernel
example : directDeps exProg id 0 = [] := by decide +kernel
example : transDeps exProg id 2 = [0] := by decide +kernel
example : graphEdges exProg id 0 = [(0, 2), (2, 0)] := by decide +kernel
example : callAllowed exProg id 0 4 [] = false := by decide +kernel     -- m4 only reachable through another package
example : callAllowed exProg id 0 4 [4] = true := by decide +kernel     -- unless passed as an argument
example : callAllowed exProg id 0 2 [] = true := by decide +kernel
example : transDeps exProg List.reverse 0 = [2] := by decide +kernel

end Memento.Version
