import MementoModel.Model.Store
namespace Memento.Store
theorem placeholder_c19 : (MemBackend.init true).readOnly = true := rfl
end Memento.Store
