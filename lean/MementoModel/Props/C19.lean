import MementoModel.Lemmas.StoreLemmas
import MementoModel.Lemmas.StoreRO
import MementoModel.Props.C05

/-!
# C19 — read-only and null back-ends never write and never execute

On the storage models of `Model/Store.lean`. (The null *runner* is part of the runner model.)
-/
namespace Memento.Store

/-- one step through a read-only filesystem backend (any cache) changes nothing in the store
    (data and metadata objects, links, uuid supply) and the backend stays read-only -/
theorem ro_no_write_step (s : FsBackend) (op : Op) (h : s.readOnly = true) :
    (FsBackend.step s op).1.ds = s.ds ∧ (FsBackend.step s op).1.readOnly = true := by
  exact ⟨(FsBackend.step_ro_same s op h).1, (FsBackend.step_ro_same s op h).2.1.trans h⟩

/-- **no sequence** of calls, memoize, metadata or forget operations modifies the store -/
theorem ro_no_write (s : FsBackend) (ops : List Op) (h : s.readOnly = true) :
    (runFs s ops).1.ds = s.ds := by
  induction ops generalizing s with
  | nil => rfl
  | cons op ops ih =>
    obtain ⟨h1, h2⟩ := ro_no_write_step s op h
    simp only [runFs]
    exact (ih _ h2).trans h1

/-- memoize is silently skipped; forget and metadata writes are rejected -/
theorem ro_mutators (s : FsBackend) (h : s.readOnly = true) (fn arg ov mem val sz wr k b) :
    (FsBackend.step s (.memoize fn arg ov mem val sz wr)).2 = .unit ∧
    (FsBackend.step s (.fcall fn arg)).2 = .valueError ∧
    (FsBackend.step s (.ffn fn)).2 = .valueError ∧
    (FsBackend.step s .fall).2 = .valueError ∧
    (FsBackend.step s (.wmeta fn arg k b)).2 = .valueError := by
  simp [FsBackend.step, h]

def Op.isRead : Op → Bool
  | .getm _ | .lookread _ _ | .ismem _ _ | .lsf | .lsm _ | .rmeta _ _ _ => true
  | _ => false

/-- reads keep working: a read through the read-only backend answers what the dictionary answers
    (the flag is not consulted by any read path; `WF` is about the writable twin) -/
theorem ro_reads_as_dictionary (s : FsBackend) (op : Op) (hr : Op.isRead op = true)
    (h : WF { s with readOnly := false }) :
    (FsBackend.step s op).2 = (Spec.step (FsBackend.abs s) op).2 := by
  have hr' : FsBackend.isReadOp op = true := by cases op <;> first | rfl | cases hr
  have := (fs_refines h op (by cases op <;> first | trivial | cases hr)).1
  rw [show ({ s with readOnly := false } : FsBackend) = FsBackend.setRO s false from rfl,
    FsBackend.step_setRO_out s false op hr'] at this
  exact this

/-- the source of the flag is irrelevant: the model has a single flag (constructor argument and
    `readonly` config key are merged by `StorageBackend.__init__`; that merge is `Config.lean`, C18) -/
theorem mem_ro_no_write_step (s : MemBackend) (op : Op) (h : s.readOnly = true) :
    (MemBackend.step s op).1 = s := by
  exact MemBackend.step_ro s op h

theorem mem_ro_no_write (s : MemBackend) (ops : List Op) (h : s.readOnly = true) :
    (runMem s ops).1 = s := by
  induction ops generalizing s with
  | nil => rfl
  | cons op ops ih =>
    have h1 := mem_ro_no_write_step s op h
    simp only [runMem]
    rw [h1]; exact ih s h

/-- the null storage never reports anything as memoized, after any history -/
theorem null_never_memoized (fn arg : Nat) (ks : List (Fn × Arg)) :
    nullStep (.ismem fn arg) = .bool false ∧ nullStep (.lookread fn arg) = .val none ∧
    nullStep (.getm ks) = .mems (ks.map (fun _ => none)) ∧ nullStep .lsf = .fns [] := by
  exact ⟨rfl, rfl, rfl, rfl⟩

/-! non-vacuity: a populated store reopened read-only -/
private def populated : FsBackend :=
  (runFs (FsBackend.init false (some 100) false)
    [.memoize 1 1 none 10 (some 7) 40 false, .memoize 2 1 (some 1) 11 (some 8) 40 false]).1

example : (runFs { populated with readOnly := true }
    [.memoize 1 2 none 12 (some 9) 40 false, .fcall 1 1, .lookread 1 1, .fall, .wmeta 1 1 1 5]).2
    = [.unit, .valueError, .val (some (some 7)), .valueError, .valueError] := by decide

end Memento.Store
