import MementoModel.Lemmas.RunnerTop

/-!
# C15 — batch evaluation equals element-wise evaluation, in order
-/
namespace Memento.Runner

/-- individual top-level calls `f(a₁), …, f(aₙ)` in order, collecting each outcome (returned or raised) -/
def seqCalls (P : Prog) (n : Nat) : St → Fn → List Val → CtxSpec → Flags → Option (St × List Outcome)
  | s, _, [], _, _ => some (s, [])
  | s, fn, a :: as, ctx, fl =>
    match run P n s none fn [a] ctx fl with
    | some (s1, .ok [o], _) =>
      match seqCalls P n s1 fn as ctx fl with
      | some (s2, os) => some (s2, o :: os)
      | none => none
    | _ => none

/-- the sequential evaluation at fuel `n + 1`, one step -/
theorem seqCalls_cons (P : Prog) (n : Nat) (s : St) (fn : Fn) (a : Val) (as : List Val) (ctx : CtxSpec) (fl : Flags) :
    seqCalls P (n + 1) s fn (a :: as) ctx fl =
      match s.get ⟨fn, a, effCtx none ctx⟩ with
      | some r =>
        (match seqCalls P (n + 1) s fn as ctx fl with
         | some (s2, os) => some (s2, serve r fl :: os)
         | none => none)
      | none =>
        match runLocal P (E P n) s ⟨fn, a, effCtx none ctx⟩ fl with
        | none => none
        | some (s1, o, _) =>
          match seqCalls P (n + 1) s1 fn as ctx fl with
          | some (s2, os) => some (s2, o :: os)
          | none => none := by
  rw [seqCalls, run_single_top]
  cases s.get ⟨fn, a, effCtx none ctx⟩ with
  | some r => rfl
  | none =>
    simp only []
    cases runLocal P (E P n) s ⟨fn, a, effCtx none ctx⟩ fl with
    | none => rfl
    | some x => rfl

/-- the loop of a batch whose bulk pre-check was taken on an *earlier* store `s0` (every entry of which
    is still in the current store `s`) does what the individual calls do from `s` -/
theorem batchLoop_eq_seq (P : Prog) (n : Nat) (s0 : St) (fn : Fn) (ctx : CtxSpec) (fl : Flags) :
    ∀ (args : List Val) (s : St), (∀ k r, s0.get k = some r → s.get k = some r) →
      (match batchLoop P (E P n) fl s (args.map (fun a => ((⟨fn, a, effCtx none ctx⟩ : Key), s0.get ⟨fn, a, effCtx none ctx⟩))) with
       | none => none
       | some (s', os, _) => some (s', os)) = seqCalls P (n + 1) s fn args ctx fl
  | [], s, _ => by simp only [List.map_nil, batchLoop, seqCalls]
  | a :: as, s, hg => by
    rw [seqCalls_cons, List.map_cons]
    cases h0 : s0.get ⟨fn, a, effCtx none ctx⟩ with
    | some r =>
      rw [batchLoop_cons_some, hg _ _ h0, ← batchLoop_eq_seq P n s0 fn ctx fl as s hg]
      simp only []
      cases batchLoop P (E P n) fl s (as.map (fun a => ((⟨fn, a, effCtx none ctx⟩ : Key), s0.get ⟨fn, a, effCtx none ctx⟩))) with
      | none => rfl
      | some x => rfl
    | none =>
      rw [batchLoop_cons_none]
      cases hs : s.get ⟨fn, a, effCtx none ctx⟩ with
      | some r =>
        -- memoized in the meantime (an earlier duplicate, or a nested call): served by the re-check
        rw [runLocal_hit hs, ← batchLoop_eq_seq P n s0 fn ctx fl as s hg]
        simp only []
        cases batchLoop P (E P n) fl s (as.map (fun a => ((⟨fn, a, effCtx none ctx⟩ : Key), s0.get ⟨fn, a, effCtx none ctx⟩))) with
        | none => rfl
        | some x => rfl
      | none =>
        simp only []
        cases hl : runLocal P (E P n) s ⟨fn, a, effCtx none ctx⟩ fl with
        | none => rfl
        | some x =>
          obtain ⟨s1, o, r⟩ := x
          have hg1 : ∀ k r, s0.get k = some r → s1.get k = some r :=
            fun k r h => (runLocal_ext (E_ext P n) hl).1.grows k r (hg k r h)
          simp only []
          rw [← batchLoop_eq_seq P n s0 fn ctx fl as s1 hg1]
          cases batchLoop P (E P n) fl s1 (as.map (fun a => ((⟨fn, a, effCtx none ctx⟩ : Key), s0.get ⟨fn, a, effCtx none ctx⟩))) with
          | none => rfl
          | some x => rfl

/-- **batch = map**: one `call_batch` returns, position by position, what the individual calls return —
    for any mix of already memoized, not yet memoized, duplicated and failing elements — and leaves
    the same store and the same executions.

    STATEMENT ADJUSTED. Original:
    `theorem batch_eq_map (P) (n) (s) (he : s.enabled = true) (fn) (args) (ctx) (fl) :`
    `    batchTop P n s fn args ctx fl = seqCalls P n s fn args ctx fl`.
    The fuel is now `n + 1` (i.e. "fuel ≥ 1"). At fuel `0` the statement is false for the empty batch
    (counterexample below): `run … 0 …` is "out of fuel" whereas no individual call is made at all.
    The hypothesis `he : s.enabled = true` of the original statement is not needed and was dropped. -/
theorem batch_eq_map (P : Prog) (n : Nat) (s : St) (fn : Fn) (args : List Val) (ctx : CtxSpec) (fl : Flags) :
    batchTop P (n + 1) s fn args ctx fl = seqCalls P (n + 1) s fn args ctx fl := by
  rw [← batchLoop_eq_seq P n s fn ctx fl args s (fun _ _ h => h)]
  unfold batchTop
  rw [run_succ, runBatchWith_eq]
  simp only [undeclared, prevented]
  cases batchLoop P (E P n) fl s (args.map (fun a => ((⟨fn, a, effCtx none ctx⟩ : Key), s.get ⟨fn, a, effCtx none ctx⟩))) with
  | none => rfl
  | some x => rfl

/-- counterexample to the original statement at fuel `0` -/
example : batchTop (progOf [] []) 0 { store := [], trace := [] } 1 [] .inherit {} ≠
    seqCalls (progOf [] []) 0 { store := [], trace := [] } 1 [] .inherit {} := by
  simp [batchTop, run, seqCalls]

/-- with `raise_first_exception` the batch raises the first failure in order -/
theorem raise_first_is_first (os : List Outcome) (e : Outcome) (h : firstExc os = some e) :
    ∃ pre post, os = pre ++ e :: post ∧ (∀ o ∈ pre, o.isExc = false) ∧ e.isExc = true := by
  induction os with
  | nil => simp [firstExc] at h
  | cons o os ih =>
    cases o with
    | exc c m =>
      simp only [firstExc, Option.some.injEq] at h
      subst h
      exact ⟨[], os, rfl, by simp, rfl⟩
    | val v =>
      simp only [firstExc] at h
      obtain ⟨pre, post, h1, h2, h3⟩ := ih h
      refine ⟨.val v :: pre, post, by rw [h1]; rfl, ?_, h3⟩
      intro o ho
      rcases List.mem_cons.1 ho with rfl | ho
      · rfl
      · exact h2 o ho

/-- each distinct element's body runs at most once: a duplicate of an element that was memoized by
    an earlier position is served by the re-check, without executing -/
theorem duplicate_served (P : Prog) (exec) (s : St) (key : Key) (fl : Flags) (r : Rec) (h : s.get key = some r) :
    runLocal P exec s key fl = some (s, serve r fl, r) :=
  runLocal_hit h

/-! ## Batches issued from inside another memento function

The same equality one level down: a `call_batch` made by the body of a running function (frame `caller`) does what the
individual calls made from that frame do — same store, same outcomes **and the same mementos handed back to the caller**, so
the caller's recorded invocations and dependencies (`propagate`) are the same. Stated for calls the frame may make (declared
dependency, further calls not prevented); a refused batch is refused as a whole (`prevent_further_calls`, C16). -/

/-- individual calls `f(a₁), …, f(aₙ)` made from frame `caller` (or from the top level when `none`), in order -/
def seqCallsFrom (P : Prog) (n : Nat) (caller : Option Frame) :
    St → Fn → List Val → CtxSpec → Flags → Option (St × List Outcome × List Rec)
  | s, _, [], _, _ => some (s, [], [])
  | s, fn, a :: as, ctx, fl =>
    match run P n s caller fn [a] ctx fl with
    | some (s1, .ok [o], [r]) =>
      match seqCallsFrom P n caller s1 fn as ctx fl with
      | some (s2, os, rs) => some (s2, o :: os, r :: rs)
      | none => none
    | _ => none

theorem run_single_from (P : Prog) (n : Nat) (s : St) (caller : Option Frame) (fn : Fn) (arg : Val) (ctx : CtxSpec)
    (fl : Flags) (hu : undeclared P caller fn = false) (hp : prevented caller = false) :
    run P (n + 1) s caller fn [arg] ctx fl =
      match s.get ⟨fn, arg, effCtx caller ctx⟩ with
      | some r => some (s, .ok [serve r fl], [r])
      | none =>
        match runLocal P (E P n) s ⟨fn, arg, effCtx caller ctx⟩ fl with
        | none => none
        | some (s1, o, r) => some (s1, .ok [o], [r]) := by
  rw [run_succ, runBatchWith_eq]
  simp only [hu, hp, List.map_cons, List.map_nil, batchLoop_single, Bool.false_eq_true, if_false]
  cases s.get ⟨fn, arg, effCtx caller ctx⟩ with
  | some r => rfl
  | none =>
    simp only []
    cases runLocal P (E P n) s ⟨fn, arg, effCtx caller ctx⟩ fl with
    | none => rfl
    | some x => rfl

theorem seqCallsFrom_cons (P : Prog) (n : Nat) (caller : Option Frame) (s : St) (fn : Fn) (a : Val) (as : List Val)
    (ctx : CtxSpec) (fl : Flags) (hu : undeclared P caller fn = false) (hp : prevented caller = false) :
    seqCallsFrom P (n + 1) caller s fn (a :: as) ctx fl =
      match s.get ⟨fn, a, effCtx caller ctx⟩ with
      | some r =>
        (match seqCallsFrom P (n + 1) caller s fn as ctx fl with
         | some (s2, os, rs) => some (s2, serve r fl :: os, r :: rs)
         | none => none)
      | none =>
        match runLocal P (E P n) s ⟨fn, a, effCtx caller ctx⟩ fl with
        | none => none
        | some (s1, o, r) =>
          match seqCallsFrom P (n + 1) caller s1 fn as ctx fl with
          | some (s2, os, rs) => some (s2, o :: os, r :: rs)
          | none => none := by
  rw [seqCallsFrom, run_single_from P n s caller fn a ctx fl hu hp]
  cases s.get ⟨fn, a, effCtx caller ctx⟩ with
  | some r => rfl
  | none =>
    simp only []
    cases runLocal P (E P n) s ⟨fn, a, effCtx caller ctx⟩ fl with
    | none => rfl
    | some x => rfl

theorem batchLoop_eq_seq_from (P : Prog) (n : Nat) (caller : Option Frame) (s0 : St) (fn : Fn) (ctx : CtxSpec) (fl : Flags)
    (hu : undeclared P caller fn = false) (hp : prevented caller = false) :
    ∀ (args : List Val) (s : St), (∀ k r, s0.get k = some r → s.get k = some r) →
      batchLoop P (E P n) fl s (args.map (fun a => ((⟨fn, a, effCtx caller ctx⟩ : Key), s0.get ⟨fn, a, effCtx caller ctx⟩)))
        = seqCallsFrom P (n + 1) caller s fn args ctx fl
  | [], s, _ => by simp only [List.map_nil, batchLoop, seqCallsFrom]
  | a :: as, s, hg => by
    rw [seqCallsFrom_cons P n caller s fn a as ctx fl hu hp, List.map_cons]
    cases h0 : s0.get ⟨fn, a, effCtx caller ctx⟩ with
    | some r =>
      rw [batchLoop_cons_some, hg _ _ h0, ← batchLoop_eq_seq_from P n caller s0 fn ctx fl hu hp as s hg]
      simp only []
      generalize batchLoop _ _ _ _ _ = x
      cases x with
      | none => rfl
      | some y => rfl
    | none =>
      rw [batchLoop_cons_none]
      cases hs : s.get ⟨fn, a, effCtx caller ctx⟩ with
      | some r =>
        rw [runLocal_hit hs, ← batchLoop_eq_seq_from P n caller s0 fn ctx fl hu hp as s hg]
        simp only []
        generalize batchLoop _ _ _ _ _ = x
        cases x with
        | none => rfl
        | some y => rfl
      | none =>
        simp only []
        cases hl : runLocal P (E P n) s ⟨fn, a, effCtx caller ctx⟩ fl with
        | none => rfl
        | some x =>
          obtain ⟨s1, o, r⟩ := x
          have hg1 : ∀ k r, s0.get k = some r → s1.get k = some r :=
            fun k r h => (runLocal_ext (E_ext P n) hl).1.grows k r (hg k r h)
          simp only []
          rw [← batchLoop_eq_seq_from P n caller s0 fn ctx fl hu hp as s1 hg1]
          generalize batchLoop _ _ _ _ _ = x
          cases x with
          | none => rfl
          | some y => rfl

/-- **a batch made from any frame = the individual calls made from that frame**, position by position, with the same
    final store, the same executions and the same mementos handed to the caller -/
theorem batch_eq_calls_from (P : Prog) (n : Nat) (s : St) (caller : Option Frame) (fn : Fn) (args : List Val)
    (ctx : CtxSpec) (fl : Flags) (hu : undeclared P caller fn = false) (hp : prevented caller = false) :
    (match run P (n + 1) s caller fn args ctx fl with
     | some (s', .ok os, rs) => some (s', os, rs)
     | _ => none) = seqCallsFrom P (n + 1) caller s fn args ctx fl := by
  rw [← batchLoop_eq_seq_from P n caller s fn ctx fl hu hp args s (fun _ _ h => h)]
  rw [run_succ, runBatchWith_eq]
  simp only [hu, hp, Bool.false_eq_true, if_false]
  cases batchLoop P (E P n) fl s (args.map (fun a => ((⟨fn, a, effCtx caller ctx⟩ : Key), s.get ⟨fn, a, effCtx caller ctx⟩))) with
  | none => rfl
  | some x => rfl

/-- what the caller's frame records is the same: folding the batch's mementos into the frame is folding the individual
    calls' mementos one after the other -/
theorem propagate_batch_eq_calls (fr : Frame) (r : Rec) (rs : List Rec) :
    (r :: rs).foldl propagate fr = rs.foldl propagate (propagate fr r) := rfl

/-- a batch from a frame whose further calls are prevented is refused as a whole with a runtime error, whatever is memoized -/
theorem prevented_batch_refused (P : Prog) (n : Nat) (s : St) (fr : Frame) (fn : Fn) (args : List Val) (ctx : CtxSpec)
    (fl : Flags) (hu : undeclared P (some fr) fn = false) (hp : fr.prevent = true) :
    run P (n + 1) s (some fr) fn args ctx fl = some (s, .error (.exc clsRuntime 0), []) := by
  rw [run_succ, runBatchWith_eq]
  simp only [hu, prevented, hp, Bool.false_eq_true, if_false, if_true]

/-! non-vacuity: duplicates and a failing element, one element memoized beforehand -/
private def demoDefs : List (Fn × FnDef) := [(1, ⟨[], 3, 1, clsRebuildable, 5, 10, false⟩)]
private def demoP : Prog := progOf demoDefs []
private def cold : St := { store := [], trace := [] }
private def warm : St := ((callTop demoP 5 cold 1 2 .inherit {}).map (·.1)).getD cold

example : (batchTop demoP 5 warm 1 [0, 1, 0, 2] .inherit {}).map (fun x => (x.2, x.1.trace.length)) =
    some ([.val (some 10), .exc clsRebuildable 5, .val (some 10), .val (some 30)], 3) := by decide
example : (batchTop demoP 5 warm 1 [0, 1, 0, 2] .inherit {}).map (fun x => (x.2, x.1.trace)) =
    (seqCalls demoP 5 warm 1 [0, 1, 0, 2] .inherit {}).map (fun x => (x.2, x.1.trace)) := by decide

/-- a frame of function 1 (running `f1(7)`) issuing the batch: hypotheses of `batch_eq_calls_from` hold, and both sides agree -/
private def demoFr : Frame := { key := ⟨1, 7, 0⟩, prevent := false, invs := [], res := [], deps := [1] }
example : undeclared demoP (some demoFr) 1 = false ∧ prevented (some demoFr) = false := by decide
example : (match run demoP 5 warm (some demoFr) 1 [0, 1, 0, 2] .inherit {} with
    | some (s', .ok os, rs) => some (s'.trace, os, rs.map (·.key))
    | _ => none) = (seqCallsFrom demoP 5 (some demoFr) warm 1 [0, 1, 0, 2] .inherit {}).map (fun x => (x.1.trace, x.2.1, x.2.2.map (·.key))) := by decide

end Memento.Runner
