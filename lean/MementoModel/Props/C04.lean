import MementoModel.Model.ArgHash
import MementoModel.Lemmas.JsonLemmas
import MementoModel.Lemmas.ArgHashLemmas

/-!
# C04 — argument identity: the memo key is canonical in the bound argument values

The key of a call is `H (render (keyTokens effKw ctx))` with `H` = SHA-256. Everything below is
about `keyTokens` (token level); with `H ∘ render` injective (SHA-256 idealised; `render` of
primitive tokens = `json.dumps`, trusted and validated by the correspondence check) equal keys ⇔
equal token lists.

Proof architecture: `Lemmas/JsonLemmas.lean` defines `serC`, the serialisation *without* sorting,
and proves that it is prefix-free, hence injective; here `ser v = serC (canonJ v)`
(`ser_eq_serC_canon`, unconditional), which gives (a) and (b).  `Lemmas/ArgHashLemmas.lean` has the
`decode`/`encode` fixed-point lemma and the `kwSet`/`effKw` computation.
-/
namespace Memento.ArgHash
open Memento.Json

/-! ## canonical forms: dictionaries as maps (member order irrelevant) -/

def jobjOfList : List (String × JVal) → JObj
  | [] => .nil
  | (k, v) :: r => .cons k v (jobjOfList r)

def jkeys : JObj → List String
  | .nil => []
  | .cons k _ o => k :: jkeys o

mutual
  /-- sort object members by key, recursively -/
  def canonJ : JVal → JVal
    | .arr l => .arr (canonJL l)
    | .obj o => .obj (jobjOfList (sortKV (canonJO o)))
    | v => v
  def canonJL : JList → JList
    | .nil => .nil
    | .cons v l => .cons (canonJ v) (canonJL l)
  def canonJO : JObj → List (String × JVal)
    | .nil => []
    | .cons k v o => (k, canonJ v) :: canonJO o
end

mutual
  /-- Python dicts have distinct keys, at every level -/
  def DistinctJ : JVal → Prop
    | .arr l => DistinctJL l
    | .obj o => (jkeys o).Nodup ∧ DistinctJO o
    | _ => True
  def DistinctJL : JList → Prop
    | .nil => True
    | .cons v l => DistinctJ v ∧ DistinctJL l
  def DistinctJO : JObj → Prop
    | .nil => True
    | .cons _ v o => DistinctJ v ∧ DistinctJO o
end

/-! ### `ser` is the unsorted serialisation of the canonical form -/

theorem serCO_jobjOfList : ∀ l : List (String × JVal),
    serCO (jobjOfList l) = l.map (fun p => (p.1, serC p.2))
  | [] => by simp [jobjOfList, serCO]
  | (k, v) :: r => by simp [jobjOfList, serCO, serCO_jobjOfList r]

theorem canonJO_jobjOfList : ∀ l : List (String × JVal),
    canonJO (jobjOfList l) = l.map (fun p => (p.1, canonJ p.2))
  | [] => by simp [jobjOfList, canonJO]
  | (k, v) :: r => by simp [jobjOfList, canonJO, canonJO_jobjOfList r]

theorem jobjOfList_injective : ∀ {l l' : List (String × JVal)}, jobjOfList l = jobjOfList l' → l = l'
  | [], [], _ => rfl
  | [], (_, _) :: _, h => by simp [jobjOfList] at h
  | (_, _) :: _, [], h => by simp [jobjOfList] at h
  | (k, v) :: r, (k', v') :: r', h => by
    simp only [jobjOfList, JObj.cons.injEq] at h
    rw [h.1, h.2.1, jobjOfList_injective h.2.2]

theorem canonJO_keys : ∀ o : JObj, (canonJO o).map (·.1) = jkeys o
  | .nil => by simp [canonJO, jkeys]
  | .cons k v o => by simp [canonJO, jkeys, canonJO_keys o]

mutual
  theorem ser_eq_serC_canon : ∀ v : JVal, ser v = serC (canonJ v)
    | .null => by simp [canonJ, ser, serC]
    | .bool b => by simp [canonJ, ser, serC]
    | .num t => by simp [canonJ, ser, serC]
    | .str s => by simp [canonJ, ser, serC]
    | .arr l => by simp [canonJ, ser, serC, serL_eq_serCL_canon l]
    | .obj o => by
      simp only [canonJ, ser, serC, serCO_jobjOfList, serO_eq_canon o]
      rw [sortKV_map]
  theorem serL_eq_serCL_canon : ∀ l : JList, serL l = serCL (canonJL l)
    | .nil => by simp [canonJL, serL, serCL]
    | .cons v .nil => by simp [canonJL, serL, serCL, ser_eq_serC_canon v]
    | .cons v (.cons v' l') => by
      have := serL_eq_serCL_canon (.cons v' l')
      simp only [canonJL] at this
      simp [canonJL, serL, serCL, ser_eq_serC_canon v, this]
  theorem serO_eq_canon : ∀ o : JObj, serO o = (canonJO o).map (fun p => (p.1, serC p.2))
    | .nil => by simp [canonJO, serO]
    | .cons k v o => by simp [canonJO, serO, ser_eq_serC_canon v, serO_eq_canon o]
end

mutual
  theorem canonJ_idem : ∀ v : JVal, DistinctJ v → canonJ (canonJ v) = canonJ v
    | .null, _ => by simp [canonJ]
    | .bool b, _ => by simp [canonJ]
    | .num t, _ => by simp [canonJ]
    | .str s, _ => by simp [canonJ]
    | .arr l, h => by
      simp only [DistinctJ] at h
      simp [canonJ, canonJL_idem l h]
    | .obj o, h => by
      simp only [DistinctJ] at h
      simp only [canonJ, canonJO_jobjOfList]
      rw [← sortKV_map, canonJO_idem o h.2, sortKV_idem]
      rw [canonJO_keys]; exact h.1
  theorem canonJL_idem : ∀ l : JList, DistinctJL l → canonJL (canonJL l) = canonJL l
    | .nil, _ => by simp [canonJL]
    | .cons v l, h => by
      simp only [DistinctJL] at h
      simp [canonJL, canonJ_idem v h.1, canonJL_idem l h.2]
  theorem canonJO_idem : ∀ o : JObj, DistinctJO o →
      (canonJO o).map (fun p => (p.1, canonJ p.2)) = canonJO o
    | .nil, _ => by simp [canonJO]
    | .cons k v o, h => by
      simp only [DistinctJO] at h
      simp [canonJO, canonJ_idem v h.1, canonJO_idem o h.2]
end


/-- (a) key order / dictionary insertion order is irrelevant: the normalized JSON of a value is
    that of its canonical form.  (`DistinctJ` is needed: on equal keys `sortKV` puts the member
    that was stored *later* first, so with duplicate keys sorting twice is not sorting once.) -/
theorem ser_canon (v : JVal) (h : DistinctJ v) : ser (canonJ v) = ser v := by
  rw [ser_eq_serC_canon, ser_eq_serC_canon v, canonJ_idem v h]

/-- `DistinctJ` cannot be dropped from `ser_canon`: with a duplicate key the model's `sortKV` reverses
    the two members (`sortKV [("a", 1), ("a", 2)] = [("a", 2), ("a", 1)]`) -/
example : ser (canonJ (.obj (.cons "a" (.num "1") (.cons "a" (.num "2") .nil)))) ≠
    ser (.obj (.cons "a" (.num "1") (.cons "a" (.num "2") .nil))) := by decide

/-- (b), without the distinctness hypotheses (they are not needed) -/
theorem ser_injective' {v w : JVal} (h : ser v = ser w) : canonJ v = canonJ w := by
  rw [ser_eq_serC_canon, ser_eq_serC_canon w] at h
  exact serC_injective h

/-- (b) the normalized JSON is injective on JSON values up to member order: equal token lists ⇒
    equal canonical forms (the grammar is unambiguous) -/
theorem ser_injective (v w : JVal) (_hv : DistinctJ v) (_hw : DistinctJ w) (h : ser v = ser w) :
    canonJ v = canonJ w :=
  ser_injective' h

/-- converse of (b): equal canonical forms ⇒ equal token lists -/
theorem ser_eq_of_canon_eq {v w : JVal} (h : canonJ v = canonJ w) : ser v = ser w := by
  rw [ser_eq_serC_canon, ser_eq_serC_canon w, h]

/-! ## normalized argument values -/

/-- everything that `decode` returns is a fixed point of `normalize` -/
theorem normalize_of_decode (v : JVal) (n : Arg) (h : decode v = some n) : normalize n = some n :=
  decode_fix v n h

/-- normalization is idempotent: what `normalize` returns is a fixed point -/
theorem normalize_idem (a n : Arg) (h : normalize a = some n) : normalize n = some n :=
  decode_fix (encode a) n h

/-- on normalized values `encode` is injective (decode is a left inverse) -/
theorem encode_injective_on_normalized (a b : Arg) (ha : normalize a = some a) (hb : normalize b = some b)
    (h : encode a = encode b) : a = b := by
  unfold normalize at ha hb
  rw [h, hb] at ha
  exact (Option.some.inj ha).symm

/-- **key ⇔ value**: two normalized values have the same normalized JSON iff their encodings are
    equal as JSON values up to dictionary member order -/
theorem key_iff (a b : Arg) (_ha : DistinctJ (encode a)) (_hb : DistinctJ (encode b)) :
    ser (encode a) = ser (encode b) ↔ canonJ (encode a) = canonJ (encode b) :=
  ⟨ser_injective', ser_eq_of_canon_eq⟩

theorem int_tok_is_int (z : Int) : isIntTok (intTok z) = true := isIntTok_intTok z

/-- an integer token reads back as the integer (`json.loads (json.dumps z) = z`) -/
theorem int_tok_roundtrip (z : Int) : decode (.num (intTok z)) = some (.int z) := by
  simp [decode, isIntTok_intTok, intTok_toInt]

/-- type separation: boolean / integer / float / string / date / datetime / null never share a key -/
theorem type_separation_bool_int (b : Bool) (z : Int) : ser (encode (.bool b)) ≠ ser (encode (.int z)) := by
  simp [encode, ser]
theorem type_separation_int_float (z : Int) (t : String) (ht : isIntTok t = false) :
    ser (encode (.int z)) ≠ ser (encode (.float t)) := by
  intro h
  simp only [encode, ser, List.cons.injEq, Tok.prim.injEq, Prim.num.injEq, and_true] at h
  rw [← h, isIntTok_intTok] at ht
  exact Bool.noConfusion ht
theorem type_separation_int_str (z : Int) (s : String) : ser (encode (.int z)) ≠ ser (encode (.str s)) := by
  simp [encode, ser]
theorem type_separation_date_datetime (d t : String) : ser (encode (.date d)) ≠ ser (encode (.datetime t)) := by
  intro h
  have := ser_injective' h
  simp [encode, canonJ, canonJO, sortKV, insertKV, jobjOfList] at this
theorem type_separation_date_str (d s : String) : ser (encode (.date d)) ≠ ser (encode (.str s)) := by
  simp [encode, ser]
theorem type_separation_naive_aware (t t' : String) (h : t ≠ t') :
    ser (encode (.datetime t)) ≠ ser (encode (.datetime t')) := by
  intro he
  have := ser_injective' he
  simp [encode, canonJ, canonJO, sortKV, insertKV, jobjOfList] at this
  exact h this

/-! ## presentations -/

/-- the binding of parameter names to values as a map -/
def binding (params : List String) (vs : List Arg) : KwMap := params.zip vs

/-- two keyword maps with the same lookups -/
def SameMap (m m' : KwMap) : Prop := ∀ k, kwGet m k = kwGet m' k

/-- the bindings of the parameters from position `i` on that `pk` does not name, in parameter order -/
def restBindings (params : List String) (vs : List Arg) (i : Nat) (pk : KwMap) : KwMap :=
  ((binding params vs).drop i).filter (fun b => !kwHas pk b.1)

/-- a presentation of the binding `params ↦ vs`:
    * the first `i` parameters as partial positional arguments;
    * *any* sub-collection `pk` of the bindings of the other parameters as partial keyword arguments,
      in any order (in particular a partial keyword argument may name an *earlier* parameter than a
      positional one: `def area(w, h)`, `area.partial(w=3)(4)`);
    * of the parameters that are then still unbound (`restBindings`, in parameter order) the first
      `r` positionally, the others as keyword arguments `kw`, in any order. -/
structure Presentation (params : List String) (vs : List Arg) where
  i : Nat
  pk : KwMap
  r : Nat
  kw : KwMap
  hi : i ≤ params.length
  /-- `pk` names distinct parameters … -/
  hpkN : (pk.map (·.1)).Nodup
  /-- … after the first `i`, each with its value -/
  hpk : ∀ b ∈ pk, b ∈ (binding params vs).drop i
  hr : r ≤ (restBindings params vs i pk).length
  /-- `kw` is a permutation of the bindings that are still open -/
  hkw : kw.Perm ((restBindings params vs i pk).drop r)

/-- the partial positional arguments of a presentation -/
def Presentation.pargs {params : List String} {vs : List Arg} (p : Presentation params vs) : List Arg :=
  vs.take p.i

/-- the positional arguments of a presentation: the values of the first `r` unbound parameters -/
def Presentation.args {params : List String} {vs : List Arg} (p : Presentation params vs) : List Arg :=
  ((restBindings params vs p.i p.pk).take p.r).map (·.2)

/-- the names in `restBindings` are the `remaining` names of `effKw`: the parameters from `i` on
    that `pk` does not name, order preserved -/
theorem restBindings_names (params : List String) (vs : List Arg) (hl : vs.length = params.length)
    (i : Nat) (pk : KwMap) :
    (restBindings params vs i pk).map (·.1) = (params.drop i).filter (fun n => !kwHas pk n) := by
  unfold restBindings binding
  have e : params.drop i = ((params.zip vs).drop i).map (·.1) := by
    rw [List.map_drop, List.map_fst_zip (by omega)]
  rw [e, List.filter_map]
  rfl

/-- the effective keyword arguments of a presentation, explicitly; they are a permutation of the
    binding -/
theorem presentation_effKw (params : List String) (vs : List Arg) (hp : params.Nodup)
    (hl : vs.length = params.length) (p : Presentation params vs) :
    ∃ m, effKw params p.pargs p.pk p.args p.kw = .ok m ∧ m.Perm (binding params vs) :=
  ⟨_, effKw_presentation params vs hp hl p.i p.pk p.r p.kw p.hi p.hpkN p.hpk p.hr p.hkw⟩

theorem binding_keys (params : List String) (vs : List Arg) (hl : vs.length = params.length) :
    (binding params vs).map (·.1) = params :=
  List.map_fst_zip (by omega)

/-- (a) positional vs keyword passing, partial application, keyword order: every presentation of a
    binding yields the same effective keyword arguments (as a map) … -/
theorem presentation_invariance (params : List String) (vs : List Arg) (hp : params.Nodup)
    (hl : vs.length = params.length) (p : Presentation params vs) :
    ∃ m, effKw params p.pargs p.pk p.args p.kw = .ok m ∧
      SameMap m (binding params vs) ∧ (m.map (·.1)).Perm params := by
  obtain ⟨m, hm, hperm⟩ := presentation_effKw params vs hp hl p
  have hk : (m.map (·.1)).Perm params := by
    have := hperm.map (·.1)
    rwa [binding_keys params vs hl] at this
  exact ⟨m, hm, fun k => kwGet_eq_of_perm hperm (hk.nodup_iff.mpr hp) k, hk⟩

/-- … and therefore the same key tokens.  (`hd`, `hc` are not needed.) -/
theorem presentation_same_key (params : List String) (vs : List Arg) (hp : params.Nodup)
    (hl : vs.length = params.length) (p q : Presentation params vs) (ctx : KwMap)
    (_hd : ∀ v ∈ vs, DistinctJ (encode v)) (_hc : DistinctJ (encode (.dict (ArgObj.ofList ctx))))
    (hr : "_memento_context_args" ∉ params) :
    ∀ m m', effKw params p.pargs p.pk p.args p.kw = .ok m →
      effKw params q.pargs q.pk q.args q.kw = .ok m' →
      keyTokens m ctx = keyTokens m' ctx := by
  intro m m' hm hm'
  obtain ⟨m0, h0, hperm⟩ := presentation_effKw params vs hp hl p
  obtain ⟨m0', h0', hperm'⟩ := presentation_effKw params vs hp hl q
  rw [hm] at h0; rw [hm'] at h0'
  cases h0; cases h0'
  have hk : (m.map (·.1)).Perm params := by
    have := hperm.map (·.1)
    rwa [binding_keys params vs hl] at this
  exact keyTokens_perm ctx (hperm.trans hperm'.symm) (hk.nodup_iff.mpr hp)
    (fun h => hr (hk.mem_iff.mp h))

/-! ### the narrow form (partial keyword arguments only after the positional arguments)

This is the statement as it was first given; it is the special case `r := j - i` of the general one,
where no partial keyword argument names one of the parameters `i..j`. -/

structure NarrowPresentation (params : List String) (vs : List Arg) where
  i : Nat
  j : Nat
  pk : KwMap
  kw : KwMap
  hij : i ≤ j
  hj : j ≤ params.length
  /-- `pk ++ kw` is a permutation of the bindings of the remaining parameters -/
  rest : (pk ++ kw).Perm ((binding params vs).drop j)

theorem binding_length (params : List String) (vs : List Arg) (hl : vs.length = params.length) :
    (binding params vs).length = params.length := by
  unfold binding; rw [List.length_zip]; omega

/-- a narrow presentation is a presentation -/
def NarrowPresentation.toPresentation {params : List String} {vs : List Arg} (hp : params.Nodup)
    (hl : vs.length = params.length) (p : NarrowPresentation params vs) : Presentation params vs :=
  have hB : ((binding params vs).map (·.1)).Nodup := by rw [binding_keys params vs hl]; exact hp
  have hn := narrow_rest (binding params vs) hB p.i p.j p.hij
    (by rw [binding_length params vs hl]; exact p.hj) p.pk p.kw p.rest
  { i := p.i, pk := p.pk, r := p.j - p.i, kw := p.kw
    hi := Nat.le_trans p.hij p.hj
    hpkN := by
      have : ((p.pk ++ p.kw).map (·.1)).Nodup :=
        (p.rest.map _).nodup_iff.mpr (((List.drop_sublist p.j _).map _).nodup hB)
      rw [List.map_append, List.nodup_append] at this
      exact this.1
    hpk := by
      intro b hb
      have hb' : b ∈ (binding params vs).drop p.j := p.rest.mem_iff.mp (List.mem_append_left _ hb)
      have e : (binding params vs).drop p.j = ((binding params vs).drop p.i).drop (p.j - p.i) := by
        rw [List.drop_drop, show p.i + (p.j - p.i) = p.j from by have := p.hij; omega]
      rw [e] at hb'
      exact List.mem_of_mem_drop hb'
    hr := by
      unfold restBindings
      rw [hn.1, List.length_append, hn.2.2]; omega
    hkw := by
      unfold restBindings
      rw [hn.1, List.drop_left' hn.2.2]
      exact hn.2.1 }

theorem NarrowPresentation.args_eq {params : List String} {vs : List Arg} (hp : params.Nodup)
    (hl : vs.length = params.length) (p : NarrowPresentation params vs) :
    (p.toPresentation hp hl).args = (vs.drop p.i).take (p.j - p.i) := by
  have hB : ((binding params vs).map (·.1)).Nodup := by rw [binding_keys params vs hl]; exact hp
  have hn := narrow_rest (binding params vs) hB p.i p.j p.hij
    (by rw [binding_length params vs hl]; exact p.hj) p.pk p.kw p.rest
  show ((restBindings params vs p.i p.pk).take (p.j - p.i)).map (·.2) = _
  unfold restBindings
  rw [hn.1, List.take_left' hn.2.2, List.map_take, List.map_drop]
  unfold binding
  rw [List.map_snd_zip (by omega)]

/-- the original statement of (a) -/
theorem presentation_invariance_narrow (params : List String) (vs : List Arg) (hp : params.Nodup)
    (hl : vs.length = params.length) (p : NarrowPresentation params vs) :
    ∃ m, effKw params (vs.take p.i) p.pk ((vs.drop p.i).take (p.j - p.i)) p.kw = .ok m ∧
      SameMap m (binding params vs) ∧ (m.map (·.1)).Perm params := by
  have := presentation_invariance params vs hp hl (p.toPresentation hp hl)
  rwa [NarrowPresentation.args_eq hp hl p] at this

/-- the original statement of "… and therefore the same key tokens" -/
theorem presentation_same_key_narrow (params : List String) (vs : List Arg) (hp : params.Nodup)
    (hl : vs.length = params.length) (p q : NarrowPresentation params vs) (ctx : KwMap)
    (hd : ∀ v ∈ vs, DistinctJ (encode v)) (hc : DistinctJ (encode (.dict (ArgObj.ofList ctx))))
    (hr : "_memento_context_args" ∉ params) :
    ∀ m m', effKw params (vs.take p.i) p.pk ((vs.drop p.i).take (p.j - p.i)) p.kw = .ok m →
      effKw params (vs.take q.i) q.pk ((vs.drop q.i).take (q.j - q.i)) q.kw = .ok m' →
      keyTokens m ctx = keyTokens m' ctx := by
  have := presentation_same_key params vs hp hl (p.toPresentation hp hl) (q.toPresentation hp hl)
    ctx hd hc hr
  rwa [NarrowPresentation.args_eq hp hl p, NarrowPresentation.args_eq hp hl q] at this

/-- the motivating case of the general form: `def area(w, h)`, `area.partial(w=3)(4)` binds `h = 4` -/
example : effKw ["w", "h"] [] [("w", .int 3)] [.int 4] [] = .ok [("w", .int 3), ("h", .int 4)] := by rfl

/-- … and it is a `Presentation` (`i = 0`, `pk = {w: 3}`, `r = 1`, no keyword arguments) -/
example : Presentation ["w", "h"] [.int 3, .int 4] where
  i := 0
  pk := [("w", .int 3)]
  r := 1
  kw := []
  hi := by decide
  hpkN := by simp
  hpk := by simp [binding]
  hr := by simp [restBindings, binding, kwHas]
  hkw := by simp [restBindings, binding, kwHas]

/-! ## Chained partial applications -/

theorem kwSet_has (m : KwMap) (k : String) (v : Arg) : (kwSet m k v).any (fun p => p.1 == k) = true := by
  unfold kwSet
  split
  · rename_i h
    simp only [List.any_map]
    obtain ⟨p, hp, hk⟩ := List.any_eq_true.mp h
    refine List.any_eq_true.mpr ⟨p, hp, ?_⟩
    simp only [Function.comp, hk, if_true, beq_self_eq_true]
  · simp

/-- binding a keyword twice keeps the later value only: the map is the one obtained by binding the later value alone -/
theorem kwSet_kwSet_same (m : KwMap) (k : String) (v w : Arg) : kwSet (kwSet m k v) k w = kwSet m k w := by
  have h1 := kwSet_has m k v
  have houter : kwSet (kwSet m k v) k w = (kwSet m k v).map (fun p => if p.1 == k then (k, w) else p) := by
    generalize kwSet m k v = m' at h1 ⊢
    unfold kwSet; rw [if_pos h1]
  rw [houter]
  unfold kwSet
  split
  · simp only [List.map_map]
    apply List.map_congr_left
    intro p _
    simp only [Function.comp]
    by_cases hp : (p.1 == k) = true
    · simp [hp]
    · simp [hp]
  · rename_i hno
    simp only [List.map_append, List.map_cons, List.map_nil, beq_self_eq_true, if_true]
    congr 1
    have : ∀ p ∈ m, (p.1 == k) = false := by
      intro p hp
      cases hpk : (p.1 == k) with
      | false => rfl
      | true => exact absurd (List.any_eq_true.mpr ⟨p, hp, hpk⟩) hno
    rw [List.map_congr_left (g := id)]
    · simp
    · intro p hp; simp [this p hp]

/-- successive `partial` calls are one `partial` call with the arguments appended and the keywords applied in order -/
theorem chained_partials_are_one (pargs : List Arg) (pkw : KwMap) (a a' : List Arg) (k k' : KwMap) :
    partialStep (partialStep pargs pkw a k).1 (partialStep pargs pkw a k).2 a' k' = partialStep pargs pkw (a ++ a') (k ++ k') := by
  simp [partialStep, List.foldl_append, List.append_assoc]

/-- **re-binding an already bound partial keyword binds the later value**: `f.partial(p=v).partial(p=w)` has the
    effective keyword arguments — hence the key, by `key_iff` — of `f.partial(p=w)`, whatever `v` was (also when `v == w`
    in Python's sense but of another type) -/
theorem rebound_partial_binds_latest (params : List String) (pargs : List Arg) (pkw : KwMap) (p : String) (v w : Arg)
    (args : List Arg) (kwargs : KwMap) :
    let once := partialStep pargs pkw [] [(p, v)]
    let twice := partialStep once.1 once.2 [] [(p, w)]
    effKw params twice.1 twice.2 args kwargs = effKw params pargs (partialStep pargs pkw [] [(p, w)]).2 args kwargs := by
  simp only [partialStep, List.foldl_cons, List.foldl_nil, List.append_nil, kwSet_kwSet_same]

/-- context arguments are part of the key; the empty dictionary is the same as none -/
theorem ctx_empty_is_absent (kw : KwMap) : keyTokens kw [] = ser (encode (.dict (ArgObj.ofList kw))) := by
  simp [keyTokens, withCtx]

theorem canonJO_encodeO_ofList : ∀ l : List (String × Arg),
    canonJO (encodeO (ArgObj.ofList l)) = l.map (fun p => (p.1, canonJ (encode p.2)))
  | [] => by simp [ArgObj.ofList, encodeO, canonJO]
  | (k, a) :: r => by simp [ArgObj.ofList, encodeO, canonJO, canonJO_encodeO_ofList r]

/-- (`hk`, `hd`, `hc`, `hc'` are not needed.) -/
theorem ctx_distinguishes (kw ctx ctx' : KwMap) (_hk : (kw.map (·.1)).Nodup)
    (hr : "_memento_context_args" ∉ kw.map (·.1))
    (_hd : DistinctJ (encode (.dict (ArgObj.ofList kw))))
    (_hc : DistinctJ (encode (.dict (ArgObj.ofList ctx)))) (_hc' : DistinctJ (encode (.dict (ArgObj.ofList ctx'))))
    (hne : ctx ≠ []) (hne' : ctx' ≠ [])
    (h : keyTokens kw ctx = keyTokens kw ctx') :
    canonJ (encode (.dict (ArgObj.ofList ctx))) = canonJ (encode (.dict (ArgObj.ofList ctx'))) := by
  unfold keyTokens at h
  rw [withCtx_fresh _ _ hne hr, withCtx_fresh _ _ hne' hr] at h
  have hc := ser_injective' h
  simp only [encode, canonJ, JVal.obj.injEq] at hc
  have hs := jobjOfList_injective hc
  rw [canonJO_encodeO_ofList, canonJO_encodeO_ofList, List.map_append, List.map_append] at hs
  simp only [List.map_cons, List.map_nil] at hs
  have hmem : ("_memento_context_args", canonJ (encode (.dict (ArgObj.ofList ctx)))) ∈
      sortKV (kw.map (fun p => (p.1, canonJ (encode p.2))) ++
        [("_memento_context_args", canonJ (encode (.dict (ArgObj.ofList ctx'))))]) := by
    rw [← hs, mem_sortKV]; simp
  rw [mem_sortKV, List.mem_append] at hmem
  rcases hmem with hmem | hmem
  · exfalso
    obtain ⟨b, hb, e⟩ := List.mem_map.mp hmem
    exact hr (List.mem_map.mpr ⟨b, hb, (Prod.mk.inj e).1⟩)
  · simp only [List.mem_singleton, Prod.mk.injEq, true_and] at hmem
    exact hmem

/-! non-vacuity -/
example : render (keyTokens [("b", .int 1), ("a", .list (.cons (.bool true) (.cons .none .nil)))] [("k", .str "é")])
    = "{\"_memento_context_args\":{\"k\":\"\\u00e9\"},\"a\":[true,null],\"b\":1}" := by decide

end Memento.ArgHash
