import MementoModel.Model.ArgHash
namespace Memento.ArgHash
theorem placeholder_c04 : encode .none = .null := by simp [encode]
end Memento.ArgHash
