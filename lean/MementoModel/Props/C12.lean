import MementoModel.Lemmas.QNameLemmas

/-!
# C12 — whatever was stored stays listable and readable as names and code evolve

Property theorems only. Model: `Model/QName.lean` (character-level transcription of the naming code:
`FunctionReference.__init__`/`parse_qualified_name` — the regular expression as explicit searches —,
`from_qualified_name`/`_find_function`, the external stub, the reference part of `decode_memento`
including the binding of stored positional arguments to parameter names,
`get_mementos`/`list_mementos`/`list_functions`, `_escape_key` and the listing of file names).
Helper lemmas and the admissibility predicates: `Lemmas/QNameLemmas.lean`.

Admissible name parts (`Adm c m f v`):
* cluster: no `#`, no `::`, does not end in `:`;
* module: no `:`, no `#`;  function: no `#`, no `::`, does not start with `:`;
* version: **arbitrary** (may contain `:`, `::`, `#`, …) except for a newline.
The `boundary_*` theorems show that each restriction is needed (the scheme is ambiguous or the
regular expression stops there), so the round trip is stated for the largest natural domain.
Stored names (`AdmName`) additionally have a module that is not a relative import (`.x`).

"However the code base changes afterwards" is `∀ cb : CodeBase`: the code base at reading time is
universally quantified and unrelated to the one that stored the names. The only link the reading
theorems need is `SigOk`: a function found under the *same* module, name and version still accepts
the stored number of positional arguments (guaranteed by automatic versions, which hash the code;
the user's contract for explicit version strings — `boundary_signature_shrinks` shows what happens
otherwise).
-/
set_option linter.unusedVariables false
namespace Memento.QName

/-! ## (1) A qualified name splits back into exactly its parts -/

/-- **round trip**: for all admissible parts — in particular for every version string without a
    newline, whatever `:`/`::`/`#` it contains — parsing the built name returns exactly the parts -/
theorem parse_build (c : Option Str) (m f : Str) (v : Option Str) (h : Adm c m f v) :
    parse (build c m f v) = some ⟨c, m, f, v⟩ :=
  parse_build_core c m f v h

/-- non-vacuity: cluster `k:c`, module `a.b`, function `f`, version `v:1#x::y:z` -/
example :
    Adm (some ['k', ':', 'c']) ['a', '.', 'b'] ['f'] (some ['v', ':', '1', '#', 'x', ':', ':', 'y', ':', 'z']) ∧
    parse (build (some ['k', ':', 'c']) ['a', '.', 'b'] ['f'] (some ['v', ':', '1', '#', 'x', ':', ':', 'y', ':', 'z']))
      = some ⟨some ['k', ':', 'c'], ['a', '.', 'b'], ['f'], some ['v', ':', '1', '#', 'x', ':', ':', 'y', ':', 'z']⟩ := by
  refine ⟨⟨?_, ⟨by decide, by decide⟩, ⟨by decide, by decide, by decide⟩, by simp [VerOk]⟩, by decide⟩
  intro x hx; cases hx; exact ⟨by decide, by decide, by decide⟩

/-- the name a *registered* function gets (`MementoFunction.qualified_name_without_version`, then
    `FunctionReference.__init__`) is the same string as the stub name, hence parses back too -/
theorem parse_real_name (c : Option Str) (m q ver : Str) (h : Adm c m q (some ver)) :
    realName c m q ver = build c m q (some ver) ∧
    parse (realName c m q ver) = some ⟨c, m, q, some ver⟩ := by
  have e := realName_eq_build c m q ver h.base
  exact ⟨e, by rw [e]; exact parse_build_core c m q (some ver) h⟩

example : realName (some ['k']) ['m'] ['f'] ['1', ':', '2'] = ['k', ':', ':', 'm', ':', 'f', '#', '1', ':', '2'] := by decide

/-- distinct admissible parts never share a name: what is stored under a name is found under
    exactly that function/version again -/
theorem build_injective (c c' : Option Str) (m m' f f' : Str) (v v' : Option Str)
    (h : Adm c m f v) (h' : Adm c' m' f' v') (e : build c m f v = build c' m' f' v') :
    c = c' ∧ m = m' ∧ f = f' ∧ v = v' := by
  have a := parse_build_core c m f v h
  have b := parse_build_core c' m' f' v' h'
  rw [e, b] at a
  simp only [Option.some.injEq, Parts.mk.injEq] at a
  exact ⟨a.1.symm, a.2.1.symm, a.2.2.1.symm, a.2.2.2.symm⟩

example : build none ['m'] ['f'] (some ['1']) ≠ build none ['m'] ['f'] (some ['1', '0']) := by decide

/-- whatever parses can be rebuilt into a name that parses: constructing the external stub
    (`UnboundExternalMementoFunction.__init__` re-parses its own name) never fails, for *every*
    string — admissible or not -/
theorem stub_name_parses (s : Str) (p : Parts) (h : parse s = some p) :
    (parse (build p.cluster p.module p.function p.version)).isSome = true :=
  rebuild_parses s p h

example : parse ['a', ':', ':', ':', 'm', ':', 'f'] = some ⟨some ['a'], [], ['m', ':', 'f'], none⟩ := by decide

/-! ### The restrictions are needed (each witness evaluated on the model) -/

/-- a cluster name ending in `:` is split one character early -/
theorem boundary_cluster_trailing_colon :
    parse (build (some ['a', ':']) ['m'] ['f'] none) = some ⟨some ['a'], [], ['m', ':', 'f'], none⟩ := by decide

/-- a cluster name containing `#` makes the name unparsable (it would be ambiguous with a version
    containing `::`) -/
theorem boundary_cluster_hash : parse (build (some ['a', '#', 'b']) ['m'] ['f'] none) = none := by decide

/-- a function name starting with `:` loses its cluster prefix when the name is built -/
theorem boundary_function_leading_colon :
    build (some ['c']) ['m'] [':', 'f'] none = ['m', ':', ':', 'f'] ∧
    parse (build (some ['c']) ['m'] [':', 'f'] none) = some ⟨none, ['m'], [':', 'f'], none⟩ := by decide

/-- a newline ends the version (`.` in the regular expression) -/
theorem boundary_version_newline :
    parse (build none ['m'] ['f'] (some ['1', '\n', '2'])) = some ⟨none, ['m'], ['f'], some ['1']⟩ := by decide

/-! ## (2) File names: stored names are listed under exactly their name -/

/-- `unquote (_escape_key s) = s` for every string without `%` -/
theorem unquote_escape (s : Str) (h : '%' ∉ s) : unquote (escape s) = s :=
  unquote_escape_core s h

example : escape ['k', ':', ':', 'm', ':', 'f', '#', 'v', ':', '1']
    = ['k', '%', '3', 'A', '%', '3', 'A', 'm', '%', '3', 'A', 'f', '#', 'v', '%', '3', 'A', '1'] := by decide

/-- the escaped name contains no `:` (the reason for escaping) -/
theorem escape_has_no_colon (s : Str) : ':' ∉ escape s := escape_no_colon s

/-- a function directory `m/<escaped qualified name>` is listed as exactly the qualified name,
    whatever the name ends in (in particular `.link`) -/
theorem listed_function_name (qn : Str) (h : '%' ∉ qn) : listedName true (escape qn) = qn := by
  simp [listedName, unquote_escape_core qn h]

example : listedName true (escape ['m', ':', 'f', '#', 'x', '.', 'l', 'i', 'n', 'k'])
    = ['m', ':', 'f', '#', 'x', '.', 'l', 'i', 'n', 'k'] := by decide

/-- a link *file* `<escaped key>.link` is listed as exactly the key -/
theorem listed_link_key (k : Str) (h : '%' ∉ k) : listedName false (escape k ++ dotLink) = k := by
  have hd : '%' ∉ dotLink := by decide
  have e : escape k ++ dotLink = escape (k ++ dotLink) := by
    have : ∀ (a b : Str), escape (a ++ b) = escape a ++ escape b := by
      intro a b; induction a with
      | nil => rfl
      | cons x a ih => by_cases hx : x = ':' <;> simp [escape, hx, ih]
    rw [this]; congr 1
  rw [e]
  have hk : '%' ∉ k ++ dotLink := by simp [h, hd]
  simp [listedName, unquote_escape_core _ hk, stripLink_append]

example : listedName false ['a', 'b', '.', 'm', '.', 'l', 'i', 'n', 'k'] = ['a', 'b', '.', 'm'] := by decide

/-- why directories must not be treated like link files: stripping `.link` from a function
    directory would list a different version -/
theorem boundary_directory_not_stripped :
    stripLink (unquote (escape ['m', ':', 'f', '#', 'x', '.', 'l', 'i', 'n', 'k'])) = ['m', ':', 'f', '#', 'x'] := by decide

/-! ## (3) Resolving a stored name never fails: it is bound or external -/

/-- **resolution is total**: for every code base, a stored admissible name (`AdmName`: admissible
    parts, module not a relative import) resolves to a reference — bound or external; no exception -/
theorem resolve_total (cb : CodeBase) (c : Option Str) (m f : Str) (v : Option Str) (pn : Option (List Str))
    (h : Adm c m f v) (hm : m.head? ≠ some '.') :
    ∃ r, resolve cb (build c m f v) false pn = .ok r := by
  cases hf : findFunction cb m f v with
  | ok fd => exact ⟨_, resolve_build_found cb c m f v h pn fd hf⟩
  | error e =>
    by_cases he : e = .relativeImport
    · subst he; exact absurd ((findFunction_relative_iff cb m f v).mp hf) hm
    · exact ⟨_, resolve_build_notfound cb c m f v h pn e hf he⟩

example : resolve [] ['m', ':', 'f', '#', 'v', ':', '1'] false none
    = .ok ⟨true, ['m', ':', 'f', '#', 'v', ':', '1'], none, []⟩ := by rfl

/-- **bound iff module, function and version all match** (the cluster plays no role) -/
theorem resolve_bound_iff (cb : CodeBase) (c : Option Str) (m f : Str) (v : Option Str) (pn : Option (List Str))
    (h : Adm c m f v) (hm : m.head? ≠ some '.') :
    (∃ r, resolve cb (build c m f v) false pn = .ok r ∧ r.external = false) ↔
      (m ≠ [] ∧ hasLocals f = false ∧ Matches cb m f v) := by
  constructor
  · rintro ⟨r, hr, hext⟩
    cases hf : findFunction cb m f v with
    | ok x =>
      obtain ⟨h1, _, h3, attrs, h4, h5, h6⟩ := (findFunction_ok_iff cb m f v x).mp hf
      exact ⟨h1, h3, attrs, _, _, _, _, _, h4, h5, h6⟩
    | error e =>
      by_cases he : e = .relativeImport
      · subst he; exact absurd ((findFunction_relative_iff cb m f v).mp hf) hm
      · rw [resolve_build_notfound cb c m f v h pn e hf he] at hr
        cases hr; simp at hext
  · rintro ⟨h1, h3, attrs, c', m', q, ver, ps, h4, h5, h6⟩
    have hf : findFunction cb m f v = .ok ⟨c', m', q, ver, ps⟩ :=
      (findFunction_ok_iff cb m f v ⟨c', m', q, ver, ps⟩).mpr ⟨h1, hm, h3, attrs, h4, h5, h6⟩
    exact ⟨_, resolve_build_found cb c m f v h pn _ hf, rfl⟩

/-- a reference to a version that no longer exists (function edited, removed, renamed, replaced by
    a plain function or value, module gone) is reported as an **external** reference carrying the
    stored name, cluster and parameter names unchanged — in the default cluster (`c = none`) as
    well as in a named one -/
theorem vanished_reference_is_external (cb : CodeBase) (c : Option Str) (m f : Str) (v : Option Str)
    (pn : Option (List Str)) (h : Adm c m f v) (hm : m.head? ≠ some '.') (hno : ¬ Matches cb m f v) :
    resolve cb (build c m f v) false pn = .ok ⟨true, build c m f v, c, pn.getD []⟩ := by
  cases hf : findFunction cb m f v with
  | ok x =>
    obtain ⟨_, _, _, attrs, h4, h5, h6⟩ := (findFunction_ok_iff cb m f v x).mp hf
    exact absurd ⟨attrs, _, _, _, _, _, h4, h5, h6⟩ hno
  | error e =>
    by_cases he : e = .relativeImport
    · subst he; exact absurd ((findFunction_relative_iff cb m f v).mp hf) hm
    · exact resolve_build_notfound cb c m f v h pn e hf he

/-- non-vacuity: the callee was edited (registered version `2`), the stored reference names version `1`,
    default cluster -/
example : ¬ Matches [⟨['m'], [(['g'], .mfn none ['m'] ['g'] ['2'] [['x']])]⟩] ['m'] ['g'] (some ['1']) ∧
    resolve [⟨['m'], [(['g'], .mfn none ['m'] ['g'] ['2'] [['x']])]⟩] (build none ['m'] ['g'] (some ['1'])) false (some [['x']])
      = .ok ⟨true, ['m', ':', 'g', '#', '1'], none, [['x']]⟩ := by
  refine ⟨?_, by rfl⟩
  rintro ⟨attrs, c, m', q, ver, ps, h1, h2, h3⟩
  simp [lookupModule] at h1; subst h1
  simp [lookupAttr] at h2
  obtain ⟨_, _, _, rfl, _⟩ := h2
  simp at h3

/-- a current function registered under the same cluster, module and name with the stored version
    is **bound**, under exactly the stored name, with the parameter names of its signature -/
theorem current_reference_is_bound (cb : CodeBase) (c : Option Str) (m f ver : Str) (ps : List Str)
    (attrs : List (Str × Obj)) (pn : Option (List Str))
    (h : Adm c m f (some ver)) (hm : m.head? ≠ some '.') (hne : m ≠ []) (hl : hasLocals f = false)
    (h1 : lookupModule cb m = some attrs) (h2 : lookupAttr attrs f = some (.mfn c m f ver ps)) :
    resolve cb (build c m f (some ver)) false pn = .ok ⟨false, build c m f (some ver), c, ps⟩ := by
  have hf : findFunction cb m f (some ver) = .ok ⟨c, m, f, ver, ps⟩ :=
    (findFunction_ok_iff cb m f (some ver) ⟨c, m, f, ver, ps⟩).mpr ⟨hne, hm, hl, attrs, h1, h2, Or.inr rfl⟩
  rw [resolve_build_found cb c m f (some ver) h pn _ hf]
  have e : qualify (qnwv c m f) c (some ver) = build c m f (some ver) := realName_eq_build c m f ver h.base
  have e2 : pickCluster c c = c := by cases c <;> rfl
  simp [e, e2]

example : resolve [⟨['m'], [(['g'], .mfn (some ['k']) ['m'] ['g'] ['1', ':', 'a'] [])]⟩]
      (build (some ['k']) ['m'] ['g'] (some ['1', ':', 'a'])) false none
    = .ok ⟨false, ['k', ':', ':', 'm', ':', 'g', '#', '1', ':', 'a'], some ['k'], []⟩ := by rfl

/-- the only way `from_qualified_name` raises `ValueError` — for *any* string — is that the string
    itself does not parse -/
theorem resolve_valueError_iff (cb : CodeBase) (s : Str) (ext : Bool) (pn : Option (List Str)) :
    resolve cb s ext pn = .error .valueError ↔ parse s = none := by
  constructor
  · intro h
    cases hp : parse s with
    | none => rfl
    | some p =>
      exfalso
      obtain ⟨p', hp'⟩ := Option.isSome_iff_exists.mp (rebuild_parses s p hp)
      simp only [resolve, hp, hp'] at h
      cases ext with
      | true => simp at h
      | false =>
        simp only [Bool.false_eq_true, if_false] at h
        split at h <;> simp at h
  · intro h; simp [resolve, h]

/-! ## (4) Reading stored metadata never raises, however the code base has changed -/

theorem admName_resolves (cb : CodeBase) (q : Str) (pn : Option (List Str)) (h : AdmName q) :
    ∃ r, resolve cb q false pn = .ok r := by
  obtain ⟨c, m, f, v, ha, hm, rfl⟩ := h
  exact resolve_total cb c m f v pn ha hm

/-- a stored call decodes: the reference resolves and the stored positional arguments bind to its
    parameter names — to the stored names if it is external, to the current signature if it is bound
    (`SigOk`: the version pins the signature) -/
theorem call_decodes (cb : CodeBase) (s : StoredCall) (h : AdmCall s) (hs : SigOk cb s) :
    ∃ r, decodeCall cb s = .ok r ∧ resolve cb s.qn false s.params = .ok r := by
  obtain ⟨⟨c, m, f, v, ha, hm, hq⟩, ps, hps, hn⟩ := h
  cases hf : findFunction cb m f v with
  | ok fd =>
    have hr := resolve_build_found cb c m f v ha s.params fd hf
    have hfit := hs ⟨c, m, f, v⟩ fd (by rw [hq]; exact parse_build_core c m f v ha) hf
    refine ⟨_, ?_, by rw [hq]; exact hr⟩
    simp only [decodeCall, decodeRef, hq, hr]
    rw [if_neg (by simpa using hfit)]
  | error e =>
    by_cases he : e = .relativeImport
    · subst he; exact absurd ((findFunction_relative_iff cb m f v).mp hf) hm
    · have hr := resolve_build_notfound cb c m f v ha s.params e hf he
      refine ⟨_, ?_, by rw [hq]; exact hr⟩
      simp only [decodeCall, decodeRef, hq, hr]
      rw [if_neg (by simpa [hps] using hn)]

/-- **reading never raises**: for every code base `cb` (however it evolved) and every stored
    memento with admissible references, decoding succeeds; the own call, every invocation and every
    dependency is decoded to exactly what `resolve` says (bound / external) -/
theorem read_never_raises (cb : CodeBase) (s : Stored) (h : AdmStored cb s) :
    ∃ r, readMemento cb s = .ok r ∧ resolve cb s.own.qn false s.own.params = .ok r.own ∧
      r.invocations.length = s.invocations.length ∧ r.deps.length = s.deps.length ∧
      (∀ i (hi : i < s.invocations.length) (hj : i < r.invocations.length),
        resolve cb s.invocations[i].qn false s.invocations[i].params = .ok r.invocations[i]) ∧
      (∀ i (hi : i < s.deps.length) (hj : i < r.deps.length),
        resolve cb s.deps[i].qn false s.deps[i].params = .ok r.deps[i]) := by
  obtain ⟨o, ho, ho'⟩ := call_decodes cb s.own h.1.1 h.1.2
  obtain ⟨is, h1, h2, h3⟩ := mapAll_ok (decodeCall cb) s.invocations
    (fun q hq => by obtain ⟨r, hr, _⟩ := call_decodes cb q (h.2.1 q hq).1 (h.2.1 q hq).2; exact ⟨r, hr⟩)
  obtain ⟨ds, g1, g2, g3⟩ := mapAll_ok (decodeRef cb) s.deps
    (fun q hq => admName_resolves cb q.qn q.params (h.2.2 q hq))
  refine ⟨⟨o, is, ds⟩, by simp [readMemento, ho, h1, g1], ho', h2, g2, ?_, g3⟩
  intro i hi hj
  have := h3 i hi hj
  obtain ⟨r, hr, hr'⟩ := call_decodes cb s.invocations[i] (h.2.1 _ (List.getElem_mem hi)).1 (h.2.1 _ (List.getElem_mem hi)).2
  rw [hr] at this; cases this; exact hr'

/-- `get_mementos` (memento queries, and the look-up every call starts with) never raises -/
theorem getMemento_never_raises (cb : CodeBase) (st : MetaStore) (h : AdmStore cb st) (qn hh : Str) :
    ∃ r, getMemento cb st qn hh = .ok r := by
  cases hf : st.find qn hh with
  | none => exact ⟨none, by simp [getMemento, hf]⟩
  | some s =>
    obtain ⟨r, hr, _⟩ := read_never_raises cb s (h _ (find_mem st qn hh s hf))
    exact ⟨some r, by simp [getMemento, hf, hr]⟩

/-- `list_mementos` never raises and returns one memento per stored entry of the function -/
theorem listMementos_never_raises (cb : CodeBase) : ∀ (st : MetaStore) (h : AdmStore cb st) (qn : Str),
    ∃ rs, listMementos cb st qn = .ok rs ∧ rs.length = (st.filter (fun e => e.1 = qn)).length
  | [], _, _ => ⟨[], rfl, rfl⟩
  | (q, a, s) :: r, h, qn => by
    obtain ⟨rs, h1, h2⟩ := listMementos_never_raises cb r (fun e he => h e (List.mem_cons_of_mem _ he)) qn
    by_cases hq : q = qn
    · obtain ⟨x, hx, _⟩ := read_never_raises cb s (h (q, a, s) (by simp))
      exact ⟨x :: rs, by simp [listMementos, hq, hx, h1], by simp [hq, h2]⟩
    · exact ⟨rs, by simp [listMementos, hq, h1], by simp [hq, h2]⟩

/-- **an entry whose own version is current is served**: the memento stored under the current
    name of a registered function is returned by the query, its own reference bound under exactly
    that name, whatever happened to the functions it refers to (each of them is decoded to what
    `resolve` says: external exactly when nothing matches any more, by `resolve_bound_iff`) -/
theorem current_entry_is_served (cb : CodeBase) (st : MetaStore) (c : Option Str) (m f ver hh : Str)
    (ps : List Str) (attrs : List (Str × Obj)) (s : Stored)
    (h : Adm c m f (some ver)) (hm : m.head? ≠ some '.') (hne : m ≠ []) (hl : hasLocals f = false)
    (h1 : lookupModule cb m = some attrs) (h2 : lookupAttr attrs f = some (.mfn c m f ver ps))
    (hfind : st.find (realName c m f ver) hh = some s) (hown : s.own.qn = realName c m f ver)
    (hadm : AdmStored cb s) :
    ∃ r, getMemento cb st (realName c m f ver) hh = .ok (some r) ∧
      r.own = ⟨false, realName c m f ver, c, ps⟩ ∧
      r.invocations.length = s.invocations.length ∧
      ∀ i (hi : i < s.invocations.length) (hj : i < r.invocations.length),
        resolve cb s.invocations[i].qn false s.invocations[i].params = .ok r.invocations[i] := by
  have e := realName_eq_build c m f ver h.base
  obtain ⟨r, hr, ho, hl', _, hi, _⟩ := read_never_raises cb s hadm
  refine ⟨r, by simp [getMemento, hfind, hr], ?_, hl', hi⟩
  have := current_reference_is_bound cb c m f ver ps attrs s.own.params h hm hne hl h1 h2
  rw [hown, e, this] at ho
  injection ho with ho
  rw [← ho, e]

/-- non-vacuity (default cluster): caller `m:f#p:1` pinned, its stored memento records the call
    `m:g#1 (x)`; `g` has since been edited to version `2` — the entry is served, `g#1` is external -/
example :
    getMemento [⟨['m'], [(['f'], .mfn none ['m'] ['f'] ['p', ':', '1'] [['x']]), (['g'], .mfn none ['m'] ['g'] ['2'] [['x']])]⟩]
      [(realName none ['m'] ['f'] ['p', ':', '1'], ['h'],
        ⟨⟨realName none ['m'] ['f'] ['p', ':', '1'], some [['x']], 1⟩,
         [⟨realName none ['m'] ['g'] ['1'], some [['x']], 1⟩], []⟩)]
      (realName none ['m'] ['f'] ['p', ':', '1']) ['h']
    = .ok (some ⟨⟨false, ['m', ':', 'f', '#', 'p', ':', '1'], none, [['x']]⟩,
                 [⟨true, ['m', ':', 'g', '#', '1'], none, [['x']]⟩], []⟩) := by
  rfl

/-- why `SigOk` is needed: a callee that keeps its *explicit* version `1` but loses its positional
    parameter makes decoding the recorded call `g(3)` raise `ValueError` (observed on the real code) -/
theorem boundary_signature_shrinks :
    decodeCall [⟨['m'], [(['g'], .mfn none ['m'] ['g'] ['1'] [])]⟩]
      ⟨['m', ':', 'g', '#', '1'], some [['x']], 1⟩ = .error .valueError := by rfl

/-- listings (filesystem): every function directory is decoded without an exception, and a
    current function's directory yields the bound reference under exactly its name -/
theorem listFunctionsFs_never_raises (cb : CodeBase) (dirs : List Str)
    (h : ∀ d ∈ dirs, ∃ q, AdmName q ∧ '%' ∉ q ∧ d = escape q) :
    ∃ rs, listFunctionsFs cb dirs = .ok rs ∧ rs.length = dirs.length := by
  have : ∀ q ∈ dirs.map (fun e => nameOnly (listedName true e)), ∃ r, decodeRef cb q = .ok r := by
    intro q hq
    obtain ⟨d, hd, rfl⟩ := List.mem_map.mp hq
    obtain ⟨q', ha, hp, rfl⟩ := h d hd
    simp only [decodeRef, nameOnly]
    rw [listed_function_name q' hp]; exact admName_resolves cb q' none ha
  obtain ⟨rs, h1, h2, _⟩ := mapAll_ok (decodeRef cb) _ this
  exact ⟨rs, h1, by simpa using h2⟩

theorem stored_function_is_listed (cb : CodeBase) (dirs : List Str) (rs : List Ref)
    (c : Option Str) (m f ver : Str) (ps : List Str) (attrs : List (Str × Obj))
    (h : Adm c m f (some ver)) (hm : m.head? ≠ some '.') (hne : m ≠ []) (hl : hasLocals f = false)
    (h1 : lookupModule cb m = some attrs) (h2 : lookupAttr attrs f = some (.mfn c m f ver ps))
    (hp : '%' ∉ realName c m f ver) (hd : escape (realName c m f ver) ∈ dirs)
    (hls : listFunctionsFs cb dirs = .ok rs) :
    ⟨false, realName c m f ver, c, ps⟩ ∈ rs := by
  have e := realName_eq_build c m f ver h.base
  apply mapAll_mem (decodeRef cb) _ rs (nameOnly (realName c m f ver)) _ hls
  · exact List.mem_map.mpr ⟨_, hd, by rw [listed_function_name _ hp]⟩
  · simp only [decodeRef, nameOnly]
    rw [e]; exact current_reference_is_bound cb c m f ver ps attrs none h hm hne hl h1 h2

/-- listings (memory backend: the dictionary keys are the names themselves) -/
theorem listFunctionsMem_never_raises (cb : CodeBase) (keys : List Str) (h : ∀ q ∈ keys, AdmName q) :
    ∃ rs, listFunctionsMem cb keys = .ok rs ∧ rs.length = keys.length := by
  have : ∀ q ∈ keys.map nameOnly, ∃ r, decodeRef cb q = .ok r := by
    intro q hq
    obtain ⟨k, hk, rfl⟩ := List.mem_map.mp hq
    exact admName_resolves cb k none (h k hk)
  obtain ⟨rs, h1, h2, _⟩ := mapAll_ok (decodeRef cb) _ this
  exact ⟨rs, h1, by simpa using h2⟩

example : listFunctionsFs [⟨['m'], [(['f'], .mfn none ['m'] ['f'] ['x', '.', 'l', 'i', 'n', 'k'] [])]⟩]
      [escape (realName none ['m'] ['f'] ['x', '.', 'l', 'i', 'n', 'k']), escape (realName (some ['k']) ['m'] ['g'] ['1'])]
    = .ok [⟨false, ['m', ':', 'f', '#', 'x', '.', 'l', 'i', 'n', 'k'], none, []⟩,
           ⟨true, ['k', ':', ':', 'm', ':', 'g', '#', '1'], some ['k'], []⟩] := by rfl

/-- the one exception that can escape (outside the admissible domain): a module name starting with
    `.` makes `importlib.import_module` raise `TypeError`, which `from_qualified_name` does not catch -/
theorem boundary_relative_module :
    resolve [] ['.', 'x', ':', 'f'] false none = .error .typeError := by rfl

end Memento.QName
