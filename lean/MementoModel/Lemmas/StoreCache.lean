import MementoModel.Lemmas.StoreAbs

/-! What each cache operation leaves resident (membership form), and preservation of `Coherent`. -/
set_option linter.unusedSimpArgs false
set_option linter.unusedVariables false
namespace Memento.Cache

theorem refLookup_mem {r : List (Key × Nat)} {k : Key} {v : Nat} (h : refLookup r k = some v) : (k, v) ∈ r := by
  induction r with
  | nil => simp [refLookup] at h
  | cons p r ih =>
    unfold refLookup at h ih
    rw [List.find?_cons] at h
    by_cases e : p.1 = k
    · have : (p.1 == k) = true := by simpa using e
      rw [this] at h
      simp only [Option.map_some, Option.some.injEq] at h
      subst h; subst e; exact List.mem_cons_self
    · have : (p.1 == k) = false := by simpa using e
      rw [this] at h
      exact List.mem_cons_of_mem _ (ih h)

theorem hasKey_mem {c : List (Key × Entry)} {k : Key} (h : hasKey c k = true) : ∃ e, (k, e) ∈ c := by
  have := (hasKey_iff c k).mp h
  obtain ⟨p, hp, rfl⟩ := List.mem_map.mp this
  exact ⟨p.2, hp⟩

theorem mem_evict_cache {s : State} {k : Key} {p : Key × Entry} (h : p ∈ (evict s k).cache) :
    p ∈ s.cache ∧ p.1 ≠ k := by
  rw [evict_cache] at h
  have := List.mem_filter.mp h
  exact ⟨this.1, by simpa using this.2⟩

theorem makeRoom_cache_sub (size : Nat) : ∀ (n : Nat) (s : State) {p}, p ∈ (makeRoom size n s).cache → p ∈ s.cache := by
  intro n
  induction n with
  | zero => intro s p h; exact h
  | succ n ih =>
    intro s p h
    unfold makeRoom at h
    split at h
    · exact h
    · split at h
      · exact (mem_evict_cache (ih _ h)).1
      · exact h

theorem mem_putCore_cache {s : State} {k : Key} {m v size : Nat} {hr : Bool} {p : Key × Entry}
    (h : p ∈ (putCore s k m v size hr).cache) :
    p = (k, ⟨size, m, v, hr⟩) ∨ (p ∈ s.cache ∧ p.1 ≠ k) := by
  simp only [putCore, touchStamp, List.mem_append, List.mem_singleton] at h
  rcases h with h | h
  · exact Or.inr (mem_evict_cache (makeRoom_cache_sub _ _ _ h))
  · exact Or.inl h

theorem putCore_refs (s : State) (k : Key) (m v size : Nat) (hr : Bool) :
    (putCore s k m v size hr).refs = s.refs := by
  simp only [putCore, touchStamp]
  rw [(makeRoom_stamp size _ _).2.2.1, evict_refs]

theorem mem_putSized_cache {s : State} {k : Key} {m v size : Nat} {w hr : Bool} {p : Key × Entry}
    (h : p ∈ (putSized s k m v size w hr none).cache) :
    p = (k, ⟨size, m, v, hr⟩) ∨ (p ∈ s.cache ∧ p.1 ≠ k) := by
  unfold putSized at h
  split at h
  · exact Or.inr (mem_evict_cache h)
  · exact mem_putCore_cache h

theorem putSized_refs (s : State) (k : Key) (m v size : Nat) (w hr : Bool) :
    (putSized s k m v size w hr none).refs = s.refs := by
  unfold putSized
  split
  · exact evict_refs _ _
  · exact putCore_refs _ _ _ _ _ _

theorem putRef_cache (s : State) (k : Key) (v : Nat) (w : Bool) : (putRef s k v w).cache = s.cache := by
  unfold putRef; split <;> rfl

theorem mem_putRef_refs {s : State} {k : Key} {v : Nat} {w : Bool} {p : Key × Nat}
    (h : p ∈ (putRef s k v w).refs) : p = (k, v) ∨ (p ∈ s.refs ∧ p.1 ≠ k) := by
  unfold putRef at h
  split at h
  · rcases List.mem_cons.mp h with h | h
    · exact Or.inl h
    · have := List.mem_filter.mp h
      exact Or.inr ⟨this.1, by simpa using this.2⟩
  · have := List.mem_filter.mp h
    exact Or.inr ⟨this.1, by simpa using this.2⟩

theorem mem_put_cache {s : State} {k : Key} {m v size : Nat} {w hr : Bool} {p : Key × Entry}
    (h : p ∈ (put s k m v size w hr none).cache) :
    p = (k, ⟨size, m, v, hr⟩) ∨ (p ∈ s.cache ∧ p.1 ≠ k) := by
  unfold put at h
  rcases mem_putSized_cache h with h | h
  · exact Or.inl h
  · refine Or.inr ⟨?_, h.2⟩
    have := h.1
    split at this
    · rwa [putRef_cache] at this
    · exact this

theorem mem_put_refs {s : State} {k : Key} {m v size : Nat} {w hr : Bool} {p : Key × Nat}
    (h : p ∈ (put s k m v size w hr none).refs) :
    (hr = true ∧ p = (k, v)) ∨ (p ∈ s.refs ∧ (hr = true → p.1 ≠ k)) := by
  unfold put at h
  rw [putSized_refs] at h
  cases hr with
  | true =>
    simp only [if_true] at h
    rcases mem_putRef_refs h with h | h
    · exact Or.inl ⟨rfl, h⟩
    · exact Or.inr ⟨h.1, fun _ => h.2⟩
  | false =>
    simp only [Bool.false_eq_true, if_false] at h
    exact Or.inr ⟨h, fun e => by cases e⟩

theorem prune_cache (s : State) : (prune s).cache = s.cache := rfl

theorem mem_prune_refs {s : State} {p : Key × Nat} (h : p ∈ (prune s).refs) : p ∈ s.refs :=
  (List.mem_filter.mp h).1

theorem readResult_cache_refs (s : State) (k : Key) :
    (readResult s k).1.cache = s.cache ∧ (readResult s k).1.refs = s.refs := by
  unfold readResult
  split
  · split <;> exact ⟨rfl, rfl⟩
  · split <;> exact ⟨rfl, rfl⟩

theorem readResult_value {s : State} {k : Key} {v : Nat} (h : (readResult s k).2 = .value v) :
    (∃ e, (k, e) ∈ s.cache ∧ e.hasValue = true ∧ e.val = v) ∨ (k, v) ∈ s.refs := by
  unfold readResult at h
  split at h
  · rename_i e he
    split at h
    · rename_i hv
      simp only [ReadOut.value.injEq] at h
      exact Or.inl ⟨e, lookup_some_mem he, hv, h⟩
    · cases h
  · split at h
    · rename_i v' hv'
      simp only [ReadOut.value.injEq] at h
      subst h
      exact Or.inr (refLookup_mem hv')
    · cases h

theorem isMemoized_cache_refs (s : State) (k : Key) :
    (isMemoized s k).1.cache = s.cache ∧ (isMemoized s k).1.refs = s.refs := by
  unfold isMemoized
  split <;> exact ⟨rfl, rfl⟩

theorem isMemoized_true {s : State} {k : Key} (h : (isMemoized s k).2 = true) :
    (∃ e, (k, e) ∈ s.cache) ∨ (∃ v, (k, v) ∈ s.refs) := by
  unfold isMemoized at h
  split at h
  · rename_i hk; exact Or.inl (hasKey_mem hk)
  · simp only at h
    cases hr : refLookup s.refs k with
    | none => rw [hr] at h; cases h
    | some v => exact Or.inr ⟨v, refLookup_mem hr⟩

theorem mem_forgetCall {s : State} {k : Key} :
    (∀ p ∈ (forgetCall s k).cache, p ∈ s.cache ∧ p.1 ≠ k) ∧
    (∀ p ∈ (forgetCall s k).refs, p ∈ s.refs ∧ p.1 ≠ k) := by
  unfold forgetCall
  refine ⟨fun p hp => mem_evict_cache (s := { s with refs := s.refs.filter (fun p => !(p.1 == k)) }) hp, ?_⟩
  intro p hp
  rw [evict_refs] at hp
  have := List.mem_filter.mp hp
  exact ⟨this.1, by simpa using this.2⟩

theorem foldl_evict_refs (ks : List Key) : ∀ (s : State), (ks.foldl evict s).refs = s.refs := by
  induction ks with
  | nil => intro _; rfl
  | cons k ks ih => intro s; simp only [List.foldl_cons]; rw [ih, evict_refs]

theorem mem_forgetFunction {s : State} {fn : Nat} :
    (∀ p ∈ (forgetFunction s fn).cache, p ∈ s.cache ∧ p.1.fn ≠ fn) ∧
    (∀ p ∈ (forgetFunction s fn).refs, p ∈ s.refs ∧ p.1.fn ≠ fn) := by
  refine ⟨?_, ?_⟩
  · intro p hp
    have : (forgetFunction s fn).cache = (step s (.ffn fn)).1.cache := rfl
    rw [this, step_ffn_cache] at hp
    have := List.mem_filter.mp hp
    exact ⟨this.1, by simpa using this.2⟩
  · intro p hp
    unfold forgetFunction at hp
    rw [foldl_evict_refs] at hp
    have := List.mem_filter.mp hp
    exact ⟨this.1, by simpa using this.2⟩

/-- the invariant after one (pruned) cache step, in the shapes the backend uses -/
theorem prune_stepRaw_inv {s : State} (op : Op) (h : Inv s) : Inv (prune (stepRaw s op).1) :=
  prune_inv (stepRaw_inv op h)

end Memento.Cache

namespace Memento.Store
open Memento
open FsBackend

theorem objId_aux (b gen : Nat) (h : b + 1 < 1000000) :
    b + 1 + 1000000 * gen ≠ 0 ∧ (b + 1 + 1000000 * gen) % 1000000 - 1 = b := by omega

theorem objBytes_objId (val : Option Bytes) (gen : Nat) (h : ∀ b, val = some b → b + 1 < 1000000) :
    objBytes (objId val gen) = val := by
  cases val with
  | none => rfl
  | some b =>
    have := h b rfl
    unfold objBytes objId
    simp only
    rw [if_neg (objId_aux b gen this).1, (objId_aux b gen this).2]

theorem EntryOk.transfer {s s' : FsBackend} {k : Cache.Key} {e : Cache.Entry} (h : EntryOk s k e)
    (hst : storeEntry s'.ds k.fn k.arg = storeEntry s.ds k.fn k.arg)
    (hheap : ∀ mi, alookup s.heap e.mem = some mi → alookup s'.heap e.mem = some mi) : EntryOk s' k e := by
  obtain ⟨ck, vb, h1, h2, h3⟩ := h
  exact ⟨ck, vb, hst.trans h1, hheap _ h2, h3⟩

theorem RefOk.transfer {s s' : FsBackend} {k : Cache.Key} {v : Nat} (h : RefOk s k v)
    (hst : storeEntry s'.ds k.fn k.arg = storeEntry s.ds k.fn k.arg) : RefOk s' k v := by
  obtain ⟨m, ck, h1⟩ := h
  exact ⟨m, ck, hst.trans h1⟩

/-- `Coherent` only looks at the store and the heap -/
theorem Coherent.congr {s s' : FsBackend} {c : Cache.State} (h : Coherent s c)
    (hds : s'.ds = s.ds) (hheap : s'.heap = s.heap) : Coherent s' c :=
  ⟨fun k e hke => (h.entryOk k e hke).transfer (by rw [hds]) (by rw [hheap]; exact fun _ x => x),
   fun k v hkv => (h.refOk k v hkv).transfer (by rw [hds]), h.inv⟩

/-- a cache with fewer entries and references is still coherent -/
theorem Coherent.sub {s : FsBackend} {c c' : Cache.State} (h : Coherent s c) (hinv : Cache.Inv c')
    (hc : ∀ p ∈ c'.cache, p ∈ c.cache) (hr : ∀ p ∈ c'.refs, p ∈ c.refs) : Coherent s c' :=
  ⟨fun k e hke => h.entryOk k e (hc _ hke), fun k v hkv => h.refOk k v (hr _ hkv), hinv⟩

/-- `WF` only looks at the store, the heap, the cache and the read-only flag -/
theorem WF.congr {s s' : FsBackend} (h : WF s) (hds : s'.ds = s.ds) (hheap : s'.heap = s.heap)
    (hro : s'.readOnly = s.readOnly) (hcache : s'.cache = s.cache) : WF s' := by
  refine ⟨hds ▸ h.ds, hro.trans h.writable, ?_, ?_, ?_⟩
  · rw [hds, hheap]; exact h.heapOk
  · rw [hds]; exact h.memUnique
  · intro c hc
    rw [hcache] at hc
    exact (h.cacheOk c hc).congr hds hheap

/-- replacing the cache by a coherent one -/
theorem WF.setCache {s : FsBackend} (h : WF s) {c' : Cache.State} (hc : Coherent s c') :
    WF { s with cache := some c' } := by
  refine ⟨h.ds, h.writable, h.heapOk, h.memUnique, ?_⟩
  intro c e
  cases e
  exact hc.congr rfl rfl

/-- `put` (then pruning) into a cache that is coherent except possibly at the key being written -/
theorem coherent_put (s : FsBackend) (c : Cache.State) (k : Cache.Key) (mem v size : Nat) (wr hr : Bool)
    (hinv : Cache.Inv c)
    (hE : ∀ k' e, (k', e) ∈ c.cache → k' ≠ k → EntryOk s k' e)
    (hR : ∀ k' v', (k', v') ∈ c.refs → (hr = true → k' ≠ k) → RefOk s k' v')
    (hnew : EntryOk s k ⟨size, mem, v, hr⟩)
    (hnewref : hr = true → RefOk s k v) :
    Coherent s (Cache.prune (Cache.put c k mem v size wr hr none)) := by
  refine ⟨?_, ?_, Cache.prune_inv (Cache.put_inv k mem v size wr hr none hinv)⟩
  · intro k' e hke
    rw [Cache.prune_cache] at hke
    rcases Cache.mem_put_cache hke with h | ⟨h1, h2⟩
    · cases h; exact hnew
    · exact hE k' e h1 h2
  · intro k' v' hkv
    rcases Cache.mem_put_refs (Cache.mem_prune_refs hkv) with ⟨h1, h2⟩ | ⟨h1, h2⟩
    · cases h2; exact hnewref h1
    · exact hR k' v' h1 h2

/-! ### the backend's helper functions -/

theorem cachePut_fields (s : FsBackend) (fn arg mem val size wr hr gen) :
    (cachePut s fn arg mem val size wr hr gen).ds = s.ds ∧
    (cachePut s fn arg mem val size wr hr gen).heap = s.heap ∧
    (cachePut s fn arg mem val size wr hr gen).readOnly = s.readOnly := by
  unfold cachePut
  cases s.cache <;> exact ⟨rfl, rfl, rfl⟩

theorem cachePut_wf {s : FsBackend} (h : WF s) (fn arg mem val size wr hr gen)
    (hnew : EntryOk s (ckey fn arg) ⟨size, mem, objId val gen, hr⟩)
    (hnewref : hr = true → RefOk s (ckey fn arg) (objId val gen)) :
    WF (cachePut s fn arg mem val size wr hr gen) := by
  unfold cachePut
  cases hc : s.cache with
  | none => exact h
  | some c =>
    simp only
    apply h.setCache
    have hco := h.cacheOk c hc
    exact coherent_put s c _ _ _ _ _ _ hco.inv (fun k' e hke _ => hco.entryOk k' e hke)
      (fun k' v' hkv _ => hco.refOk k' v' hkv) hnew hnewref

/-- remembering the memento object just read from the store -/
theorem WF.heap_aset {s : FsBackend} (h : WF s) {fn arg m ck} (hr : readMemento s.ds fn arg = some (m, ck)) :
    WF { s with heap := aset s.heap m ⟨fn, arg, ck⟩ } := by
  have hkey : ∀ fn' arg' ck', readMemento s.ds fn' arg' = some (m, ck') → fn' = fn ∧ arg' = arg ∧ ck' = ck := by
    intro fn' arg' ck' hr'
    obtain ⟨rfl, rfl⟩ := h.memUnique _ _ _ _ _ _ _ hr' hr
    rw [hr] at hr'; cases hr'; exact ⟨rfl, rfl, rfl⟩
  refine ⟨h.ds, h.writable, ?_, h.memUnique, ?_⟩
  · intro m' mi hm' fn' arg' ck' hr'
    simp only [alookup_aset] at hm'
    by_cases e : m' = m
    · subst e
      simp only [if_true, Option.some.injEq] at hm'
      subst hm'
      exact hkey fn' arg' ck' hr'
    · rw [if_neg e] at hm'
      exact h.heapOk m' mi hm' fn' arg' ck' hr'
  · intro c hc
    have hco := h.cacheOk c hc
    refine ⟨?_, fun k v hkv => (hco.refOk k v hkv).transfer rfl, hco.inv⟩
    intro k e hke
    obtain ⟨ck', vb, h1, h2, h3⟩ := hco.entryOk k e hke
    refine ⟨ck', vb, h1, ?_, h3⟩
    simp only [alookup_aset]
    by_cases e' : e.mem = m
    · rw [if_pos e']
      have hr' := (storeEntry_eq_some.mp h1).1
      rw [e'] at hr'
      obtain ⟨rfl, rfl, rfl⟩ := hkey _ _ _ hr'
      rfl
    · rw [if_neg e']; exact h2

theorem storeEntry_of_read {d : DS} {fn arg m ck} (hr : readMemento d fn arg = some (m, ck)) :
    storeEntry d fn arg = some (m, ck, (loadResult d ck).getD none) :=
  storeEntry_eq_some.mpr ⟨hr, rfl⟩

theorem fetchMemento_spec {s : FsBackend} (h : WF s) (fn : Fn) (arg : Arg) :
    WF (fetchMemento s fn arg).1 ∧ (fetchMemento s fn arg).1.ds = s.ds ∧
    (fetchMemento s fn arg).2 = (readMemento s.ds fn arg).map (·.1) ∧
    ∀ m, (fetchMemento s fn arg).2 = some m →
      ∃ ck, readMemento s.ds fn arg = some (m, ck) ∧
        alookup (fetchMemento s fn arg).1.heap m = some ⟨fn, arg, ck⟩ := by
  unfold fetchMemento
  cases hr : readMemento s.ds fn arg with
  | none => exact ⟨h, rfl, rfl, fun m hm => by cases hm⟩
  | some p =>
    obtain ⟨m, ck⟩ := p
    simp only
    have h1 := h.heap_aset hr
    obtain ⟨f1, f2, f3⟩ := cachePut_fields { s with heap := aset s.heap m ⟨fn, arg, ck⟩ } fn arg m none 16 false false 0
    refine ⟨?_, f1, rfl, ?_⟩
    · apply cachePut_wf h1
      · exact ⟨ck, _, storeEntry_of_read hr, by simp [alookup_aset, ckey], fun e => by cases e⟩
      · intro e; cases e
    · intro m' hm'
      cases hm'
      exact ⟨ck, rfl, by rw [f2]; simp [alookup_aset]⟩

theorem mergeMementos_spec : ∀ (l : List ((Fn × Arg) × Option Nat)) (s : FsBackend), WF s →
    (∀ x ∈ l, ∀ m, x.2 = some m → ∃ ck, readMemento s.ds x.1.1 x.1.2 = some (m, ck)) →
    WF (mergeMementos s l).1 ∧ (mergeMementos s l).1.ds = s.ds ∧
    (mergeMementos s l).2 = l.map (fun x => (readMemento s.ds x.1.1 x.1.2).map (·.1)) := by
  intro l
  induction l with
  | nil => intro s h _; exact ⟨h, rfl, rfl⟩
  | cons x l ih =>
    intro s h hx
    obtain ⟨⟨fn, arg⟩, cached⟩ := x
    cases cached with
    | some m =>
      obtain ⟨a, b, c⟩ := ih s h (fun y hy => hx y (List.mem_cons_of_mem _ hy))
      obtain ⟨ck, hck⟩ := hx _ List.mem_cons_self m rfl
      simp only [mergeMementos]
      refine ⟨a, b, ?_⟩
      rw [c, List.map_cons]
      simp only at hck
      simp only [hck, Option.map_some]
    | none =>
      obtain ⟨f1, f2, f3, _⟩ := fetchMemento_spec h fn arg
      obtain ⟨a, b, c⟩ := ih (fetchMemento s fn arg).1 f1
        (fun y hy => by rw [f2]; exact hx y (List.mem_cons_of_mem _ hy))
      simp only [mergeMementos]
      refine ⟨a, b.trans f2, ?_⟩
      rw [c, f3, f2, List.map_cons]

theorem cacheLookup_some {s : FsBackend} {fn arg m} (h : cacheLookup s fn arg = some m) :
    ∃ c e, s.cache = some c ∧ (ckey fn arg, e) ∈ c.cache ∧ e.mem = m := by
  unfold cacheLookup at h
  cases hc : s.cache with
  | none => rw [hc] at h; cases h
  | some c =>
    rw [hc] at h
    simp only at h
    cases hl : Cache.lookup c.cache (ckey fn arg) with
    | none => rw [hl] at h; cases h
    | some e =>
      rw [hl] at h
      simp only [Option.map_some, Option.some.injEq] at h
      exact ⟨c, e, rfl, Cache.lookup_some_mem hl, h⟩

theorem getMementos_spec {s : FsBackend} (h : WF s) (ks : List (Fn × Arg)) :
    WF (getMementos s ks).1 ∧ (getMementos s ks).1.ds = s.ds ∧
    (getMementos s ks).2 = ks.map (fun k => (readMemento s.ds k.1 k.2).map (·.1)) := by
  unfold getMementos
  obtain ⟨a, b, c⟩ := mergeMementos_spec (ks.map (fun k => (k, cacheLookup s k.1 k.2))) s h (by
    intro x hx m hm
    obtain ⟨k, _, rfl⟩ := List.mem_map.mp hx
    simp only at hm ⊢
    obtain ⟨c, e, hc, hmem, rfl⟩ := cacheLookup_some hm
    obtain ⟨ck, vb, h1, _, _⟩ := (h.cacheOk c hc).entryOk _ e hmem
    exact ⟨ck, (storeEntry_eq_some.mp h1).1⟩)
  refine ⟨a, b, ?_⟩
  rw [c, List.map_map]
  rfl

theorem getMemento_spec {s : FsBackend} (h : WF s) (fn : Fn) (arg : Arg) :
    WF (getMemento s fn arg).1 ∧ (getMemento s fn arg).1.ds = s.ds ∧
    (getMemento s fn arg).2 = (readMemento s.ds fn arg).map (·.1) ∧
    ∀ m, (getMemento s fn arg).2 = some m →
      ∃ ck, readMemento s.ds fn arg = some (m, ck) ∧
        alookup (getMemento s fn arg).1.heap m = some ⟨fn, arg, ck⟩ := by
  unfold getMemento getMementos
  simp only [List.map_cons, List.map_nil]
  cases hcl : cacheLookup s fn arg with
  | some m =>
    obtain ⟨c, e, hc, hmem, rfl⟩ := cacheLookup_some hcl
    obtain ⟨ck, vb, h1, h2, _⟩ := (h.cacheOk c hc).entryOk _ e hmem
    have hr := (storeEntry_eq_some.mp h1).1
    simp only [mergeMementos]
    simp only [ckey] at hr h2
    refine ⟨h, trivial, by rw [hr]; rfl, ?_⟩
    intro m' hm'
    cases hm'
    exact ⟨ck, hr, h2⟩
  | none =>
    obtain ⟨f1, f2, f3, f4⟩ := fetchMemento_spec h fn arg
    simp only [mergeMementos]
    exact ⟨f1, f2, f3, f4⟩

theorem existsNV_memento {d : DS} (h : DSWF d) (fn : Fn) (arg : Arg) :
    d.existsNV (.memento fn arg) = (readMemento d fn arg).isSome := by
  unfold DS.existsNV
  cases hl : alookup d.links (.memento fn arg) with
  | none => rw [readMemento_none_of_link hl]; rfl
  | some v =>
    obtain ⟨m, ck, ho, _⟩ := h.mementoOk fn arg v hl
    have := (readMemento_eq d fn arg m ck).mpr ⟨v, hl, ho⟩
    simp only [ho, this]; rfl

theorem DSWF.load_small {d : DS} (h : DSWF d) {ck} {val : Option Bytes} (hl : loadResult d ck = some val) :
    ∀ b, val = some b → b + 1 < 1000000 := by
  intro b hb
  subst hb
  unfold loadResult at hl
  cases ck with
  | none => cases hl
  | some kv =>
    obtain ⟨k, v⟩ := kv
    simp only [DS.inputV] at hl
    cases ho : alookup d.objs (k, v) with
    | none => rw [ho] at hl; cases hl
    | some c =>
      rw [ho] at hl
      cases c with
      | blob b' =>
        simp only [Option.some.injEq] at hl
        subst hl
        exact h.blobSmall _ _ ho
      | _ => cases hl

/-- `read_result` of the memento of call `(fn, arg)` -/
theorem readResult_spec {s : FsBackend} (h : WF s) {fn arg m ck} (size : Nat) (wr : Bool)
    (hheap : alookup s.heap m = some ⟨fn, arg, ck⟩) (hr : readMemento s.ds fn arg = some (m, ck)) :
    WF (readResult s m size wr).1 ∧ (readResult s m size wr).1.ds = s.ds ∧
    (readResult s m size wr).2 = loadResult s.ds ck ∧ (loadResult s.ds ck).isSome := by
  obtain ⟨val, hval⟩ := loadResult_of_ckOk (DSWF.ckOk_of_read h.ds hr)
  have hsmall := h.ds.load_small hval
  have hst : storeEntry s.ds fn arg = some (m, ck, val) := by
    rw [storeEntry_of_read hr, hval]; rfl
  -- the store path
  have hfrom : ∀ gen,
      WF { cachePut s fn arg m val size wr true gen with nextObj := s.nextObj + 1 } := by
    intro gen
    have hid := objBytes_objId val gen hsmall
    have : WF (cachePut s fn arg m val size wr true gen) := by
      apply cachePut_wf h
      · exact ⟨ck, val, hst, hheap, fun _ => hid⟩
      · intro _; exact ⟨m, ck, by rw [hid]; exact hst⟩
    exact this.congr rfl rfl rfl rfl
  unfold readResult
  rw [hheap]
  simp only [hval]
  cases hc : s.cache with
  | none =>
    simp only
    exact ⟨hfrom _, (cachePut_fields s fn arg m val size wr true s.nextObj).1, (by first | trivial | rfl), (by first | trivial | rfl)⟩
  | some c =>
    simp only
    have hco := h.cacheOk c hc
    cases hrr : Cache.readResult c (ckey fn arg) with
    | mk c' out =>
      cases out with
      | keyError =>
        simp only
        exact ⟨hfrom _, (cachePut_fields s fn arg m val size wr true s.nextObj).1, (by first | trivial | rfl), (by first | trivial | rfl)⟩
      | value v =>
        simp only
        have hcr := Cache.readResult_cache_refs c (ckey fn arg)
        rw [hrr] at hcr
        have hv : objBytes v = val := by
          have := Cache.readResult_value (s := c) (k := ckey fn arg) (v := v) (by rw [hrr])
          rcases this with ⟨e, he, hhv, rfl⟩ | hrf
          · obtain ⟨ck', vb, h1, _, h3⟩ := hco.entryOk _ e he
            simp only [ckey] at h1
            rw [hst] at h1; cases h1
            exact h3 hhv
          · obtain ⟨m', ck', h1⟩ := hco.refOk _ v hrf
            simp only [ckey] at h1
            rw [hst] at h1; cases h1; rfl
        refine ⟨?_, (by first | trivial | rfl), by rw [hv], (by first | trivial | rfl)⟩
        apply h.setCache
        apply hco.sub
        · have := Cache.prune_stepRaw_inv (.read (ckey fn arg)) hco.inv
          simp only [Cache.stepRaw, hrr] at this
          exact this
        · intro p hp; rw [Cache.prune_cache, hcr.1] at hp; exact hp
        · intro p hp; have := Cache.mem_prune_refs hp; rw [hcr.2] at this; exact this

theorem isMemoized_spec {s : FsBackend} (h : WF s) (fn : Fn) (arg : Arg) :
    WF (isMemoized s fn arg).1 ∧ (isMemoized s fn arg).1.ds = s.ds ∧
    (isMemoized s fn arg).2 = (readMemento s.ds fn arg).isSome := by
  unfold isMemoized
  cases hc : s.cache with
  | none => exact ⟨h, rfl, existsNV_memento h.ds fn arg⟩
  | some c =>
    simp only
    have hco := h.cacheOk c hc
    cases hrr : Cache.isMemoized c (ckey fn arg) with
    | mk c' b =>
      cases b with
      | false => exact ⟨h, rfl, existsNV_memento h.ds fn arg⟩
      | true =>
        simp only
        have hcr := Cache.isMemoized_cache_refs c (ckey fn arg)
        rw [hrr] at hcr
        refine ⟨?_, (by first | trivial | rfl), ?_⟩
        · apply h.setCache
          apply hco.sub
          · have := Cache.prune_stepRaw_inv (.ismem (ckey fn arg)) hco.inv
            simp only [Cache.stepRaw, hrr] at this
            exact this
          · intro p hp; rw [Cache.prune_cache, hcr.1] at hp; exact hp
          · intro p hp; have := Cache.mem_prune_refs hp; rw [hcr.2] at this; exact this
        · have := Cache.isMemoized_true (s := c) (k := ckey fn arg) (by rw [hrr])
          rcases this with ⟨e, he⟩ | ⟨v, hv⟩
          · obtain ⟨ck', vb, h1, _, _⟩ := hco.entryOk _ e he
            have := (storeEntry_eq_some.mp h1).1
            simp only [ckey] at this
            rw [this]; rfl
          · obtain ⟨m', ck', h1⟩ := hco.refOk _ v hv
            have := (storeEntry_eq_some.mp h1).1
            simp only [ckey] at this
            rw [this]; rfl

/-- cache-only steps that leave fewer (or the same) entries and references -/
theorem mapCache_wf {s : FsBackend} (h : WF s) (f : Cache.State → Cache.State)
    (hf : ∀ c, Cache.Inv c → Cache.Inv (Cache.prune (f c)) ∧ (∀ p ∈ (f c).cache, p ∈ c.cache) ∧
      (∀ p ∈ (f c).refs, p ∈ c.refs)) :
    WF (mapCache s f) ∧ (mapCache s f).ds = s.ds := by
  refine ⟨?_, rfl⟩
  unfold mapCache
  cases hc : s.cache with
  | none => exact h.congr rfl rfl rfl (by simp [hc])
  | some c =>
    have hco := h.cacheOk c hc
    obtain ⟨a, b, d⟩ := hf c hco.inv
    exact h.setCache (hco.sub a b (fun p hp => d p (Cache.mem_prune_refs hp)))

/-- a forget: the cache drops (at least) everything in scope, then the store deletes the scope -/
theorem forget_wf {s : FsBackend} (h : WF s) (sel : K → Bool) (f : Cache.State → Cache.State)
    (h1 : ∀ fn arg mk wd, sel (.memento fn arg) = true → sel (.mdat fn arg mk wd) = true)
    (h2 : (∀ k, sel k = true → k.isMetaArea = true) ∨ (∀ k, sel k = true))
    (hf : ∀ c, Cache.Inv c → Cache.Inv (Cache.prune (f c)) ∧
      (∀ p ∈ (f c).cache, p ∈ c.cache ∧ sel (.memento p.1.fn p.1.arg) = false) ∧
      (∀ p ∈ (f c).refs, p ∈ c.refs ∧ sel (.memento p.1.fn p.1.arg) = false)) :
    WF { mapCache s f with ds := (mapCache s f).ds.deleteWhere sel } := by
  have hread := readMemento_deleteWhere s.ds sel
  have hrd : ∀ {fn arg p}, readMemento (s.ds.deleteWhere sel) fn arg = some p →
      readMemento s.ds fn arg = some p := by
    intro fn arg p hp
    rw [hread] at hp
    split at hp
    · cases hp
    · exact hp
  refine ⟨h.ds.deleteWhere sel h1 h2, h.writable, ?_, ?_, ?_⟩
  · intro m mi hm fn arg ck hr
    exact h.heapOk m mi hm fn arg ck (hrd hr)
  · intro fn arg fn' arg' m ck ck' hr hr'
    exact h.memUnique fn arg fn' arg' m ck ck' (hrd hr) (hrd hr')
  · intro c' hc'
    simp only [mapCache] at hc'
    cases hc : s.cache with
    | none => rw [hc] at hc'; cases hc'
    | some c =>
      rw [hc] at hc'
      simp only [Option.map_some, Option.some.injEq] at hc'
      subst hc'
      have hco := h.cacheOk c hc
      obtain ⟨a, b, d⟩ := hf c hco.inv
      refine ⟨?_, ?_, a⟩
      · intro k e hke
        obtain ⟨b1, b2⟩ := b _ hke
        refine (hco.entryOk k e b1).transfer ?_ (fun _ x => x)
        show storeEntry (s.ds.deleteWhere sel) k.fn k.arg = _
        rw [storeEntry_deleteWhere h.ds sel h2, b2]; rfl
      · intro k v hkv
        obtain ⟨d1, d2⟩ := d _ (Cache.mem_prune_refs hkv)
        refine (hco.refOk k v d1).transfer ?_
        show storeEntry (s.ds.deleteWhere sel) k.fn k.arg = _
        rw [storeEntry_deleteWhere h.ds sel h2, d2]; rfl

end Memento.Store
