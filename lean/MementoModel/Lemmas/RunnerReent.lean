import MementoModel.Lemmas.RunnerSim

/-!
  No re-entrance: for a well-behaved program without prevented nested calls, on a sound store, a
  terminating call never enters the body of its own key a second time while that body is running.

  Argument: every body the memoized run executes is also executed by the un-memoized run, one fuel
  level lower than the un-memoized run of the enclosing body. A re-entrance of `k` inside `k` would
  therefore give, for every fuel `m` at which the un-memoized execution of `k` terminates, a smaller
  such fuel: infinite descent. Core-only.
-/
namespace Memento.Runner

/-- the un-memoized execution of the body of `k` terminates at fuel `m` -/
def TermAt (P : Prog) (m : Nat) (k : Key) : Prop :=
  ∃ sd, Dis sd ∧ (E P m (P.body k.fn k.arg) sd (fr0 k false)).isSome = true

def TermBelow (P : Prog) (m : Nat) (k : Key) : Prop := ∃ m', m' < m ∧ TermAt P m' k

theorem TermBelow.mono {P : Prog} {m m' : Nat} {k : Key} (h : m ≤ m') (hk : TermBelow P m k) : TermBelow P m' k := by
  obtain ⟨a, ha, hk⟩ := hk
  exact ⟨a, Nat.lt_of_lt_of_le ha h, hk⟩

theorem PRun.det {P : Prog} {c : Option Frame} {fn : Fn} {args : List Val} {ctx : CtxSpec} {fl : Flags}
    {res res' : Except Outcome (List Outcome)} {recs recs' : List Rec} {m : Nat} {sd sd' : St}
    (h : PRun P c fn args ctx fl res recs) (hd : Dis sd)
    (e : run P m sd c fn args ctx fl = some (sd', res', recs')) : res' = res ∧ recs' = recs := by
  obtain ⟨m1, h1⟩ := h
  obtain ⟨sd1, _, e1⟩ := h1 sd hd
  have a := run_le P (Nat.le_max_left m1 m) e1
  have b := run_le P (Nat.le_max_right m1 m) e
  rw [a] at b; cases b; exact ⟨rfl, rfl⟩

/-- uniform inversion of a `.call` step -/
theorem execBody_call_inv' {callee} {fn : Fn} {arg : Val} {ctx : CtxSpec} {fl : Flags} {k : Outcome → Body}
    {s : St} {fr : Frame} {x : St × Outcome × Frame}
    (h : execBody callee (.call fn arg ctx fl k) s fr = some x) :
    ∃ s1 res recs o1, callee s fr fn [arg] ctx fl = some (s1, res, recs) ∧ (res = .error o1 ∨ res = .ok [o1]) ∧
      execBody callee (k o1) s1 (recs.foldl propagate fr) = some x := by
  obtain ⟨s1, recs, ⟨e, hc, hx⟩ | ⟨o, hc, hx⟩⟩ := execBody_call_inv h
  · exact ⟨s1, _, recs, e, hc, .inl rfl, hx⟩
  · exact ⟨s1, _, recs, o, hc, .inr rfl, hx⟩

theorem ResSim.out {res res' : Except Outcome (List Outcome)} {o o' : Outcome} (h : ResSim res res')
    (h1 : res = .error o ∨ res = .ok [o]) (h2 : res' = .error o' ∨ res' = .ok [o']) : Outcome.sim o o' := by
  rcases h1 with rfl | rfl <;> rcases h2 with rfl | rfl
  · exact h
  · exact h.elim
  · exact h.elim
  · exact h.1

theorem trace_split {s s2 s1 : St} {t1 t2 t : List Key} (h1 : s2.trace = s.trace ++ t1) (h2 : s1.trace = s2.trace ++ t2)
    (h : s1.trace = s.trace ++ t) : t = t1 ++ t2 := by
  rw [h2, h1, List.append_assoc] at h
  exact (List.append_cancel_left h).symm

def TBRunAt (P : Prog) (n : Nat) : Prop :=
  ∀ s s' caller caller' fn args ctx fl res recs, Sound P s → CSim caller caller' → fl.prevent = false →
    run P n s caller fn args ctx fl = some (s', res, recs) →
    ∀ m sd sd' res' recs', Dis sd → run P m sd caller' fn args ctx fl = some (sd', res', recs') →
      ∀ t, s'.trace = s.trace ++ t → ∀ k ∈ t, TermBelow P m k

theorem tb_exec {P : Prog} {n : Nat} (HS : RunSimAt P n) (H : TBRunAt P n) {b b' : Body} (hb : BSim b b') :
    NoPreventB b → ∀ s fr fr' s1 o fr1, Sound P s → FSim fr fr' → E P n b s fr = some (s1, o, fr1) →
      ∀ m sd sd' o' fr1', Dis sd → E P m b' sd fr' = some (sd', o', fr1') →
        ∀ t, s1.trace = s.trace ++ t → ∀ k ∈ t, TermBelow P m k := by
  induction hb with
  | ret ho =>
    intro _ s fr fr' s1 o fr1 hs hf h m sd sd' o' fr1' hd hp t ht k hk
    simp only [E, execBody] at h
    cases h
    have : t = [] := by simpa using ht
    rw [this] at hk; cases hk
  | resource hb ih =>
    intro hnp s fr fr' s1 o fr1 hs hf h m sd sd' o' fr1' hd hp t ht k hk
    cases hnp with
    | resource hnp =>
      simp only [E, execBody] at h hp
      exact ih hnp s _ _ s1 o fr1 hs (fsim_resource hf _) h m sd sd' o' fr1' hd hp t ht k hk
  | call hk ih =>
    intro hnp s fr fr' s1 o fr1 hs hf h m sd sd' o' fr1' hd hp t ht k hkt
    cases hnp with
    | call hfl hnk =>
      obtain ⟨s2, res, recs, o1, hc1, hres1, h2⟩ := execBody_call_inv' h
      obtain ⟨sd2, res'', recs'', o1'', hc2, hres2, hp2⟩ := execBody_call_inv' hp
      have hcs : CSim (some fr) (some fr') := hf
      obtain ⟨hs2, res', recs', hpr, hres, hrecs⟩ := HS _ _ _ (some fr') _ _ _ _ _ _ hs hcs hfl hc1
      obtain ⟨rfl, rfl⟩ := hpr.det hd hc2
      have ho1 : Outcome.sim o1 o1'' := hres.out hres1 hres2
      have hd2 : Dis sd2 := (run_ext P m hc2).enabled.trans hd
      obtain ⟨t1, ht1, _⟩ := (run_ext P n hc1).frame
      obtain ⟨t2, ht2, _⟩ := (E_ext P n _ _ _ _ _ _ h2).frame
      rw [trace_split ht1 ht2 ht] at hkt
      rcases List.mem_append.1 hkt with hk1 | hk2
      · exact H _ _ _ (some fr') _ _ _ _ _ _ hs hcs hfl hc1 m sd sd2 _ _ hd hc2 t1 ht1 k hk1
      · exact ih o1 o1'' ho1 (hnk o1) s2 _ _ s1 o fr1 hs2 (fsim_foldl _ _ _ _ hrecs hf) h2 m sd2 sd' o' fr1' hd2 hp2
          t2 ht2 k hk2
  | batch hk ih =>
    intro hnp s fr fr' s1 o fr1 hs hf h m sd sd' o' fr1' hd hp t ht k hkt
    cases hnp with
    | batch hfl hnk =>
      obtain ⟨s2, r, recs, hc1, h2⟩ := execBody_batch_inv h
      obtain ⟨sd2, r'', recs'', hc2, hp2⟩ := execBody_batch_inv hp
      have hcs : CSim (some fr) (some fr') := hf
      obtain ⟨hs2, res', recs', hpr, hres, hrecs⟩ := HS _ _ _ (some fr') _ _ _ _ _ _ hs hcs hfl hc1
      obtain ⟨rfl, rfl⟩ := hpr.det hd hc2
      have hd2 : Dis sd2 := (run_ext P m hc2).enabled.trans hd
      obtain ⟨t1, ht1, _⟩ := (run_ext P n hc1).frame
      obtain ⟨t2, ht2, _⟩ := (E_ext P n _ _ _ _ _ _ h2).frame
      rw [trace_split ht1 ht2 ht] at hkt
      rcases List.mem_append.1 hkt with hk1 | hk2
      · exact H _ _ _ (some fr') _ _ _ _ _ _ hs hcs hfl hc1 m sd sd2 _ _ hd hc2 t1 ht1 k hk1
      · exact ih r r'' hres (hnk r) s2 _ _ s1 o fr1 hs2 (fsim_foldl _ _ _ _ hrecs hf) h2 m sd2 sd' o' fr1' hd2 hp2
          t2 ht2 k hk2

theorem tb_local {P : Prog} (hw : WellBehaved P) (hnp : NoPrevent P) {n : Nat} (HS : RunSimAt P n) (H : TBRunAt P n)
    {s s1 : St} {key : Key} {fl : Flags} {o : Outcome} {r : Rec} (hs : Sound P s) (hfl : fl.prevent = false)
    (h : runLocal P (E P n) s key fl = some (s1, o, r))
    {m : Nat} {sd sd' : St} {o' : Outcome} {r' : Rec} (hd : Dis sd)
    (hp : runLocal P (E P m) sd key fl = some (sd', o', r')) :
    ∀ t, s1.trace = s.trace ++ t → ∀ k ∈ t, TermBelow P (m + 1) k := by
  intro t ht k hk
  cases hg : s.get key with
  | some r0 =>
    rw [runLocal_hit hg] at h; cases h
    have : t = [] := by simpa using ht
    rw [this] at hk; cases hk
  | none =>
    obtain ⟨s2, ob, fr1, hx, hr, ho, hst⟩ := runLocal_miss_inv hg h
    obtain ⟨sd2, ob', fr1', hx', _, _, _⟩ := runLocal_miss_inv (St.get_disabled hd key) hp
    rw [hfl] at hx hx'
    have hd0 : Dis { sd with trace := sd.trace ++ [key] } := hd
    obtain ⟨t', ht', _⟩ := (E_ext P n _ _ _ _ _ _ hx).frame
    have ht2 : s1.trace = s.trace ++ (key :: t') := by
      rw [hst, storeAfter_trace, ht']; simp
    have : t = key :: t' := List.append_cancel_left (ht.symm.trans ht2)
    rw [this] at hk
    rcases List.mem_cons.1 hk with rfl | hk
    · exact ⟨m, Nat.lt_succ_self m, _, hd0, by rw [hx']; rfl⟩
    · exact TermBelow.mono (Nat.le_succ m)
        (tb_exec HS H (hw key.fn key.arg) (hnp key.fn key.arg) _ _ _ _ _ _ (hs.setTrace _) (FSim.refl _) hx
          m _ _ _ _ hd0 hx' t' ht' k hk)

theorem tb_loop {P : Prog} (hw : WellBehaved P) (hnp : NoPrevent P) {n : Nat} (HS : RunSimAt P n) (H : TBRunAt P n)
    {fl : Flags} (hfl : fl.prevent = false) {m : Nat} :
    ∀ (pre : List (Key × Option Rec)) {s s' : St} {os : List Outcome} {rs : List Rec}, Sound P s →
      batchLoop P (E P n) fl s pre = some (s', os, rs) →
      ∀ {sd sd' : St} {os' : List Outcome} {rs' : List Rec}, Dis sd →
        batchLoop P (E P m) fl sd ((pre.map (·.1)).map (fun k => (k, none))) = some (sd', os', rs') →
        ∀ t, s'.trace = s.trace ++ t → ∀ k ∈ t, TermBelow P (m + 1) k
  | [], s, s', os, rs, _, h, sd, sd', os', rs', _, _, t, ht, k, hk => by
    simp only [batchLoop] at h; cases h
    have : t = [] := by simpa using ht
    rw [this] at hk; cases hk
  | (key, p) :: rest, s, s', os, rs, hs, h, sd, sd', os', rs', hd, hp, t, ht, k, hk => by
    obtain ⟨s1, o, r, os1, rs1, _, _, hb, hc⟩ := batchLoop_cons_inv h
    simp only [List.map_cons] at hp
    obtain ⟨sd1, o1', r1', os1', rs1', _, _, hb', hc'⟩ := batchLoop_cons_inv hp
    rcases hc' with ⟨hcontra, _, _⟩ | ⟨_, hl'⟩
    · cases hcontra
    have hd1 : Dis sd1 := (runLocal_ext (E_ext P m) hl').1.enabled.trans hd
    rcases hc with ⟨_, e', _⟩ | ⟨_, hl⟩
    · subst e'
      exact tb_loop hw hnp HS H hfl rest hs hb hd1 hb' t ht k hk
    · obtain ⟨t1, ht1, _⟩ := (runLocal_ext (E_ext P n) hl).1.frame
      obtain ⟨t2, ht2, _⟩ := (batchLoop_ext (E_ext P n) _ hb).frame
      rw [trace_split ht1 ht2 ht] at hk
      rcases List.mem_append.1 hk with hk1 | hk2
      · exact tb_local hw hnp HS H hs hfl hl hd hl' t1 ht1 k hk1
      · exact tb_loop hw hnp HS H hfl rest (sim_local hw hnp HS hs hfl hl).1 hb hd1 hb' t2 ht2 k hk2

theorem tb_run {P : Prog} (hw : WellBehaved P) (hnp : NoPrevent P) : ∀ n, TBRunAt P n
  | 0 => by
    intro s s' caller caller' fn args ctx fl res recs _ _ _ h
    rw [run_zero] at h; cases h
  | n + 1 => by
    intro s s' caller caller' fn args ctx fl res recs hs hc hfl h m sd sd' res' recs' hd hp t ht k hk
    have hnil : s' = s → TermBelow P m k := by
      intro e
      rw [e] at ht
      have : t = [] := by simpa using ht
      rw [this] at hk; cases hk
    rw [run_succ, runBatchWith_eq] at h
    split at h
    · cases h; exact hnil rfl
    · rename_i hu
      split at h
      · cases h; exact hnil rfl
      · rename_i hpv
        split at h
        · cases h
        · rename_i s2 os rs hb
          cases h
          cases m with
          | zero => rw [run_zero] at hp; cases hp
          | succ m =>
            rw [run_succ, runBatchWith_eq, ← hc.undeclared, ← hc.prevented, if_neg hu, if_neg hpv,
              preDis hd (fun a => (⟨fn, a, effCtx caller' ctx⟩ : Key)), ← hc.effCtx] at hp
            split at hp
            · cases hp
            · rename_i sd2 os' rs' hb'
              refine tb_loop hw hnp (sim_run hw hnp n) (tb_run hw hnp n) hfl _ hs hb
                (sd' := sd2) (os' := os') (rs' := rs') hd ?_ t ht k hk
              simp only [List.map_map, Function.comp_def] at hb' ⊢
              exact hb'

/-- **no re-entrance**: while the body of `key` runs (from a sound store that does not hold `key`),
    the body of `key` is not entered again -/
theorem not_reentrant_local {P : Prog} (hw : WellBehaved P) (hnp : NoPrevent P) {n : Nat} {s s1 : St} {key : Key}
    {fl : Flags} {o : Outcome} {r : Rec} (hs : Sound P s) (hfl : fl.prevent = false) (hg : s.get key = none)
    (h : runLocal P (E P n) s key fl = some (s1, o, r)) :
    ∀ rest, s1.trace = s.trace ++ key :: rest → key ∉ rest := by
  intro rest ht hmem
  obtain ⟨s2, ob, fr1, hx, _, _, hst⟩ := runLocal_miss_inv hg h
  rw [hfl] at hx
  obtain ⟨t', ht', _⟩ := (E_ext P n _ _ _ _ _ _ hx).frame
  have ht2 : s1.trace = s.trace ++ (key :: t') := by
    rw [hst, storeAfter_trace, ht']; simp
  have hrest : key :: rest = key :: t' := List.append_cancel_left (ht.symm.trans ht2)
  have hrest' : rest = t' := (List.cons.inj hrest).2
  rw [hrest'] at hmem
  -- every fuel at which the un-memoized execution of `key` terminates has a smaller one
  have step : ∀ m, TermAt P m key → TermBelow P m key := by
    intro m ⟨sd, hd, hsome⟩
    cases hp : E P m (P.body key.fn key.arg) sd (fr0 key false) with
    | none => rw [hp] at hsome; cases hsome
    | some x =>
      obtain ⟨sd', o', fr1'⟩ := x
      exact tb_exec (sim_run hw hnp n) (tb_run hw hnp n) (hw key.fn key.arg) (hnp key.fn key.arg) _ _ _ _ _ _
        (hs.setTrace _) (FSim.refl _) hx m sd sd' o' fr1' hd hp t' ht' key hmem
  have descent : ∀ m, TermAt P m key → False := by
    intro m
    induction m using Nat.strongRecOn with
    | _ m ih =>
      intro hm
      obtain ⟨m', hlt, hm'⟩ := step m hm
      exact ih m' hlt hm'
  -- and it does terminate at some fuel
  obtain ⟨_, ob', fr1', ⟨m, hm⟩, _, _⟩ :=
    sim_exec (sim_run hw hnp n) (hw key.fn key.arg) (hnp key.fn key.arg) _ _ _ _ _ _ (hs.setTrace _) (FSim.refl _) hx
  obtain ⟨sd', _, e⟩ := hm emp rfl
  exact descent m ⟨emp, rfl, by rw [e]; rfl⟩

/-- top-level form -/
theorem not_reentrant_top {P : Prog} (hw : WellBehaved P) (hnp : NoPrevent P) {n : Nat} {s s' : St} {fn : Fn} {arg : Val}
    {ctx : CtxSpec} {fl : Flags} {o : Outcome} (hs : Sound P s) (hfl : fl.prevent = false)
    (h : callTop P n s fn arg ctx fl = some (s', o)) :
    ∀ rest, s'.trace = s.trace ++ (⟨fn, arg, effCtx none ctx⟩ :: rest) → (⟨fn, arg, effCtx none ctx⟩ : Key) ∉ rest := by
  cases n with
  | zero => rw [callTop_zero] at h; cases h
  | succ n =>
    rw [callTop_succ] at h
    split at h
    · cases h
      intro rest ht
      have := congrArg List.length ht
      simp at this
    · rename_i hg
      split at h
      · cases h
      · rename_i s1 o1 r hl
        cases h
        exact not_reentrant_local hw hnp hs hfl hg hl

end Memento.Runner
