import MementoModel.Model.Store
import MementoModel.Lemmas.CacheLemmas

/-! Invariants of the storage models (definitions only; lemmas in `StoreLemmas.lean`). -/
namespace Memento.Store
open Memento

/-- invariant of the memory backend -/
structure MemInv (s : MemBackend) : Prop where
  nodup     : (s.mementos.map (·.1)).Nodup
  hasResult : ∀ p ∈ s.mementos, (alookup s.result p.1).isSome
  writable  : s.readOnly = false

/-- what the store says about a call: its memento id, content key and value bytes -/
def FsBackend.storeEntry (d : DS) (fn : Fn) (arg : Arg) : Option (Nat × Option (K × Ver) × Option Bytes) :=
  match FsBackend.readMemento d fn arg with
  | some (m, ck) => some (m, ck, (FsBackend.loadResult d ck).getD none)
  | none => none

/-- a content key is either absent (the null result) or names a stored blob in the data area -/
def CkOk (d : DS) (ck : Option (K × Ver)) : Prop :=
  ck = none ∨ ∃ k ver b, ck = some (k, ver) ∧ k.isMetaArea = false ∧
    alookup d.objs (k, ver) = some (.blob b)

/-- well-formedness of the object store as the backend uses it -/
structure DSWF (d : DS) : Prop where
  objFresh   : ∀ p ∈ d.objs, p.1.2 < d.next
  linkFresh  : ∀ p ∈ d.links, p.2 < d.next
  objNodup   : (d.objs.map (·.1)).Nodup
  linkNodup  : (d.links.map (·.1)).Nodup
  /-- every memento link names a memento document whose content key names a stored blob
      in the data area (or is absent: the null result) -/
  mementoOk  : ∀ fn arg v, alookup d.links (.memento fn arg) = some v →
      ∃ m ck, alookup d.objs (.memento fn arg, v) = some (.mrec m ck) ∧ CkOk d ck
  metaOk     : ∀ fn arg k v, alookup d.links (.mdat fn arg k false) = some v →
      ∃ b, alookup d.objs (.mdat fn arg k false, v) = some (.raw b)
  /-- custom metadata is attached to memoized calls only (this is what `wmeta`-admissibility
      maintains; `list_functions` lists the directories of the metadata area) -/
  metaHasMemento : ∀ fn arg k wd v, alookup d.links (.mdat fn arg k wd) = some v →
      (alookup d.links (.memento fn arg)).isSome
  /-- content-addressed objects: bytes determine the key (C07) -/
  contentOk  : ∀ h v c, alookup d.objs (.content h, v) = some c → c = .blob h
  /-- a content key has an object iff it has a link naming it: at most one object per key (C07) -/
  contentLinked : ∀ h v, (alookup d.objs (.content h, v)).isSome → alookup d.links (.content h) = some v
  /-- byte-string identities stay inside the range that the object-identity encoding
      `FsBackend.objId` / `FsBackend.objBytes` of the cache model can represent -/
  blobSmall  : ∀ kv b, alookup d.objs kv = some (.blob b) → b + 1 < 1000000

/-- a resident cache entry for call `k` says what the store says about `k` -/
def EntryOk (s : FsBackend) (k : Cache.Key) (e : Cache.Entry) : Prop :=
  ∃ ck vb, FsBackend.storeEntry s.ds k.fn k.arg = some (e.mem, ck, vb) ∧
    alookup s.heap e.mem = some ⟨k.fn, k.arg, ck⟩ ∧
    (e.hasValue = true → FsBackend.objBytes e.val = vb)

/-- a weak reference for call `k` points at an object with the bytes the store holds for `k` -/
def RefOk (s : FsBackend) (k : Cache.Key) (v : Nat) : Prop :=
  ∃ m ck, FsBackend.storeEntry s.ds k.fn k.arg = some (m, ck, FsBackend.objBytes v)

/-- the cache only ever says what the store says -/
structure Coherent (s : FsBackend) (c : Cache.State) : Prop where
  entryOk : ∀ k e, (k, e) ∈ c.cache → EntryOk s k e
  refOk : ∀ k v, (k, v) ∈ c.refs → RefOk s k v
  inv : Cache.Inv c

structure WF (s : FsBackend) : Prop where
  ds       : DSWF s.ds
  writable : s.readOnly = false
  /-- a memento id names one call: memento objects known to the process agree with the store -/
  heapOk   : ∀ m mi, alookup s.heap m = some mi →
      ∀ fn arg ck, FsBackend.readMemento s.ds fn arg = some (m, ck) → fn = mi.fn ∧ arg = mi.arg ∧ ck = mi.ck
  memUnique : ∀ fn arg fn' arg' m ck ck', FsBackend.readMemento s.ds fn arg = some (m, ck) →
      FsBackend.readMemento s.ds fn' arg' = some (m, ck') → fn = fn' ∧ arg = arg'
  cacheOk  : ∀ c, s.cache = some c → Coherent s c

/-- histories the property quantifies over: every `memoize` carries a new memento object, and
    custom metadata is attached to memoized calls only.
    Third conjunct for `memoize`: the identity of the value's byte string is below `999999` — the
    cache model encodes the identity of a result object as `bytes id + 1 + 10^6 * generation`
    (`FsBackend.objId`) and decodes it with `% 10^6` (`FsBackend.objBytes`), which is only
    injective in that range.  It is a bound on the *naming* of byte strings in a history (any
    history with fewer than 999999 distinct values can be named so), not on the backend. -/
def FsBackend.admissible (s : FsBackend) : Op → Prop
  | .memoize _ _ _ mem val _ _ => alookup s.heap mem = none ∧
      (∀ fn arg m ck, FsBackend.readMemento s.ds fn arg = some (m, ck) → m ≠ mem) ∧
      (∀ b, val = some b → b + 1 < 1000000)
  | .wmeta fn arg _ _ => (FsBackend.readMemento s.ds fn arg).isSome
  | _ => True

def MemBackend.admissible (s : MemBackend) : Op → Prop
  | .wmeta fn arg _ _ => (alookup s.mementos (fn, arg)).isSome
  | _ => True

end Memento.Store
