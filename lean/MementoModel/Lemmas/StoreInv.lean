import MementoModel.Model.Store
import MementoModel.Lemmas.CacheLemmas

/-! Invariants of the storage models (definitions only; lemmas in `StoreLemmas.lean`). -/
namespace Memento.Store
open Memento

/-- invariant of the memory backend -/
structure MemInv (s : MemBackend) : Prop where
  nodup     : (s.mementos.map (·.1)).Nodup
  hasResult : ∀ p ∈ s.mementos, (alookup s.result p.1).isSome
  writable  : s.readOnly = false

/-- what the store says about a call: its memento id, content key and value bytes -/
def FsBackend.storeEntry (d : DS) (fn : Fn) (arg : Arg) : Option (Nat × Option (K × Ver) × Option Bytes) :=
  match FsBackend.readMemento d fn arg with
  | some (m, ck) => some (m, ck, (FsBackend.loadResult d ck).getD none)
  | none => none

/-- well-formedness of the object store as the backend uses it -/
structure DSWF (d : DS) : Prop where
  objFresh   : ∀ p ∈ d.objs, p.1.2 < d.next
  linkFresh  : ∀ p ∈ d.links, p.2 < d.next
  objNodup   : (d.objs.map (·.1)).Nodup
  linkNodup  : (d.links.map (·.1)).Nodup
  /-- every memento link names a memento document whose content key names a stored blob
      in the data area (or is absent: the null result) -/
  mementoOk  : ∀ fn arg v, alookup d.links (.memento fn arg) = some v →
      ∃ m ck, alookup d.objs (.memento fn arg, v) = some (.mrec m ck) ∧
        (ck = none ∨ ∃ k ver b, ck = some (k, ver) ∧ k.isMetaArea = false ∧
            alookup d.objs (k, ver) = some (.blob b))
  metaOk     : ∀ fn arg k v, alookup d.links (.mdat fn arg k false) = some v →
      ∃ b, alookup d.objs (.mdat fn arg k false, v) = some (.raw b)
  /-- content-addressed objects: bytes determine the key (C07) -/
  contentOk  : ∀ h v c, alookup d.objs (.content h, v) = some c → c = .blob h
  /-- a content key has an object iff it has a link naming it: at most one object per key (C07) -/
  contentLinked : ∀ h v, (alookup d.objs (.content h, v)).isSome → alookup d.links (.content h) = some v

/-- the cache only ever says what the store says -/
structure Coherent (s : FsBackend) (c : Cache.State) : Prop where
  entryOk : ∀ k e, Cache.lookup c.cache k = some e →
      ∃ ck vb, FsBackend.storeEntry s.ds k.fn k.arg = some (e.mem, ck, vb) ∧
        alookup s.heap e.mem = some ⟨k.fn, k.arg, ck⟩ ∧
        (e.hasValue = true → FsBackend.objBytes e.val = vb)
  refOk : ∀ k v, Cache.refLookup c.refs k = some v →
      ∃ m ck, FsBackend.storeEntry s.ds k.fn k.arg = some (m, ck, FsBackend.objBytes v)
  inv : Cache.Inv c

structure WF (s : FsBackend) : Prop where
  ds       : DSWF s.ds
  writable : s.readOnly = false
  /-- a memento id names one call: memento objects known to the process agree with the store -/
  heapOk   : ∀ m mi, alookup s.heap m = some mi →
      ∀ fn arg ck, FsBackend.readMemento s.ds fn arg = some (m, ck) → fn = mi.fn ∧ arg = mi.arg ∧ ck = mi.ck
  memUnique : ∀ fn arg fn' arg' m ck ck', FsBackend.readMemento s.ds fn arg = some (m, ck) →
      FsBackend.readMemento s.ds fn' arg' = some (m, ck') → fn = fn' ∧ arg = arg'
  cacheOk  : ∀ c, s.cache = some c → Coherent s c

/-- histories the property quantifies over: every `memoize` carries a new memento object, and
    custom metadata is attached to memoized calls only -/
def FsBackend.admissible (s : FsBackend) : Op → Prop
  | .memoize _ _ _ mem _ _ _ => alookup s.heap mem = none ∧
      ∀ fn arg m ck, FsBackend.readMemento s.ds fn arg = some (m, ck) → m ≠ mem
  | .wmeta fn arg _ _ => (FsBackend.readMemento s.ds fn arg).isSome
  | _ => True

def MemBackend.admissible (s : MemBackend) : Op → Prop
  | .wmeta fn arg _ _ => (alookup s.mementos (fn, arg)).isSome
  | _ => True

end Memento.Store
