import MementoModel.Model.Partition

/-! Lemmas on partition indices: layering, sorted key lists, faithfulness of recorded indices. -/
namespace Memento.Partition

theorem ixGet_ixDel (ix : Index) (a k : K) : ixGet (ixDel ix a) k = if a = k then none else ixGet ix k := by
  induction ix with
  | nil => simp [ixDel, ixGet]
  | cons e r ih =>
    obtain ⟨b, x⟩ := e
    unfold ixDel at ih ⊢
    by_cases hb : b = a
    · subst hb
      have : ((b, x).1 != b) = false := by simp
      simp only [List.filter_cons, this, ixGet, Bool.false_eq_true, if_false]
      rw [ih]
      by_cases hk : b = k
      · simp [hk]
      · simp [hk]
    · have : ((b, x).1 != a) = true := by simpa using hb
      simp only [List.filter_cons, this, if_true, ixGet]
      rw [ih]
      by_cases hk : b = k
      · subst hk
        have : ¬ a = b := fun h => hb h.symm
        simp [this]
      · simp only [hk, if_false]

theorem layer_get (own : KV) : ∀ (ks : List K) (ix : Index) (k : K),
    ixGet (layer own ks ix) k =
      if k ∈ ks then (match kvGet own k with | some v => some (v, false) | none => ixGet ix k) else ixGet ix k := by
  intro ks
  induction ks with
  | nil => intro ix k; simp [layer]
  | cons a ks ih =>
    intro ix k
    unfold layer
    cases ha : kvGet own a with
    | none =>
      simp only
      rw [ih]
      by_cases hk : k ∈ ks
      · simp [hk]
      · by_cases hak : k = a
        · subst hak; simp [hk, ha]
        · simp [hk, hak]
    | some v =>
      simp only
      rw [ih]
      have hcons : ixGet ((a, v, false) :: ixDel ix a) k = if a = k then some (v, false) else ixGet ix k := by
        simp only [ixGet, ixGet_ixDel]
        by_cases h : a = k <;> simp [h]
      rw [hcons]
      by_cases hak : a = k
      · subst hak
        simp [ha]
      · have hka : ¬ k = a := fun h => hak h.symm
        simp only [hak, if_false, List.mem_cons, hka, false_or]

theorem kvGet_some_mem {own : KV} {k : K} {v : V} (h : kvGet own k = some v) : k ∈ own.map (·.1) := by
  induction own with
  | nil => simp [kvGet] at h
  | cons e r ih =>
    obtain ⟨a, x⟩ := e
    simp only [kvGet] at h
    by_cases ha : a = k
    · simp [ha]
    · simp only [ha, if_false] at h
      simp only [List.map_cons, List.mem_cons]
      exact Or.inr (ih h)

theorem kvGet_of_mem {own : KV} {k : K} (h : k ∈ own.map (·.1)) : ∃ v, kvGet own k = some v := by
  induction own with
  | nil => simp at h
  | cons e r ih =>
    obtain ⟨a, x⟩ := e
    simp only [kvGet]
    by_cases ha : a = k
    · exact ⟨x, by simp [ha]⟩
    · simp only [ha, if_false]
      simp only [List.map_cons, List.mem_cons] at h
      rcases h with h | h
      · exact absurd h.symm ha
      · exact ih h

theorem ixGet_some_mem {ix : Index} {k : K} {e : V × Bool} (h : ixGet ix k = some e) : k ∈ ix.map (·.1) := by
  induction ix with
  | nil => simp [ixGet] at h
  | cons x r ih =>
    obtain ⟨a, y⟩ := x
    simp only [ixGet] at h
    by_cases ha : a = k
    · simp [ha]
    · simp only [ha, if_false] at h
      simp only [List.map_cons, List.mem_cons]
      exact Or.inr (ih h)

theorem ixGet_of_mem {ix : Index} {k : K} (h : k ∈ ix.map (·.1)) : ∃ e, ixGet ix k = some e := by
  induction ix with
  | nil => simp at h
  | cons x r ih =>
    obtain ⟨a, y⟩ := x
    simp only [ixGet]
    by_cases ha : a = k
    · exact ⟨y, by simp [ha]⟩
    · simp only [ha, if_false]
      simp only [List.map_cons, List.mem_cons] at h
      rcases h with h | h
      · exact absurd h.symm ha
      · exact ih h

/-! ### sorted key lists -/

theorem mem_insertKey (k a : K) (l : List K) : a ∈ insertKey k l ↔ a = k ∨ a ∈ l := by
  induction l with
  | nil => simp [insertKey]
  | cons b r ih =>
    unfold insertKey
    by_cases h1 : k < b
    · simp [h1]
    · by_cases h2 : k = b
      · subst h2; simp
      · simp only [h1, h2, if_false, List.mem_cons, ih]
        constructor
        · rintro (h | h | h)
          · exact Or.inr (Or.inl h)
          · exact Or.inl h
          · exact Or.inr (Or.inr h)
        · rintro (h | h | h)
          · exact Or.inr (Or.inl h)
          · exact Or.inl h
          · exact Or.inr (Or.inr h)

theorem mem_sortKeys (l : List K) (a : K) : a ∈ sortKeys l ↔ a ∈ l := by
  induction l with
  | nil => simp [sortKeys]
  | cons b r ih =>
    simp only [sortKeys, List.foldr_cons] at ih ⊢
    rw [mem_insertKey, ih]
    simp

theorem insertKey_sorted (k : K) (l : List K) (h : l.Pairwise (· < ·)) : (insertKey k l).Pairwise (· < ·) := by
  induction l with
  | nil => simp [insertKey]
  | cons b r ih =>
    obtain ⟨hb, hr⟩ := List.pairwise_cons.mp h
    unfold insertKey
    by_cases h1 : k < b
    · simp only [h1, if_true]
      refine List.pairwise_cons.mpr ⟨?_, h⟩
      intro a ha
      rcases List.mem_cons.mp ha with rfl | ha
      · exact h1
      · exact Nat.lt_trans h1 (hb a ha)
    · by_cases h2 : k = b
      · subst h2
        simp only [Nat.lt_irrefl, if_false, if_true]; exact h
      · simp only [h1, h2, if_false]
        refine List.pairwise_cons.mpr ⟨?_, ih hr⟩
        intro a ha
        rcases (mem_insertKey k a r).mp ha with rfl | ha
        · exact Nat.lt_of_le_of_ne (Nat.le_of_not_lt h1) (fun h => h2 h.symm)
        · exact hb a ha

theorem sortKeys_sorted (l : List K) : (sortKeys l).Pairwise (· < ·) := by
  induction l with
  | nil => simp [sortKeys]
  | cons b r ih =>
    simp only [sortKeys, List.foldr_cons] at ih ⊢
    exact insertKey_sorted b _ ih

theorem sorted_ext : ∀ {l l' : List K}, l.Pairwise (· < ·) → l'.Pairwise (· < ·) → (∀ a, a ∈ l ↔ a ∈ l') → l = l' := by
  intro l
  induction l with
  | nil =>
    intro l' _ _ h
    cases l' with
    | nil => rfl
    | cons b r => exact absurd ((h b).mpr List.mem_cons_self) (by simp)
  | cons a t ih =>
    intro l' hs hs' h
    cases l' with
    | nil => exact absurd ((h a).mp List.mem_cons_self) (by simp)
    | cons b r =>
      obtain ⟨ha, ht⟩ := List.pairwise_cons.mp hs
      obtain ⟨hb, hr⟩ := List.pairwise_cons.mp hs'
      have hab : a = b := by
        have h1 := (h a).mp List.mem_cons_self
        have h2 := (h b).mpr List.mem_cons_self
        rcases List.mem_cons.mp h1 with h1 | h1
        · exact h1
        · rcases List.mem_cons.mp h2 with h2 | h2
          · exact h2.symm
          · exact absurd (Nat.lt_trans (hb a h1) (ha b h2)) (Nat.lt_irrefl _)
      subst hab
      congr 1
      apply ih ht hr
      intro c
      constructor
      · intro hc
        rcases List.mem_cons.mp ((h c).mp (List.mem_cons_of_mem _ hc)) with rfl | h'
        · exact absurd (ha c hc) (Nat.lt_irrefl _)
        · exact h'
      · intro hc
        rcases List.mem_cons.mp ((h c).mpr (List.mem_cons_of_mem _ hc)) with rfl | h'
        · exact absurd (hb c hc) (Nat.lt_irrefl _)
        · exact h'

theorem sortKeys_congr {l l' : List K} (h : ∀ a, a ∈ l ↔ a ∈ l') : sortKeys l = sortKeys l' :=
  sorted_ext (sortKeys_sorted l) (sortKeys_sorted l') (fun a => by rw [mem_sortKeys, mem_sortKeys, h])

/-! ### nodup indices -/

theorem ixDel_keys_sub (ix : Index) (a k : K) (h : k ∈ (ixDel ix a).map (·.1)) : k ∈ ix.map (·.1) ∧ k ≠ a := by
  unfold ixDel at h
  obtain ⟨e, he, rfl⟩ := List.mem_map.mp h
  obtain ⟨he1, he2⟩ := List.mem_filter.mp he
  exact ⟨List.mem_map.mpr ⟨e, he1, rfl⟩, by simpa using he2⟩

theorem ixDel_nodup (ix : Index) (a : K) (h : (ix.map (·.1)).Nodup) : ((ixDel ix a).map (·.1)).Nodup := by
  unfold ixDel
  exact (List.filter_sublist.map _).nodup h

theorem layer_nodup (own : KV) : ∀ (ks : List K) (ix : Index), (ix.map (·.1)).Nodup → ((layer own ks ix).map (·.1)).Nodup := by
  intro ks
  induction ks with
  | nil => intro ix h; exact h
  | cons a ks ih =>
    intro ix h
    unfold layer
    cases kvGet own a with
    | none => exact ih ix h
    | some v =>
      apply ih
      simp only [List.map_cons, List.nodup_cons]
      exact ⟨fun hm => (ixDel_keys_sub ix a a hm).2 rfl, ixDel_nodup ix a h⟩

end Memento.Partition
