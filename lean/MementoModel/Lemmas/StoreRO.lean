import MementoModel.Lemmas.StoreLemmas

/-! Lemmas for C19: the read paths of the filesystem backend never touch the object store nor the
    read-only flag, and never consult the flag. No well-formedness is needed for any of this. -/
set_option linter.unusedSimpArgs false
set_option linter.unusedVariables false
namespace Memento.Store
open Memento

namespace FsBackend

/-! ### the read paths keep `ds` and `readOnly` -/

/-- the part of the backend state a read path must not touch -/
def SameStore (s' s : FsBackend) : Prop := s'.ds = s.ds ∧ s'.readOnly = s.readOnly ∧ s'.separate = s.separate

theorem SameStore.refl (s : FsBackend) : SameStore s s := ⟨rfl, rfl, rfl⟩

theorem SameStore.trans {a b c : FsBackend} (h1 : SameStore a b) (h2 : SameStore b c) : SameStore a c :=
  ⟨h1.1.trans h2.1, h1.2.1.trans h2.2.1, h1.2.2.trans h2.2.2⟩

theorem cachePut_same (s : FsBackend) (fn arg mem val size wr hr gen) :
    SameStore (cachePut s fn arg mem val size wr hr gen) s := by
  obtain ⟨a, _, c⟩ := cachePut_fields s fn arg mem val size wr hr gen
  refine ⟨a, c, ?_⟩
  unfold cachePut
  cases s.cache <;> rfl

theorem fetchMemento_same (s : FsBackend) (fn : Fn) (arg : Arg) : SameStore (fetchMemento s fn arg).1 s := by
  unfold fetchMemento
  cases readMemento s.ds fn arg with
  | none => exact SameStore.refl s
  | some p =>
    obtain ⟨m, ck⟩ := p
    exact (cachePut_same _ fn arg m none 16 false false 0).trans ⟨rfl, rfl, rfl⟩

theorem mergeMementos_same : ∀ (l : List ((Fn × Arg) × Option Nat)) (s : FsBackend),
    SameStore (mergeMementos s l).1 s := by
  intro l
  induction l with
  | nil => intro s; exact SameStore.refl s
  | cons x l ih =>
    intro s
    obtain ⟨⟨fn, arg⟩, cached⟩ := x
    cases cached with
    | some m => simp only [mergeMementos]; exact ih s
    | none => simp only [mergeMementos]; exact (ih _).trans (fetchMemento_same s fn arg)

theorem getMementos_same (s : FsBackend) (ks : List (Fn × Arg)) : SameStore (getMementos s ks).1 s :=
  mergeMementos_same _ s

theorem getMemento_same (s : FsBackend) (fn : Fn) (arg : Arg) : SameStore (getMemento s fn arg).1 s := by
  have := getMementos_same s [(fn, arg)]
  unfold getMemento
  split
  · rename_i h; rw [h] at this; exact this
  · rename_i h; rw [h] at this; exact this

theorem readResult_same (s : FsBackend) (m size : Nat) (wr : Bool) : SameStore (readResult s m size wr).1 s := by
  unfold readResult
  cases alookup s.heap m with
  | none => exact SameStore.refl s
  | some mi =>
    simp only
    have hfrom : SameStore (match loadResult s.ds mi.ck with
        | none => (s, none)
        | some v => ({ cachePut s mi.fn mi.arg m v size wr true s.nextObj with nextObj := s.nextObj + 1 }, some v) :
          FsBackend × Option (Option Bytes)).1 s := by
      cases loadResult s.ds mi.ck with
      | none => exact SameStore.refl s
      | some v => exact cachePut_same s mi.fn mi.arg m v size wr true s.nextObj
    cases s.cache with
    | none => exact hfrom
    | some c =>
      simp only
      cases Cache.readResult c (ckey mi.fn mi.arg) with
      | mk c' out =>
        cases out with
        | keyError => exact hfrom
        | value v => exact ⟨rfl, rfl, rfl⟩

theorem isMemoized_same (s : FsBackend) (fn : Fn) (arg : Arg) : SameStore (isMemoized s fn arg).1 s := by
  unfold isMemoized
  cases s.cache with
  | none => exact SameStore.refl s
  | some c =>
    simp only
    cases Cache.isMemoized c (ckey fn arg) with
    | mk c' b => cases b <;> exact ⟨rfl, rfl, rfl⟩

theorem mapCache_same (s : FsBackend) (f : Cache.State → Cache.State) : SameStore (mapCache s f) s := ⟨rfl, rfl, rfl⟩

/-- the operations that never write to the store, whatever the flag says -/
def isPassive : Op → Bool
  | .getm _ | .lookread _ _ | .ismem _ _ | .lsf | .lsm _ | .rmeta _ _ _ | .hold _ | .drop _ => true
  | _ => false

theorem step_same (s : FsBackend) (op : Op) (hp : isPassive op = true) : SameStore (step s op).1 s := by
  cases op with
  | getm ks => simp only [step]; exact getMementos_same s ks
  | lookread fn arg =>
    simp only [step]
    have h1 := getMemento_same s fn arg
    rcases hg : getMemento s fn arg with ⟨s1, om⟩
    rw [hg] at h1
    cases om with
    | none => exact h1
    | some m =>
      simp only
      generalize sizeOf s1 _ = sz
      generalize wrOf s1 _ = w
      have h2 := readResult_same s1 m sz w
      rcases hr : readResult s1 m sz w with ⟨s2, ov⟩
      rw [hr] at h2
      cases ov <;> exact h2.trans h1
  | ismem fn arg => simp only [step]; exact isMemoized_same s fn arg
  | lsf => exact SameStore.refl s
  | lsm fn => exact SameStore.refl s
  | rmeta fn arg k =>
    simp only [step]
    split
    · split <;> exact SameStore.refl s
    · exact SameStore.refl s
  | hold b => exact mapCache_same s _
  | drop b => exact mapCache_same s _
  | _ => cases hp

/-- a read-only backend: no operation changes the store or the flag -/
theorem step_ro_same (s : FsBackend) (op : Op) (h : s.readOnly = true) : SameStore (step s op).1 s := by
  cases op with
  | memoize fn arg ov mem val sz wr => simp only [step, h, if_true]; exact SameStore.refl s
  | fcall fn arg => simp only [step, h, if_true]; exact SameStore.refl s
  | ffn fn => simp only [step, h, if_true]; exact SameStore.refl s
  | fall => simp only [step, h, if_true]; exact SameStore.refl s
  | wmeta fn arg k b => simp only [step, h, if_true]; exact SameStore.refl s
  | _ => exact step_same s _ rfl

/-- no operation changes where the metadata lives -/
theorem step_separate (s : FsBackend) (op : Op) : (step s op).1.separate = s.separate := by
  cases hro : s.readOnly with
  | true => exact (step_ro_same s op hro).2.2
  | false =>
    cases op with
    | memoize fn arg ov mem val sz wr =>
      rw [step_memoize s hro]
      exact (cachePut_same s fn arg mem val sz wr true 0).2.2
    | fcall fn arg => simp only [step, hro, Bool.false_eq_true, if_false]; rfl
    | ffn fn => simp only [step, hro, Bool.false_eq_true, if_false]; rfl
    | fall => simp only [step, hro, Bool.false_eq_true, if_false]; rfl
    | wmeta fn arg k b => simp only [step, hro, Bool.false_eq_true, if_false]
    | _ => exact (step_same s _ rfl).2.2

/-! ### the read paths do not consult the flag -/

/-- the same backend with another value of the read-only flag -/
def setRO (s : FsBackend) (b : Bool) : FsBackend := { s with readOnly := b }

theorem cachePut_setRO (s : FsBackend) (b : Bool) (fn arg mem val size wr hr gen) :
    cachePut (setRO s b) fn arg mem val size wr hr gen = setRO (cachePut s fn arg mem val size wr hr gen) b := by
  obtain ⟨ds, sep, cache, heap, ro, no, vi⟩ := s
  cases cache <;> rfl

theorem fetchMemento_setRO (s : FsBackend) (b : Bool) (fn : Fn) (arg : Arg) :
    fetchMemento (setRO s b) fn arg = (setRO (fetchMemento s fn arg).1 b, (fetchMemento s fn arg).2) := by
  unfold fetchMemento
  show (match readMemento s.ds fn arg with
    | none => (setRO s b, none)
    | some (m, ck) => (cachePut (setRO { s with heap := aset s.heap m ⟨fn, arg, ck⟩ } b) fn arg m none 16 false false, some m)) = _
  cases readMemento s.ds fn arg with
  | none => rfl
  | some p =>
    obtain ⟨m, ck⟩ := p
    simp only [cachePut_setRO]

theorem mergeMementos_setRO (b : Bool) : ∀ (l : List ((Fn × Arg) × Option Nat)) (s : FsBackend),
    mergeMementos (setRO s b) l = (setRO (mergeMementos s l).1 b, (mergeMementos s l).2) := by
  intro l
  induction l with
  | nil => intro s; rfl
  | cons x l ih =>
    intro s
    obtain ⟨⟨fn, arg⟩, cached⟩ := x
    cases cached with
    | some m => simp only [mergeMementos, ih s]
    | none => simp only [mergeMementos, fetchMemento_setRO, ih]

theorem cacheLookup_setRO (s : FsBackend) (b : Bool) (fn : Fn) (arg : Arg) :
    cacheLookup (setRO s b) fn arg = cacheLookup s fn arg := rfl

theorem getMementos_setRO (s : FsBackend) (b : Bool) (ks : List (Fn × Arg)) :
    getMementos (setRO s b) ks = (setRO (getMementos s ks).1 b, (getMementos s ks).2) := by
  unfold getMementos
  simp only [cacheLookup_setRO]
  exact mergeMementos_setRO b _ s

theorem getMemento_setRO (s : FsBackend) (b : Bool) (fn : Fn) (arg : Arg) :
    getMemento (setRO s b) fn arg = (setRO (getMemento s fn arg).1 b, (getMemento s fn arg).2) := by
  unfold getMemento
  rw [getMementos_setRO]
  rcases getMementos s [(fn, arg)] with ⟨s', ms⟩
  match ms with
  | [] => rfl
  | [m] => rfl
  | _ :: _ :: _ => rfl

theorem readResult_setRO (s : FsBackend) (b : Bool) (m size : Nat) (wr : Bool) :
    readResult (setRO s b) m size wr = (setRO (readResult s m size wr).1 b, (readResult s m size wr).2) := by
  obtain ⟨ds, sep, cache, heap, ro, no, vi⟩ := s
  unfold readResult
  simp only [setRO]
  cases alookup heap m with
  | none => rfl
  | some mi =>
    simp only
    cases hl : loadResult ds mi.ck with
    | none =>
      cases cache with
      | none => rfl
      | some c =>
        simp only
        cases Cache.readResult c (ckey mi.fn mi.arg) with
        | mk c' out => cases out <;> rfl
    | some v =>
      cases cache with
      | none => rfl
      | some c =>
        simp only
        cases Cache.readResult c (ckey mi.fn mi.arg) with
        | mk c' out => cases out <;> rfl

theorem isMemoized_setRO (s : FsBackend) (b : Bool) (fn : Fn) (arg : Arg) :
    isMemoized (setRO s b) fn arg = (setRO (isMemoized s fn arg).1 b, (isMemoized s fn arg).2) := by
  obtain ⟨ds, sep, cache, heap, ro, no, vi⟩ := s
  unfold isMemoized
  simp only [setRO]
  cases cache with
  | none => rfl
  | some c =>
    simp only
    cases Cache.isMemoized c (ckey fn arg) with
    | mk c' r => cases r <;> rfl

/-- the operations that only read -/
def isReadOp : Op → Bool
  | .getm _ | .lookread _ _ | .ismem _ _ | .lsf | .lsm _ | .rmeta _ _ _ => true
  | _ => false

/-- a read gives the same answer whatever the flag says -/
theorem step_setRO_out (s : FsBackend) (b : Bool) (op : Op) (hr : isReadOp op = true) :
    (step (setRO s b) op).2 = (step s op).2 := by
  cases op with
  | getm ks => simp only [step, getMementos_setRO]
  | lookread fn arg =>
    simp only [step, getMemento_setRO]
    rcases getMemento s fn arg with ⟨s1, om⟩
    cases om with
    | none => rfl
    | some m =>
      simp only
      have e1 : ∀ v, sizeOf (setRO s1 b) v = sizeOf s1 v := fun _ => rfl
      have e2 : ∀ v, wrOf (setRO s1 b) v = wrOf s1 v := fun _ => rfl
      have e3 : (setRO s1 b).heap = s1.heap := rfl
      have e4 : (setRO s1 b).ds = s1.ds := rfl
      rw [e1, e2, e3, e4, readResult_setRO]
      generalize sizeOf s1 _ = sz
      generalize wrOf s1 _ = w
      rcases readResult s1 m sz w with ⟨s2, ov⟩
      cases ov <;> rfl
  | ismem fn arg => simp only [step, isMemoized_setRO]
  | lsf => rfl
  | lsm fn => rfl
  | rmeta fn arg k =>
    simp only [step]
    have e4 : (setRO s b).ds = s.ds := rfl
    rw [e4]
    split
    · split <;> rfl
    · rfl
  | _ => cases hr

end FsBackend

/-! ### memory backend -/

theorem MemBackend.step_ro (s : MemBackend) (op : Op) (h : s.readOnly = true) : (MemBackend.step s op).1 = s := by
  cases op with
  | lookread fn arg =>
    simp only [MemBackend.step]
    cases alookup s.mementos (fn, arg) <;> rfl
  | _ => simp [MemBackend.step, h]

end Memento.Store
