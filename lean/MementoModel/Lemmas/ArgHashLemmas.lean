import MementoModel.Model.ArgHash
import MementoModel.Lemmas.JsonLemmas
import Std.Data.String.ToInt

/-!
Lemmas about argument identity (`Model/ArgHash.lean`):

* integer tokens: `intTok z` is an integer literal and reads back as `z`;
* `decode`: every value that `decode` returns is a fixed point of `decode ∘ encode` (`decode_fix`);
* `kwSet` / `bindPos` / `effKw`: the effective keyword arguments of a presentation
  (`effKw_presentation`), lookups under permutation;
* the key tokens of a keyword map only depend on the map up to member order (`keyTokens_perm`).

Uses `Std.Data.String.ToInt` (part of the Lean distribution) for `Int.toInt?_repr`; no Mathlib.
-/
set_option linter.unusedSimpArgs false
namespace Memento.ArgHash
open Memento.Json

/-! ### integer tokens -/

def isIntChars (cs : List Char) : Bool :=
  let ds := match cs with | '-' :: r => r | r => r
  !ds.isEmpty && ds.all Char.isDigit

theorem isIntTok_eq (t : String) : isIntTok t = isIntChars t.toList := rfl

theorem isIntChars_digits (cs : List Char) (hne : cs ≠ []) (h : ∀ c ∈ cs, c.isDigit = true) :
    isIntChars cs = true := by
  unfold isIntChars
  split
  · next r =>
    have := h '-' List.mem_cons_self
    exact absurd this (by decide)
  · cases cs with
    | nil => exact absurd rfl hne
    | cons c cs => simpa using h

theorem isIntChars_minus (cs : List Char) (hne : cs ≠ []) (h : ∀ c ∈ cs, c.isDigit = true) :
    isIntChars ('-' :: cs) = true := by
  cases cs with
  | nil => exact absurd rfl hne
  | cons c cs => simpa [isIntChars] using h

theorem isIntTok_natRepr (n : Nat) : isIntTok (Nat.repr n) = true := by
  rw [isIntTok_eq, Nat.toList_repr]
  exact isIntChars_digits _ Nat.toDigits_ne_nil
    (fun c hc => Nat.isDigit_of_mem_toDigits (by omega) (by omega) hc)

theorem isIntTok_intTok (z : Int) : isIntTok (intTok z) = true := by
  show isIntTok (Int.repr z) = true
  cases z with
  | ofNat m => exact isIntTok_natRepr m
  | negSucc m =>
    show isIntTok ("-" ++ Nat.repr (m+1)) = true
    rw [isIntTok_eq, String.toList_append, Nat.toList_repr]
    exact isIntChars_minus _ Nat.toDigits_ne_nil
      (fun c hc => Nat.isDigit_of_mem_toDigits (by omega) (by omega) hc)

theorem intTok_toInt (z : Int) : (intTok z).toInt? = some z := Int.toInt?_repr z

/-! ### `decode ∘ encode` fixes everything that `decode` returns -/

/-- `m` is a fixed point of `normalize` -/
def Fix (m : Arg) : Prop := decode (encode m) = some m

theorem lget_mem {ms : List (String × Option Arg)} {k : String} {x : Option Arg}
    (h : lget ms k = some x) : ∃ p ∈ ms, p.2 = x := by
  unfold lget at h
  cases hf : ms.find? (fun p => p.1 == k) with
  | none => simp [hf] at h
  | some p =>
    simp [hf] at h
    exact ⟨p, List.mem_of_find?_eq_some hf, h⟩

theorem fix_date (iso : String) : Fix (.date iso) := by
  simp [Fix, encode, decode, decodeO, interpObj, lget]

theorem fix_datetime (iso : String) : Fix (.datetime iso) := by
  simp [Fix, encode, decode, decodeO, interpObj, lget]

def strArgs : List String → ArgList
  | [] => .nil
  | s :: ss => .cons (.str s) (strArgs ss)

theorem decodeL_strList : ∀ names, decodeL (strList names) = some (strArgs names)
  | [] => by simp [strList, decodeL, strArgs]
  | s :: ss => by simp [strList, decodeL, strArgs, decode, decodeL_strList ss]

theorem strings_strArgs : ∀ names, (strArgs names).strings = some names
  | [] => by simp [strArgs, ArgList.strings]
  | s :: ss => by simp [strArgs, ArgList.strings, strings_strArgs ss]

theorem fix_list_iff (l : ArgList) : Fix (.list l) ↔ decodeL (encodeL l) = some l := by
  simp [Fix, encode, decode]

theorem decode_str (s : String) : decode (.str s) = some (.str s) := by simp [decode]

theorem fix_fnref (qn : String) (pargs : ArgList) (pkw : ArgObj) (names : List String)
    (h1 : decodeL (encodeL pargs) = some pargs) (h2 : Fix (.dict pkw)) :
    Fix (.fnref qn pargs pkw names) := by
  have e2 : decode (.obj (encodeO pkw)) = some (.dict pkw) := by
    simpa [Fix, encode] using h2
  have e3 : decode (.arr (strList names)) = some (.list (strArgs names)) := by
    simp [decode, decodeL_strList]
  have e1 : ∃ pa, decode (if pargs.isEmpty then .null else .arr (encodeL pargs)) = some pa ∧
      ((pa = .none ∧ pargs = .nil) ∨ pa = .list pargs) := by
    cases pargs with
    | nil => exact ⟨.none, by simp [ArgList.isEmpty, decode], .inl ⟨rfl, rfl⟩⟩
    | cons a l => exact ⟨.list (.cons a l), by simp [ArgList.isEmpty, decode, h1], .inr rfl⟩
  obtain ⟨pa, e1, e1'⟩ := e1
  show decode (encode (.fnref qn pargs pkw names)) = _
  rw [encode, decode]
  simp only [decodeO, e1, e2, e3, decode_str]
  rcases e1' with ⟨rfl, rfl⟩ | rfl <;> simp [interpObj, lget, strings_strArgs]

theorem allSome_eq {ms : List (String × Option Arg)} {l : List (String × Arg)} (h : allSome ms = some l) :
    ms = l.map (fun p => (p.1, some p.2)) := by
  induction ms generalizing l with
  | nil => simp [allSome] at h; subst h; rfl
  | cons p ms ih =>
    obtain ⟨k, x⟩ := p
    cases x with
    | none => simp [allSome] at h
    | some a =>
      simp only [allSome, Option.map_eq_some_iff] at h
      obtain ⟨l', hl', rfl⟩ := h
      simp [ih hl']

theorem toList_ofList : ∀ l : List (String × Arg), (ArgObj.ofList l).toList = l
  | [] => rfl
  | (k, a) :: r => by simp [ArgObj.ofList, ArgObj.toList, toList_ofList r]

theorem decodeO_encodeO : ∀ o : ArgObj,
    decodeO (encodeO o) = o.toList.map (fun p => (p.1, decode (encode p.2)))
  | .nil => by simp [encodeO, decodeO, ArgObj.toList]
  | .cons k a o => by simp [encodeO, decodeO, ArgObj.toList, decodeO_encodeO o]

theorem interpObj_fix (ms : List (String × Option Arg)) (n : Arg)
    (hms : ∀ p ∈ ms, ∀ m, p.2 = some m → Fix m) (h : interpObj ms = some n) : Fix n := by
  have h0 := h
  unfold interpObj at h
  split at h
  · split at h
    · split at h
      · next _ _ _ _ _ _ qn pa pkw pn hqn hpa hpkw hpn _ _ pargs names hpargs hnames =>
        simp only [Option.some.injEq] at h
        subst h
        obtain ⟨p1, hp1, e1⟩ := lget_mem hpa
        obtain ⟨p2, hp2, e2⟩ := lget_mem hpkw
        have f1 := hms p1 hp1 pa e1
        have f2 := hms p2 hp2 _ e2
        refine fix_fnref _ _ _ _ ?_ f2
        split at hpargs
        · simp only [Option.some.injEq] at hpargs; subst hpargs; simp [encodeL, decodeL]
        · simp only [Option.some.injEq] at hpargs; subst hpargs; exact (fix_list_iff _).mp f1
        · simp at hpargs
      · simp at h
    · simp at h
  · split at h
    · simp only [Option.some.injEq] at h; subst h; exact fix_datetime _
    · simp at h
  · split at h
    · simp only [Option.some.injEq] at h; subst h; exact fix_date _
    · simp at h
  · simp at h
  · simp only [Option.map_eq_some_iff] at h
    obtain ⟨l, hl, rfl⟩ := h
    have hms' := allSome_eq hl
    show decode (encode (.dict (ArgObj.ofList l))) = _
    rw [encode, decode, decodeO_encodeO, toList_ofList]
    have : l.map (fun p => (p.1, decode (encode p.2))) = ms := by
      rw [hms']
      apply List.map_congr_left
      intro p hp
      have : Fix p.2 := hms (p.1, some p.2) (by rw [hms']; exact List.mem_map_of_mem (f := fun p => (p.1, some p.2)) hp) p.2 rfl
      rw [this]
    rw [this]; exact h0

mutual
  theorem decode_fix : ∀ (v : JVal) (n : Arg), decode v = some n → Fix n
    | .null, n, h => by simp [decode] at h; subst h; simp [Fix, encode, decode]
    | .bool b, n, h => by simp [decode] at h; subst h; simp [Fix, encode, decode]
    | .num t, n, h => by
      simp only [decode] at h
      split at h
      · simp only [Option.map_eq_some_iff] at h
        obtain ⟨z, hz, rfl⟩ := h
        simp [Fix, encode, decode, isIntTok_intTok, intTok_toInt]
      · next hi =>
        simp only [Option.some.injEq] at h; subst h
        simp [Fix, encode, decode, hi]
    | .str s, n, h => by simp [decode] at h; subst h; simp [Fix, encode, decode]
    | .arr l, n, h => by
      simp only [decode, Option.map_eq_some_iff] at h
      obtain ⟨al, hal, rfl⟩ := h
      exact (fix_list_iff _).mpr (decodeL_fix l al hal)
    | .obj o, n, h => by
      simp only [decode] at h
      exact interpObj_fix _ _ (decodeO_fix o) h
  theorem decodeL_fix : ∀ (l : JList) (al : ArgList), decodeL l = some al → decodeL (encodeL al) = some al
    | .nil, al, h => by simp [decodeL] at h; subst h; simp [encodeL, decodeL]
    | .cons v l, al, h => by
      simp only [decodeL] at h
      split at h
      · next a l' ha hl' =>
        simp only [Option.some.injEq] at h; subst h
        have f1 : decode (encode a) = some a := decode_fix v a ha
        have f2 := decodeL_fix l l' hl'
        simp [encodeL, decodeL, f1, f2]
      · simp at h
  theorem decodeO_fix : ∀ (o : JObj), ∀ p ∈ decodeO o, ∀ m, p.2 = some m → Fix m
    | .nil, p, hp, m, hm => by simp [decodeO] at hp
    | .cons k v o, p, hp, m, hm => by
      simp only [decodeO, List.mem_cons] at hp
      rcases hp with rfl | hp
      · exact decode_fix v m hm
      · exact decodeO_fix o p hp m hm
end

/-! ### keyword maps, `effKw` -/

theorem any_key_iff (m : KwMap) (k : String) : m.any (fun p => p.1 == k) = true ↔ k ∈ m.map (·.1) := by
  simp only [List.any_eq_true, List.mem_map, beq_iff_eq]

theorem kwHas_iff (m : KwMap) (k : String) : kwHas m k = true ↔ k ∈ m.map (·.1) := any_key_iff m k

theorem kwSet_fresh (m : KwMap) (k : String) (v : Arg) (h : k ∉ m.map (·.1)) : kwSet m k v = m ++ [(k, v)] := by
  unfold kwSet
  have : m.any (fun p => p.1 == k) = false := by
    rw [← Bool.not_eq_true, any_key_iff]; exact h
  simp [this]

theorem foldl_kwSet_fresh (l m : KwMap) (h : ((m ++ l).map (·.1)).Nodup) :
    l.foldl (fun m p => kwSet m p.1 p.2) m = m ++ l := by
  induction l generalizing m with
  | nil => simp
  | cons p l ih =>
    have h' : (((m ++ [p]) ++ l).map (·.1)).Nodup := by simpa using h
    have hk : p.1 ∉ m.map (·.1) := by
      intro hm
      simp only [List.map_append, List.map_cons, List.nodup_append] at h
      exact h.2.2 _ hm _ List.mem_cons_self rfl
    rw [List.foldl_cons, kwSet_fresh m p.1 p.2 hk, ih _ h']
    simp

theorem bindPos_eq_foldl (m : KwMap) (ns : List String) (as : List Arg) :
    bindPos m ns as = (ns.zip as).foldl (fun m p => kwSet m p.1 p.2) m := by
  induction ns generalizing m as with
  | nil => simp [bindPos]
  | cons n ns ih =>
    cases as with
    | nil => simp [bindPos]
    | cons a as => simp [bindPos, ih]

theorem zip_take_right {α β} (l : List α) (l' : List β) (n : Nat) : l.zip (l'.take n) = (l.zip l').take n := by
  induction l generalizing l' n with
  | nil => simp
  | cons a l ih =>
    cases l' with
    | nil => simp
    | cons b l' =>
      cases n with
      | zero => simp
      | succ n => simp [ih]

theorem eq_of_keys_nodup {β} {l : List (String × β)} (hn : (l.map (·.1)).Nodup) {p q : String × β}
    (hp : p ∈ l) (hq : q ∈ l) (e : p.1 = q.1) : p = q := by
  induction l with
  | nil => simp at hp
  | cons x l ih =>
    rw [List.map_cons, List.nodup_cons] at hn
    rcases List.mem_cons.mp hp with rfl | hp' <;> rcases List.mem_cons.mp hq with rfl | hq'
    · rfl
    · exact absurd (by rw [e]; exact List.mem_map_of_mem hq') hn.1
    · exact absurd (by rw [← e]; exact List.mem_map_of_mem hp') hn.1
    · exact ih hn.2 hp' hq'

theorem kwGet_of_mem {m : KwMap} (hn : (m.map (·.1)).Nodup) {p : String × Arg} (hp : p ∈ m) :
    kwGet m p.1 = some p.2 := by
  unfold kwGet
  cases hf : m.find? (fun q => q.1 == p.1) with
  | none =>
    have := List.find?_eq_none.mp hf p hp
    simp at this
  | some q =>
    have hq := List.mem_of_find?_eq_some hf
    have e : q.1 = p.1 := by simpa using List.find?_some hf
    rw [eq_of_keys_nodup hn hq hp e]; rfl

theorem kwGet_none {m : KwMap} {k : String} (h : k ∉ m.map (·.1)) : kwGet m k = none := by
  unfold kwGet
  cases hf : m.find? (fun q => q.1 == k) with
  | none => rfl
  | some q =>
    have hq := List.mem_of_find?_eq_some hf
    have e : q.1 = k := by simpa using List.find?_some hf
    exact absurd (e ▸ List.mem_map_of_mem hq) h

/-- lookups only depend on the set of bindings when the keys are distinct -/
theorem kwGet_eq_of_perm {m m' : KwMap} (hp : m.Perm m') (hn : (m.map (·.1)).Nodup) (k : String) :
    kwGet m k = kwGet m' k := by
  have hn' : (m'.map (·.1)).Nodup := (hp.map _).nodup_iff.mp hn
  by_cases hk : k ∈ m.map (·.1)
  · obtain ⟨p, hpm, rfl⟩ := List.mem_map.mp hk
    rw [kwGet_of_mem hn hpm, kwGet_of_mem hn' (hp.mem_iff.mp hpm)]
  · have hk' : k ∉ m'.map (·.1) := fun h => hk ((hp.map _).mem_iff.mpr h)
    rw [kwGet_none hk, kwGet_none hk']


theorem nodup_of_nodup_map {α β} (f : α → β) {l : List α} (h : (l.map f).Nodup) : l.Nodup :=
  List.Pairwise.of_map f (fun _ _ hne e => hne (congrArg f e)) h

/-- `pk`: distinct names, each bound as in `B` — then `pk` is, up to order, the part of `B` it names -/
theorem perm_filter_of_subset {B pk : KwMap} (hB : (B.map (·.1)).Nodup) (hpkN : (pk.map (·.1)).Nodup)
    (hpk : ∀ p ∈ pk, p ∈ B) : pk.Perm (B.filter (fun p => kwHas pk p.1)) := by
  have nB : B.Nodup := nodup_of_nodup_map _ hB
  have nP : pk.Nodup := nodup_of_nodup_map _ hpkN
  refine (List.perm_ext_iff_of_nodup nP (nB.sublist List.filter_sublist)).mpr ?_
  intro p
  simp only [List.mem_filter, kwHas_iff]
  constructor
  · intro hp; exact ⟨hpk p hp, List.mem_map_of_mem hp⟩
  · rintro ⟨hpB, hk⟩
    obtain ⟨q, hq, e⟩ := List.mem_map.mp hk
    rw [← eq_of_keys_nodup hB (hpk q hq) hpB e]; exact hq

theorem effKw_presentation (params : List String) (vs : List Arg) (hp : params.Nodup)
    (hl : vs.length = params.length) (i : Nat) (pk : KwMap) (r : Nat) (kw : KwMap)
    (hi : i ≤ params.length) (hpkN : (pk.map (·.1)).Nodup)
    (hpk : ∀ p ∈ pk, p ∈ (params.zip vs).drop i)
    (hr : r ≤ (((params.zip vs).drop i).filter (fun p => !kwHas pk p.1)).length)
    (hkw : kw.Perm ((((params.zip vs).drop i).filter (fun p => !kwHas pk p.1)).drop r)) :
    effKw params (vs.take i) pk
        (((((params.zip vs).drop i).filter (fun p => !kwHas pk p.1)).take r).map (·.2)) kw
      = .ok (pk ++ (params.zip vs).take i
          ++ (((params.zip vs).drop i).filter (fun p => !kwHas pk p.1)).take r ++ kw) ∧
    (pk ++ (params.zip vs).take i
          ++ (((params.zip vs).drop i).filter (fun p => !kwHas pk p.1)).take r ++ kw).Perm (params.zip vs) := by
  generalize hB : params.zip vs = B at *
  generalize hR : (B.drop i).filter (fun p => !kwHas pk p.1) = R at *
  have hBk : B.map (·.1) = params := by
    rw [← hB]; exact List.map_fst_zip (by omega)
  have hBn : (B.map (·.1)).Nodup := hBk ▸ hp
  have hBdn : ((B.drop i).map (·.1)).Nodup := by
    rw [← List.take_append_drop i B, List.map_append, List.nodup_append] at hBn; exact hBn.2.1
  -- `pk ++ R` is a permutation of `B.drop i`
  have h1 : (pk ++ R).Perm (B.drop i) := by
    have := perm_filter_of_subset hBdn hpkN hpk
    rw [← hR]
    exact (this.append_right _).trans (List.filter_append_perm _ _)
  have hL : (pk ++ B.take i ++ R.take r ++ kw).Perm B := by
    have e1 : (pk ++ B.take i ++ R.take r ++ kw).Perm (B.take i ++ (pk ++ (R.take r ++ kw))) := by
      simp only [List.append_assoc]
      rw [← List.append_assoc pk, ← List.append_assoc (B.take i)]
      exact List.Perm.append_right _ List.perm_append_comm
    have e2 : (pk ++ (R.take r ++ kw)).Perm (pk ++ R) := by
      refine List.Perm.append_left _ ?_
      have := List.Perm.append_left (R.take r) hkw
      rwa [List.take_append_drop] at this
    have e3 := (e1.trans (List.Perm.append_left _ (e2.trans h1)))
    rwa [List.take_append_drop] at e3
  refine ⟨?_, hL⟩
  have hLn : ((pk ++ B.take i ++ R.take r ++ kw).map (·.1)).Nodup := (hL.map _).nodup_iff.mpr hBn
  have hsub : ∀ l : KwMap, l.Sublist (pk ++ B.take i ++ R.take r ++ kw) → (l.map (·.1)).Nodup :=
    fun l hs => (hs.map _).nodup hLn
  -- stage 0
  have e0 : pk.foldl (fun m p => kwSet m p.1 p.2) [] = pk := by
    rw [foldl_kwSet_fresh]; · simp
    · simp only [List.nil_append]; exact hpkN
  have elen : ¬ params.length < (vs.take i).length := by
    rw [List.length_take]; omega
  -- stage 1
  have e1 : bindPos pk params (vs.take i) = pk ++ B.take i := by
    rw [bindPos_eq_foldl, zip_take_right, hB, foldl_kwSet_fresh]
    exact hsub _ (((List.prefix_append _ _).trans (List.prefix_append _ _)).sublist)
  -- the remaining names
  have hkeys : ∀ p ∈ B.drop i, kwHas (pk ++ B.take i) p.1 = kwHas pk p.1 := by
    intro p hpd
    have hnt : p.1 ∉ (B.take i).map (·.1) := by
      intro hm
      rw [← List.take_append_drop i B, List.map_append, List.nodup_append] at hBn
      exact hBn.2.2 _ hm _ (List.mem_map_of_mem hpd) rfl
    rw [Bool.eq_iff_iff, kwHas_iff, kwHas_iff, List.map_append, List.mem_append]
    exact ⟨fun h => h.resolve_right hnt, Or.inl⟩
  have erem : params.filter (fun n => !kwHas (pk ++ B.take i) n) = R.map (·.1) := by
    rw [← hBk, List.filter_map]
    congr 1
    have split : ∀ q : String × Arg → Bool, B.filter q = (B.take i).filter q ++ (B.drop i).filter q :=
      fun q => by rw [← List.filter_append, List.take_append_drop]
    rw [split]
    have z : (B.take i).filter ((fun n => !kwHas (pk ++ B.take i) n) ∘ fun x => x.1) = [] := by
      rw [List.filter_eq_nil_iff]
      intro p hpt
      have : kwHas (pk ++ B.take i) p.1 = true := by
        rw [kwHas_iff, List.map_append, List.mem_append]; exact Or.inr (List.mem_map_of_mem hpt)
      simp [this]
    rw [z, List.nil_append, ← hR]
    apply List.filter_congr
    intro p hpd
    simp only [Function.comp, hkeys p hpd]
  have elen2 : ¬ (R.map (·.1)).length < ((R.take r).map (·.2)).length := by
    simp only [List.length_map, List.length_take]; omega
  -- stage 2
  have ezip : (R.map (·.1)).zip ((R.take r).map (·.2)) = R.take r := by
    rw [List.map_take, zip_take_right, List.zip_map']
    simp
  have e2 : bindPos (pk ++ B.take i) (R.map (·.1)) ((R.take r).map (·.2)) = pk ++ B.take i ++ R.take r := by
    rw [bindPos_eq_foldl, ezip, foldl_kwSet_fresh]
    exact hsub _ (List.prefix_append _ _).sublist
  -- stage 3
  have e3 : kw.foldl (fun m p => kwSet m p.1 p.2) (pk ++ B.take i ++ R.take r) =
      pk ++ B.take i ++ R.take r ++ kw := foldl_kwSet_fresh _ _ hLn
  unfold effKw
  simp only [e0, elen, if_false, e1, erem, elen2, e2, e3]


/-- the narrow presentation (partial keyword arguments after the positional ones) as a special case -/
theorem narrow_rest (B : KwMap) (hB : (B.map (·.1)).Nodup) (i j : Nat) (hij : i ≤ j) (hj : j ≤ B.length)
    (pk kw : KwMap) (hrest : (pk ++ kw).Perm (B.drop j)) :
    (B.drop i).filter (fun b => !kwHas pk b.1) =
        (B.drop i).take (j - i) ++ (B.drop j).filter (fun b => !kwHas pk b.1) ∧
      kw.Perm ((B.drop j).filter (fun b => !kwHas pk b.1)) ∧
      ((B.drop i).take (j - i)).length = j - i := by
  have hsplit : B.drop i = (B.drop i).take (j - i) ++ B.drop j := by
    have := (List.take_append_drop (j - i) (B.drop i)).symm
    rwa [List.drop_drop, show i + (j - i) = j by omega] at this
  have hdn : ((B.drop i).map (·.1)).Nodup :=
    ((List.drop_sublist i B).map _).nodup hB
  have hjn : ((B.drop j).map (·.1)).Nodup :=
    ((List.drop_sublist j B).map _).nodup hB
  have hpkkw : ((pk ++ kw).map (·.1)).Nodup := (hrest.map _).nodup_iff.mpr hjn
  refine ⟨?_, ?_, ?_⟩
  · conv => lhs; rw [hsplit]
    rw [List.filter_append]
    congr 1
    rw [List.filter_eq_self]
    intro b hb
    rw [hsplit, List.map_append, List.nodup_append] at hdn
    have : ¬ kwHas pk b.1 = true := by
      rw [kwHas_iff]
      intro hk
      obtain ⟨c, hc, e⟩ := List.mem_map.mp hk
      have hc' : c ∈ B.drop j := hrest.mem_iff.mp (List.mem_append_left _ hc)
      exact hdn.2.2 _ (List.mem_map_of_mem hb) _ (List.mem_map_of_mem hc') e.symm
    simpa using this
  · have := hrest.filter (fun b => !kwHas pk b.1)
    rw [List.filter_append] at this
    have z : pk.filter (fun b => !kwHas pk b.1) = [] := by
      rw [List.filter_eq_nil_iff]
      intro b hb
      have : kwHas pk b.1 = true := (kwHas_iff _ _).mpr (List.mem_map_of_mem hb)
      simp [this]
    have s : kw.filter (fun b => !kwHas pk b.1) = kw := by
      rw [List.filter_eq_self]
      intro b hb
      have : ¬ kwHas pk b.1 = true := by
        rw [kwHas_iff]
        intro hk
        rw [List.map_append, List.nodup_append] at hpkkw
        exact hpkkw.2.2 _ hk _ (List.mem_map_of_mem hb) rfl
      simpa using this
    rwa [z, s, List.nil_append] at this
  · rw [List.length_take, List.length_drop]; omega

/-! ### key tokens -/

theorem serO_encodeO_ofList : ∀ l : List (String × Arg),
    serO (encodeO (ArgObj.ofList l)) = l.map (fun p => (p.1, ser (encode p.2)))
  | [] => by simp [ArgObj.ofList, encodeO, serO]
  | (k, a) :: r => by simp [ArgObj.ofList, encodeO, serO, serO_encodeO_ofList r]

theorem ser_dict_ofList (l : List (String × Arg)) :
    ser (encode (.dict (ArgObj.ofList l))) =
      .lc :: serKVs (sortKV (l.map (fun p => (p.1, ser (encode p.2))))) ++ [.rc] := by
  rw [encode, ser, serO_encodeO_ofList]

/-- the tokens of a dictionary do not depend on the order of its (distinct) members -/
theorem ser_dict_perm {m m' : KwMap} (hp : m.Perm m') (hn : (m.map (·.1)).Nodup) :
    ser (encode (.dict (ArgObj.ofList m))) = ser (encode (.dict (ArgObj.ofList m'))) := by
  rw [ser_dict_ofList, ser_dict_ofList]
  rw [sortKV_eq_of_perm (hp.map _) (by rw [map_fst_map_snd (fun a => ser (encode a))]; exact hn)]

theorem withCtx_fresh (kw ctx : KwMap) (hne : ctx ≠ []) (hr : "_memento_context_args" ∉ kw.map (·.1)) :
    withCtx kw ctx = kw ++ [("_memento_context_args", .dict (ArgObj.ofList ctx))] := by
  unfold withCtx
  cases ctx with
  | nil => exact absurd rfl hne
  | cons c cs => simp [kwSet_fresh _ _ _ hr]

theorem keyTokens_perm {m m' : KwMap} (ctx : KwMap) (hp : m.Perm m') (hn : (m.map (·.1)).Nodup)
    (hr : "_memento_context_args" ∉ m.map (·.1)) : keyTokens m ctx = keyTokens m' ctx := by
  unfold keyTokens
  by_cases hc : ctx = []
  · subst hc
    simp only [withCtx, List.isEmpty_nil, if_true]
    exact ser_dict_perm hp hn
  · have hr' : "_memento_context_args" ∉ m'.map (·.1) := fun h => hr ((hp.map _).mem_iff.mpr h)
    rw [withCtx_fresh _ _ hc hr, withCtx_fresh _ _ hc hr']
    refine ser_dict_perm (hp.append_right _) ?_
    rw [List.map_append, List.nodup_append]
    refine ⟨hn, by simp, ?_⟩
    intro a ha b hb e
    simp only [List.map_cons, List.map_nil, List.mem_singleton] at hb
    exact hr (hb ▸ e ▸ ha)

end Memento.ArgHash
