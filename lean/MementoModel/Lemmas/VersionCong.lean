import MementoModel.Lemmas.VersionSort

/-! The version of `f` depends on the program only through the bindings of the names of `f`'s closure
(the targets of its rules). -/
namespace Memento.Version

/-- definitions that always get a hash rule -/
def Def.trackable : Def → Bool
  | .memento _ _ _ => true
  | .plain b _ _ => b
  | .var v => v.isSome

def Trackable (P : Prog) : Prop := ∀ n d, lookup P n = some d → d.trackable = true

theorem mkNode_some_of_trackable {P : Prog} (hT : Trackable P) (p r : Name) : ∃ y, mkNode P p r = some y := by
  unfold mkNode
  cases h : lookup P r with
  | none => exact ⟨_, rfl⟩
  | some d =>
    have ht := hT r d h
    cases d with
    | memento e t rs => exact ⟨_, rfl⟩
    | plain b t rs =>
      simp only [Def.trackable] at ht
      subst ht
      exact ⟨_, rfl⟩
    | var v =>
      cases v with
      | none => simp [Def.trackable] at ht
      | some v => exact ⟨_, rfl⟩

theorem mkNode_lookup_congr' {P P' : Prog} {r : Name} (h : lookup P' r = lookup P r) (p : Name) :
    mkNode P' p r = mkNode P p r := by
  unfold mkNode; rw [h]

section cong
variable {P P0 : Prog} {f : Name}

/-- agreement of `P` with `P0` on the targets of `P0`'s rules for `f` -/
def AgreeOn (P P0 : Prog) (f : Name) : Prop := ∀ x ∈ rules P0 id f, lookup P x.target = lookup P0 x.target

theorem agree_root (h : AgreeOn P P0 f) : lookup P f = lookup P0 f :=
  h (rootNode f) ((mem_rules_nodeOK ordOK_id).mpr (Or.inl rfl))

/-- agreement of `P` with `P0` on the references of the functions of `f`'s closure for which **no rule** is made
    (functions of other packages, values of unsupported types): what the symbols watched without a rule (fix F27) are for -/
def WatchAgree (P P0 : Prog) (f : Name) : Prop :=
  ∀ p r, (p = f ∨ (ReachN P0 f p ∧ expands P0 p = true)) → RefersTo P0 p r → mkNode P0 p r = none →
    lookup P r = lookup P0 r

/-- when every definition gets a rule there is nothing to watch -/
theorem watchAgree_of_trackable (hT0 : Trackable P0) : WatchAgree P P0 f := by
  intro p r _ _ hn
  obtain ⟨y, hy⟩ := mkNode_some_of_trackable hT0 p r
  rw [hy] at hn; cases hn

theorem agree_ref (hT0 : WatchAgree P P0 f) (h : AgreeOn P P0 f) {p r : Name}
    (hp : p = f ∨ (ReachN P0 f p ∧ expands P0 p = true)) (href : RefersTo P0 p r) : lookup P r = lookup P0 r := by
  cases hy : mkNode P0 p r with
  | none => exact hT0 p r hp href hy
  | some y =>
    have hmem : y ∈ rules P0 id f := by
      rw [mem_rules_nodeOK ordOK_id]
      have ht := (mkNode_some hy).2
      exact Or.inr ⟨p, hp, ht ▸ href, ht ▸ hy⟩
    have := h y hmem
    rwa [(mkNode_some hy).2] at this

theorem reach_fwd (hT0 : WatchAgree P P0 f) (h : AgreeOn P P0 f) {g : Name} (hr : ReachN P0 f g) :
    ReachN P f g ∧ lookup P g = lookup P0 g := by
  induction hr with
  | @direct g href =>
    refine ⟨ReachN.direct ?_, agree_ref hT0 h (Or.inl rfl) href⟩
    obtain ⟨d, hd, hg⟩ := href
    exact ⟨d, (agree_root h).trans hd, hg⟩
  | @step p g hp he href ih =>
    obtain ⟨ih1, ih2⟩ := ih
    refine ⟨ReachN.step ih1 ?_ ?_, agree_ref hT0 h (Or.inr ⟨hp, he⟩) href⟩
    · unfold expands at he ⊢; rwa [ih2]
    · obtain ⟨d, hd, hg⟩ := href
      exact ⟨d, ih2.trans hd, hg⟩

theorem reach_bwd (hT0 : WatchAgree P P0 f) (h : AgreeOn P P0 f) {g : Name} (hr : ReachN P f g) :
    ReachN P0 f g := by
  induction hr with
  | @direct g href =>
    obtain ⟨d, hd, hg⟩ := href
    exact ReachN.direct ⟨d, (agree_root h).symm.trans hd, hg⟩
  | @step p g hp he href ih =>
    have e := (reach_fwd hT0 h ih).2
    refine ReachN.step ih ?_ ?_
    · unfold expands at he ⊢; rwa [← e]
    · obtain ⟨d, hd, hg⟩ := href
      exact ⟨d, e.symm.trans hd, hg⟩

theorem nodeOK_agree (hT0 : WatchAgree P P0 f) (h : AgreeOn P P0 f) (x : Node) : NodeOK P f x ↔ NodeOK P0 f x := by
  unfold NodeOK
  constructor
  · rintro (h0 | ⟨p, hp, href, hmk⟩)
    · exact Or.inl h0
    · have hp0 : p = f ∨ (ReachN P0 f p ∧ expands P0 p = true) := by
        rcases hp with h1 | ⟨h1, h2⟩
        · exact Or.inl h1
        · have r0 := reach_bwd hT0 h h1
          have e := (reach_fwd hT0 h r0).2
          refine Or.inr ⟨r0, ?_⟩
          unfold expands at h2 ⊢; rwa [← e]
      have elp : lookup P p = lookup P0 p := by
        rcases hp0 with h1 | ⟨h1, _⟩
        · subst h1; exact agree_root h
        · exact (reach_fwd hT0 h h1).2
      have href0 : RefersTo P0 p x.target := by
        obtain ⟨d, hd, hg⟩ := href
        exact ⟨d, elp.symm.trans hd, hg⟩
      refine Or.inr ⟨p, hp0, href0, ?_⟩
      rw [← hmk]
      exact mkNode_lookup_congr' (agree_ref hT0 h hp0 href0).symm p
  · rintro (h0 | ⟨p, hp0, href0, hmk⟩)
    · exact Or.inl h0
    · have elp : lookup P p = lookup P0 p := by
        rcases hp0 with h1 | ⟨h1, _⟩
        · subst h1; exact agree_root h
        · exact (reach_fwd hT0 h h1).2
      have hp : p = f ∨ (ReachN P f p ∧ expands P p = true) := by
        rcases hp0 with h1 | ⟨h1, h2⟩
        · exact Or.inl h1
        · refine Or.inr ⟨(reach_fwd hT0 h h1).1, ?_⟩
          unfold expands at h2 ⊢; rwa [elp]
      refine Or.inr ⟨p, hp, ?_, ?_⟩
      · obtain ⟨d, hd, hg⟩ := href0
        exact ⟨d, elp.trans hd, hg⟩
      · rw [← hmk]
        exact mkNode_lookup_congr' (agree_ref hT0 h hp0 href0) p

/-- **closure determines version**: agreement on the targets of the rules and on the watched references -/
theorem version_congr_watch (H : Ser → List Char) (hT0 : WatchAgree P P0 f) (h : AgreeOn P P0 f) :
    version H P id f = version H P0 id f := by
  have hs : sortedRules P id f = sortedRules P0 id f :=
    sortedRules_congr (fun x => by rw [mem_rules_nodeOK ordOK_id, mem_rules_nodeOK ordOK_id, nodeOK_agree hT0 h])
  unfold version versionInput
  rw [hs]
  rw [filterMap_congr' (f := ruleHash H P) (g := ruleHash H P0)]
  intro x hx
  unfold ruleHash
  rw [h x (mem_sortedRules.mp hx)]

/-- the special case in which every definition gets a rule -/
theorem version_congr_closure (H : Ser → List Char) (hT0 : Trackable P0) (h : AgreeOn P P0 f) :
    version H P id f = version H P0 id f :=
  version_congr_watch H (watchAgree_of_trackable hT0) h

end cong
end Memento.Version
