import MementoModel.Model.Version

/-! Depth-first closure = reachability (soundness, completeness with enough fuel, no duplicates). -/
namespace Memento.Version

inductive Reachable (sc : Node → List Node) (roots : List Node) : Node → Prop
  | root {x} : x ∈ roots → Reachable sc roots x
  | step {x y} : Reachable sc roots x → y ∈ sc x → Reachable sc roots y

theorem Reachable.of_roots {sc : Node → List Node} {roots roots' : List Node}
    (h : ∀ r ∈ roots, Reachable sc roots' r) {z : Node} (hz : Reachable sc roots z) :
    Reachable sc roots' z := by
  induction hz with
  | root hx => exact h _ hx
  | step _ hy ih => exact Reachable.step ih hy

theorem Reachable.mono {sc : Node → List Node} {roots roots' : List Node}
    (h : ∀ r ∈ roots, r ∈ roots') {z : Node} (hz : Reachable sc roots z) : Reachable sc roots' z :=
  Reachable.of_roots (fun r hr => Reachable.root (h r hr)) hz

theorem dropVisited_nil {vis todo : List Node} (h : dropVisited vis todo = []) : ∀ x ∈ todo, x ∈ vis := by
  induction todo with
  | nil => intro x hx; cases hx
  | cons y t ih =>
    unfold dropVisited at h
    by_cases hy : y ∈ vis
    · simp only [hy, if_true] at h
      intro x hx
      rcases List.mem_cons.mp hx with rfl | hx
      · exact hy
      · exact ih h x hx
    · simp [hy] at h

theorem dropVisited_cons {vis todo : List Node} {x : Node} {t : List Node} (h : dropVisited vis todo = x :: t) :
    x ∉ vis ∧ x ∈ todo ∧ (∀ y ∈ t, y ∈ todo) ∧ (∀ y ∈ todo, y ∈ vis ∨ y = x ∨ y ∈ t) := by
  induction todo with
  | nil => simp [dropVisited] at h
  | cons y u ih =>
    unfold dropVisited at h
    by_cases hy : y ∈ vis
    · simp only [hy, if_true] at h
      obtain ⟨h1, h2, h3, h4⟩ := ih h
      refine ⟨h1, List.mem_cons_of_mem _ h2, fun z hz => List.mem_cons_of_mem _ (h3 z hz), ?_⟩
      intro z hz
      rcases List.mem_cons.mp hz with rfl | hz
      · exact Or.inl hy
      · exact h4 z hz
    · simp only [hy, if_false, List.cons.injEq] at h
      obtain ⟨rfl, rfl⟩ := h
      refine ⟨hy, List.mem_cons_self, fun z hz => List.mem_cons_of_mem _ hz, ?_⟩
      intro z hz
      rcases List.mem_cons.mp hz with rfl | hz
      · exact Or.inr (Or.inl rfl)
      · exact Or.inr (Or.inr hz)

theorem closure_sound (sc : Node → List Node) (n : Nat) : ∀ (todo vis : List Node),
    ∀ z ∈ closure sc n todo vis, z ∈ vis ∨ Reachable sc todo z := by
  induction n with
  | zero => intro todo vis z hz; exact Or.inl hz
  | succ n ih =>
    intro todo vis z hz
    unfold closure at hz
    split at hz
    · exact Or.inl hz
    · rename_i x t hd
      obtain ⟨_, hxt, htt, _⟩ := dropVisited_cons hd
      rcases ih _ _ z hz with h | h
      · rcases List.mem_cons.mp h with h | h
        · subst h; exact Or.inr (Reachable.root hxt)
        · exact Or.inl h
      · refine Or.inr (h.of_roots ?_)
        intro r hr
        rcases List.mem_append.mp hr with hr | hr
        · exact Reachable.step (Reachable.root hxt) hr
        · exact Reachable.root (htt r hr)

def Closed (sc : Node → List Node) (todo vis : List Node) : Prop :=
  ∀ x ∈ vis, ∀ y ∈ sc x, y ∈ vis ∨ y ∈ todo

def unvisited (U vis : List Node) : Nat := U.countP (fun u => decide (u ∉ vis))

theorem countP_lt_of {p q : Node → Bool} (hpq : ∀ u, p u = true → q u = true) :
    ∀ U : List Node, (∃ x ∈ U, q x = true ∧ p x = false) → U.countP p < U.countP q := by
  intro U
  induction U with
  | nil => intro ⟨x, hx, _⟩; cases hx
  | cons u U ih =>
    intro ⟨x, hx, hq, hp⟩
    have hle : U.countP p ≤ U.countP q := List.countP_mono_left (fun a _ h => hpq a h)
    rw [List.countP_cons, List.countP_cons]
    rcases List.mem_cons.mp hx with h | h
    · subst h; simp [hq, hp]; omega
    · have := ih ⟨x, h, hq, hp⟩
      by_cases hpu : p u = true
      · simp [hpu, hpq u hpu]; omega
      · by_cases hqu : q u = true
        · simp [hpu, hqu]; omega
        · simp [hpu, hqu]; omega

theorem unvisited_cons_lt (U vis : List Node) (x : Node) (hxU : x ∈ U) (hx : x ∉ vis) :
    unvisited U (x :: vis) < unvisited U vis := by
  unfold unvisited
  apply countP_lt_of
  · intro u hu
    simp only [decide_eq_true_eq] at hu ⊢
    exact fun h => hu (List.mem_cons_of_mem _ h)
  · exact ⟨x, hxU, by simp [hx], by simp⟩

theorem unvisited_zero {U vis : List Node} (h : unvisited U vis = 0) : ∀ x ∈ U, x ∈ vis := by
  intro x hx
  unfold unvisited at h
  by_cases hv : x ∈ vis
  · exact hv
  · have := List.countP_eq_zero.mp h x hx
    simp [hv] at this

theorem closure_complete (sc : Node → List Node) (U : List Node) (hU : ∀ x, ∀ y ∈ sc x, y ∈ U)
    (n : Nat) : ∀ (todo vis : List Node),
    (∀ x ∈ todo, x ∈ U) → unvisited U vis ≤ n → Closed sc todo vis →
    (∀ x ∈ vis, x ∈ closure sc n todo vis) ∧ (∀ x ∈ todo, x ∈ closure sc n todo vis) ∧
      Closed sc [] (closure sc n todo vis) := by
  induction n with
  | zero =>
    intro todo vis htodo hfuel hcl
    have hall := unvisited_zero (Nat.le_zero.mp hfuel)
    refine ⟨fun x hx => hx, fun x hx => hall x (htodo x hx), ?_⟩
    intro x hx y hy
    rcases hcl x hx y hy with h | h
    · exact Or.inl h
    · exact Or.inl (hall y (htodo y h))
  | succ n ih =>
    intro todo vis htodo hfuel hcl
    unfold closure
    split
    · rename_i hd
      have hall := dropVisited_nil hd
      refine ⟨fun x hx => hx, hall, ?_⟩
      intro a ha y hy
      rcases hcl a ha y hy with h | h
      · exact Or.inl h
      · exact Or.inl (hall y h)
    · rename_i x t hd
      obtain ⟨hx, hxt, htt, hcover⟩ := dropVisited_cons hd
      have hxU : x ∈ U := htodo x hxt
      have hlt := unvisited_cons_lt U vis x hxU hx
      have hcl' : Closed sc (sc x ++ t) (x :: vis) := by
        intro a ha y hy
        rcases List.mem_cons.mp ha with h | h
        · subst h; exact Or.inr (List.mem_append_left _ hy)
        · rcases hcl a h y hy with h' | h'
          · exact Or.inl (List.mem_cons_of_mem _ h')
          · rcases hcover y h' with h'' | h'' | h''
            · exact Or.inl (List.mem_cons_of_mem _ h'')
            · subst h''; exact Or.inl List.mem_cons_self
            · exact Or.inr (List.mem_append_right _ h'')
      have htodo' : ∀ a ∈ sc x ++ t, a ∈ U := by
        intro a ha
        rcases List.mem_append.mp ha with h | h
        · exact hU x a h
        · exact htodo a (htt a h)
      obtain ⟨h1, h2, h3⟩ := ih _ _ htodo' (by omega) hcl'
      refine ⟨fun a ha => h1 a (List.mem_cons_of_mem _ ha), ?_, h3⟩
      intro a ha
      rcases hcover a ha with h | h | h
      · exact h1 a (List.mem_cons_of_mem _ h)
      · subst h; exact h1 _ List.mem_cons_self
      · exact h2 a (List.mem_append_right _ h)

theorem closure_nodup (sc : Node → List Node) (n : Nat) : ∀ (todo vis : List Node), vis.Nodup →
    (closure sc n todo vis).Nodup := by
  induction n with
  | zero => intro todo vis h; exact h
  | succ n ih =>
    intro todo vis h
    unfold closure
    split
    · exact h
    · rename_i x t hd
      exact ih _ _ (List.nodup_cons.mpr ⟨(dropVisited_cons hd).1, h⟩)

/-- a set closed under `sc` that contains the roots contains everything reachable -/
theorem reachable_in_closed {sc : Node → List Node} {roots r : List Node} (hroots : ∀ x ∈ roots, x ∈ r)
    (hcl : Closed sc [] r) {z : Node} (hz : Reachable sc roots z) : z ∈ r := by
  induction hz with
  | root hx => exact hroots _ hx
  | step _ hy ih =>
    rcases hcl _ ih _ hy with h | h
    · exact h
    · cases h

end Memento.Version
