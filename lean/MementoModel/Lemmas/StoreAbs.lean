import MementoModel.Lemmas.StoreDS

/-! The abstraction function of the filesystem backend, and how the store-changing steps
    (`memoize`, `wmeta`, the forgets) act on it. Pure `DS`-level facts (no cache). -/
set_option linter.unusedSimpArgs false
set_option linter.unusedVariables false
namespace Memento.Store
open Memento

namespace FsBackend

def entryOf (d : DS) (k : K) : Option ((Fn × Arg) × Entry) :=
  match k with
  | .memento fn arg =>
    match readMemento d fn arg with
    | some (m, ck) => some ((fn, arg), ⟨m, (loadResult d ck).getD none⟩)
    | none => none
  | _ => none

def mdataOf (d : DS) (k : K) : Option ((Fn × Arg × MKey) × Bytes) :=
  match k with
  | .mdat fn arg k false =>
    match d.inputNV (.mdat fn arg k false) with
    | some (.raw b) => some ((fn, arg, k), b)
    | _ => none
  | _ => none

def absDS (d : DS) : Spec :=
  { entries := d.links.filterMap (fun p => entryOf d p.1),
    mdata := d.links.filterMap (fun p => mdataOf d p.1) }

theorem abs_eq (s : FsBackend) : abs s = absDS s.ds := rfl

theorem entryOf_memento (d : DS) (fn : Fn) (arg : Arg) :
    entryOf d (.memento fn arg) = (storeEntry d fn arg).map (fun x => ((fn, arg), ⟨x.1, x.2.2⟩)) := by
  show (match readMemento d fn arg with
    | some (m, ck) => some ((fn, arg), (⟨m, (loadResult d ck).getD none⟩ : Entry))
    | none => none) = _
  unfold storeEntry
  cases readMemento d fn arg with
  | none => rfl
  | some p => obtain ⟨m, ck⟩ := p; rfl

theorem entryOf_key {d : DS} {k : K} {q} (h : entryOf d k = some q) : k = .memento q.1.1 q.1.2 := by
  cases k with
  | memento fn arg =>
    rw [entryOf_memento] at h
    cases hs : storeEntry d fn arg with
    | none => rw [hs] at h; cases h
    | some x => rw [hs] at h; cases h; rfl
  | _ => cases h

theorem entryOf_nonmeta {d : DS} {k : K} (h : k.isMetaArea = false) : entryOf d k = none := by
  cases k <;> first | rfl | cases h

theorem entryOf_mdat (d : DS) (fn arg mk wd) : entryOf d (.mdat fn arg mk wd) = none := rfl

theorem mdataOf_key {d : DS} {k : K} {q} (h : mdataOf d k = some q) : k = .mdat q.1.1 q.1.2.1 q.1.2.2 false := by
  cases k with
  | mdat fn arg mk wd =>
    cases wd with
    | true => cases h
    | false =>
      simp only [mdataOf] at h
      split at h
      · cases h; rfl
      · cases h
  | _ => cases h

theorem mdataOf_nonmeta {d : DS} {k : K} (h : k.isMetaArea = false) : mdataOf d k = none := by
  cases k <;> first | rfl | cases h

theorem mdataOf_memento (d : DS) (fn arg) : mdataOf d (.memento fn arg) = none := rfl

theorem mdataOf_mdat (d : DS) (fn arg mk) :
    mdataOf d (.mdat fn arg mk false) =
      match d.inputNV (.mdat fn arg mk false) with
      | some (.raw b) => some ((fn, arg, mk), b)
      | _ => none := rfl

/-! ### lookups in the abstraction -/

theorem alookup_abs_entries (d : DS) (fn : Fn) (arg : Arg) :
    alookup (absDS d).entries (fn, arg) = (storeEntry d fn arg).map (fun x => ⟨x.1, x.2.2⟩) := by
  have := alookup_filterMap_key d.links (entryOf d) (.memento fn arg) (fn, arg)
    (by
      intro a' q hq
      have := entryOf_key hq
      constructor
      · intro e; rw [this, e]
      · intro e; rw [e] at this; cases this; rfl)
    (by
      intro hno
      rw [entryOf_memento]
      have : alookup d.links (.memento fn arg) = none := alookup_none_of_not_mem hno
      simp [storeEntry, readMemento_none_of_link this])
  rw [show (absDS d).entries = d.links.filterMap (fun p => entryOf d p.1) from rfl, this, entryOf_memento]
  cases storeEntry d fn arg <;> rfl

theorem alookup_abs_mdata (d : DS) (fn : Fn) (arg : Arg) (mk : MKey) :
    alookup (absDS d).mdata (fn, arg, mk) =
      match d.inputNV (.mdat fn arg mk false) with
      | some (.raw b) => some b
      | _ => none := by
  have := alookup_filterMap_key d.links (mdataOf d) (.mdat fn arg mk false) (fn, arg, mk)
    (by
      intro a' q hq
      have := mdataOf_key hq
      constructor
      · intro e; rw [this, e]
      · intro e; rw [e] at this; cases this; rfl)
    (by
      intro hno
      have : alookup d.links (.mdat fn arg mk false) = none := alookup_none_of_not_mem hno
      simp [mdataOf_mdat, DS.inputNV, this])
  rw [show (absDS d).mdata = d.links.filterMap (fun p => mdataOf d p.1) from rfl, this, mdataOf_mdat]
  split <;> simp_all

/-! ### frames -/

theorem entryOf_frame {d d' : DS} (h : DSWF d) (k : K)
    (hl : alookup d'.links k = alookup d.links k) (ho : ObjsExt d d') : entryOf d' k = entryOf d k := by
  cases k with
  | memento fn arg => rw [entryOf_memento, entryOf_memento, storeEntry_frame h fn arg hl ho]
  | _ => rfl

theorem mdataOf_frame {d d' : DS} (h : DSWF d) (k : K)
    (hl : alookup d'.links k = alookup d.links k) (ho : ObjsExt d d') : mdataOf d' k = mdataOf d k := by
  cases k with
  | mdat fn arg mk wd =>
    cases wd with
    | true => rfl
    | false =>
      rw [mdataOf_mdat, mdataOf_mdat]
      unfold DS.inputNV
      rw [hl]
      cases hlk : alookup d.links (.mdat fn arg mk false) with
      | none => rfl
      | some v =>
        obtain ⟨b, hb⟩ := h.metaOk fn arg mk v hlk
        simp only [hb, ho _ _ hb]
  | _ => rfl

/-! ### `output` -/

theorem inputNV_output (d : DS) (k : K) (c : Content) (k' : K) :
    (d.output k c).1.inputNV k' = if k' = k then some c else d.inputNV k' := by
  unfold DS.inputNV
  rw [DS.alookup_links_output]
  by_cases e : k' = k
  · subst e; simp [DS.alookup_objs_output]
  · rw [if_neg e, if_neg e]
    cases alookup d.links k' with
    | none => rfl
    | some v =>
      simp only
      rw [DS.alookup_objs_output, if_neg]
      intro e2; cases e2; exact e rfl

theorem readMemento_output (d : DS) (k : K) (c : Content) (fn : Fn) (arg : Arg) :
    readMemento (d.output k c).1 fn arg =
      if K.memento fn arg = k then (match c with | .mrec m ck => some (m, ck) | _ => none)
      else readMemento d fn arg := by
  unfold readMemento
  rw [inputNV_output]
  by_cases e : K.memento fn arg = k
  · rw [if_pos e, if_pos e]; cases c <;> rfl
  · rw [if_neg e, if_neg e]

/-! ### deletion -/

theorem inputNV_deleteWhere (d : DS) (sel : K → Bool) (k : K) :
    (d.deleteWhere sel).inputNV k = if sel k then none else d.inputNV k := by
  unfold DS.inputNV
  rw [DS.alookup_links_deleteWhere]
  cases hs : sel k with
  | true => simp
  | false =>
    simp only [Bool.false_eq_true, if_false]
    cases alookup d.links k with
    | none => rfl
    | some v => simp only [DS.alookup_objs_deleteWhere, hs, Bool.false_eq_true, if_false]

theorem readMemento_deleteWhere (d : DS) (sel : K → Bool) (fn : Fn) (arg : Arg) :
    readMemento (d.deleteWhere sel) fn arg = if sel (.memento fn arg) then none else readMemento d fn arg := by
  unfold readMemento
  rw [inputNV_deleteWhere]
  cases sel (.memento fn arg) <;> rfl

theorem storeEntry_deleteWhere {d : DS} (h : DSWF d) (sel : K → Bool)
    (h2 : (∀ k, sel k = true → k.isMetaArea = true) ∨ (∀ k, sel k = true)) (fn : Fn) (arg : Arg) :
    storeEntry (d.deleteWhere sel) fn arg = if sel (.memento fn arg) then none else storeEntry d fn arg := by
  unfold storeEntry
  rw [readMemento_deleteWhere]
  cases hs : sel (.memento fn arg) with
  | true => simp
  | false =>
    simp only [Bool.false_eq_true, if_false]
    cases hr : readMemento d fn arg with
    | none => rfl
    | some p =>
      obtain ⟨m, ck⟩ := p
      simp only
      have hck := DSWF.ckOk_of_read h hr
      rcases hck with rfl | ⟨k, ver, b, rfl, hk, hb⟩
      · rfl
      · have : sel k = false := by
          rcases h2 with h2 | h2
          · cases hsk : sel k with
            | false => rfl
            | true => have := h2 k hsk; rw [hk] at this; cases this
          · have := h2 (.memento fn arg); rw [hs] at this; cases this
        simp only [loadResult, DS.inputV, DS.alookup_objs_deleteWhere, this, Bool.false_eq_true, if_false]

theorem entryOf_deleteWhere {d : DS} (h : DSWF d) (sel : K → Bool)
    (h2 : (∀ k, sel k = true → k.isMetaArea = true) ∨ (∀ k, sel k = true)) (k : K) (hk : sel k = false) :
    entryOf (d.deleteWhere sel) k = entryOf d k := by
  cases k with
  | memento fn arg =>
    rw [entryOf_memento, entryOf_memento, storeEntry_deleteWhere h sel h2, hk]; rfl
  | _ => rfl

theorem mdataOf_deleteWhere (d : DS) (sel : K → Bool) (k : K) (hk : sel k = false) :
    mdataOf (d.deleteWhere sel) k = mdataOf d k := by
  cases k with
  | mdat fn arg mk wd =>
    cases wd with
    | true => rfl
    | false => rw [mdataOf_mdat, mdataOf_mdat, inputNV_deleteWhere, hk]; rfl
  | _ => rfl

/-! ### the data step of `memoize` (`codec.store`) -/

/-- what a write to the data area (content / override keys) does -/
structure DataStep (d d1 : DS) : Prop where
  wf : DSWF d1
  ext : ObjsExt d d1
  metaLinks : ∀ k, k.isMetaArea = true → alookup d1.links k = alookup d.links k
  linksFM : ∀ {γ : Type} (F : K → Option γ), (∀ k, k.isMetaArea = false → F k = none) →
      d1.links.filterMap (fun p => F p.1) = d.links.filterMap (fun p => F p.1)

theorem DataStep.refl {d : DS} (h : DSWF d) : DataStep d d :=
  ⟨h, ObjsExt.refl d, fun _ _ => rfl, fun _ _ => rfl⟩

theorem filterMap_filter_nekey {γ : Type} (l : List (K × Ver)) (F : K → Option γ) (ko : K) (hF : F ko = none) :
    (l.filter (fun p => nekey ko p.1)).filterMap (fun p => F p.1) = l.filterMap (fun p => F p.1) := by
  apply filterMap_filter_of_none
  intro p _ hp
  have : p.1 = ko := by
    by_cases e : p.1 = ko
    · exact e
    · have := (nekey_iff ko p.1).mpr e; rw [this] at hp; cases hp
  rw [this]; exact hF

theorem DataStep.deleteLink {d : DS} (h : DSWF d) (o : Nat) : DataStep d (d.deleteLink (.override o)) := by
  refine ⟨h.deleteLink_override o, ObjsExt.deleteLink d _, ?_, ?_⟩
  · intro k hk
    rw [DS.alookup_links_deleteLink, if_neg]
    intro e; rw [e] at hk; cases hk
  · intro γ F hF
    exact filterMap_filter_nekey d.links F (.override o) (hF _ rfl)

theorem DataStep.output {d : DS} (h : DSWF d) (ko : K) (b : Bytes) (hko : ko.isMetaArea = false)
    (hcontent : ∀ hh, ko = .content hh → hh = b ∧ ∀ v, alookup d.objs (.content hh, v) = none)
    (hb : b + 1 < 1000000) : DataStep d (d.output ko (.blob b)).1 := by
  refine ⟨?_, ObjsExt.output h _ _, ?_, ?_⟩
  · apply h.output
    · intro fn arg e; rw [e] at hko; cases hko
    · intro fn arg mk wd e; rw [e] at hko; cases hko
    · intro hh e
      obtain ⟨rfl, hv⟩ := hcontent hh e
      exact ⟨rfl, hv⟩
    · intro b' e; cases e; exact hb
  · intro k hk
    rw [DS.alookup_links_output, if_neg]
    intro e; rw [e, hko] at hk; cases hk
  · intro γ F hF
    show (aset d.links ko d.next).filterMap (fun p => F p.1) = _
    rw [filterMap_aset, hF ko hko]
    exact filterMap_filter_nekey d.links F ko (hF ko hko)

theorem codecStore_post {d : DS} (h : DSWF d) (ov : Option Nat) (val : Option Bytes)
    (hval : ∀ b, val = some b → b + 1 < 1000000) :
    DataStep d (codecStore d ov val).1 ∧ CkOk (codecStore d ov val).1 (codecStore d ov val).2 ∧
      loadResult (codecStore d ov val).1 (codecStore d ov val).2 = some val := by
  cases val with
  | none =>
    cases ov with
    | none => exact ⟨DataStep.refl h, Or.inl rfl, rfl⟩
    | some o => exact ⟨DataStep.deleteLink h o, Or.inl rfl, rfl⟩
  | some b =>
    have hb := hval b rfl
    cases ov with
    | some o =>
      refine ⟨DataStep.output h (.override o) b rfl (by intro hh e; cases e) hb, ?_, ?_⟩
      · exact Or.inr ⟨.override o, d.next, b, rfl, rfl, by
          show alookup (d.output (.override o) (.blob b)).1.objs _ = _
          rw [DS.alookup_objs_output]; simp⟩
      · show loadResult (d.output (.override o) (.blob b)).1 (some (.override o, d.next)) = _
        simp [loadResult, DS.inputV, DS.alookup_objs_output]
    | none =>
      simp only [codecStore]
      cases hex : d.existsNV (.content b) with
      | true =>
        simp only [if_true]
        unfold DS.existsNV at hex
        unfold DS.getVersioned
        cases hl : alookup d.links (.content b) with
        | none => rw [hl] at hex; cases hex
        | some v =>
          rw [hl] at hex
          simp only at hex ⊢
          cases ho : alookup d.objs (.content b, v) with
          | none => rw [ho] at hex; cases hex
          | some c =>
            have := h.contentOk b v c ho
            subst this
            exact ⟨DataStep.refl h, Or.inr ⟨.content b, v, b, rfl, rfl, ho⟩,
              by simp [loadResult, DS.inputV, ho]⟩
      | false =>
        simp only [Bool.false_eq_true, if_false]
        have hnone : ∀ v, alookup d.objs (.content b, v) = none := by
          intro v
          cases ho : alookup d.objs (.content b, v) with
          | none => rfl
          | some c =>
            have hl := h.contentLinked b v (by rw [ho]; rfl)
            unfold DS.existsNV at hex
            rw [hl] at hex
            simp only [ho] at hex
            cases hex
        refine ⟨DataStep.output h (.content b) b rfl (by intro hh e; cases e; exact ⟨rfl, hnone⟩) hb, ?_, ?_⟩
        · exact Or.inr ⟨.content b, d.next, b, rfl, rfl, by
            show alookup (d.output (.content b) (.blob b)).1.objs _ = _
            rw [DS.alookup_objs_output]; simp⟩
        · show loadResult (d.output (.content b) (.blob b)).1 (some (.content b, d.next)) = _
          simp [loadResult, DS.inputV, DS.alookup_objs_output]

/-- the store after `memoize fn arg` -/
theorem memoize_ds {d d1 : DS} {ck} (h : DSWF d) (fn : Fn) (arg : Arg) (ov : Option Nat) (mem : Nat)
    (val : Option Bytes) (hval : ∀ b, val = some b → b + 1 < 1000000)
    (hc : codecStore d ov val = (d1, ck)) :
    DSWF (d1.output (.memento fn arg) (.mrec mem ck)).1 ∧
    (∀ fn' arg', readMemento (d1.output (.memento fn arg) (.mrec mem ck)).1 fn' arg' =
      if (fn', arg') = (fn, arg) then some (mem, ck) else readMemento d fn' arg') ∧
    (∀ fn' arg', storeEntry (d1.output (.memento fn arg) (.mrec mem ck)).1 fn' arg' =
      if (fn', arg') = (fn, arg) then some (mem, ck, val) else storeEntry d fn' arg') ∧
    absDS (d1.output (.memento fn arg) (.mrec mem ck)).1 =
      ⟨aset (absDS d).entries (fn, arg) ⟨mem, val⟩, (absDS d).mdata⟩ := by
  obtain ⟨hstep, hck, hload⟩ := codecStore_post h ov val hval
  rw [hc] at hstep hck hload
  simp only at hstep hck hload
  generalize hd2 : (d1.output (.memento fn arg) (.mrec mem ck)).1 = d2
  have ext2 : ObjsExt d1 d2 := hd2 ▸ ObjsExt.output hstep.wf _ _
  have ext : ObjsExt d d2 := hstep.ext.trans ext2
  have hlinks : ∀ k, k ≠ K.memento fn arg → k.isMetaArea = true → alookup d2.links k = alookup d.links k := by
    intro k hk hm
    rw [← hd2, DS.alookup_links_output, if_neg hk, hstep.metaLinks k hm]
  have hwf : DSWF d2 := by
    rw [← hd2]
    apply hstep.wf.output
    · intro fn' arg' e; exact ⟨mem, ck, rfl, hck⟩
    · intro fn' arg' mk wd e; cases e
    · intro hh e; cases e
    · intro b e; cases e
  have hread : ∀ fn' arg', readMemento d2 fn' arg' =
      if (fn', arg') = (fn, arg) then some (mem, ck) else readMemento d fn' arg' := by
    intro fn' arg'
    rw [← hd2, readMemento_output]
    by_cases e : (fn', arg') = (fn, arg)
    · cases e; simp
    · have e' : ¬ K.memento fn' arg' = K.memento fn arg := by intro x; cases x; exact e rfl
      rw [if_neg e, if_neg e']
      exact readMemento_frame h fn' arg' (hstep.metaLinks _ rfl) hstep.ext
  have hstore : ∀ fn' arg', storeEntry d2 fn' arg' =
      if (fn', arg') = (fn, arg) then some (mem, ck, val) else storeEntry d fn' arg' := by
    intro fn' arg'
    by_cases e : (fn', arg') = (fn, arg)
    · rw [if_pos e]
      apply storeEntry_eq_some.mpr
      refine ⟨by rw [hread, if_pos e], ?_⟩
      rw [(loadResult_frame hck ext2).1, hload]; rfl
    · rw [if_neg e]
      have e' : K.memento fn' arg' ≠ K.memento fn arg := by intro x; cases x; exact e rfl
      exact storeEntry_frame h fn' arg' (hlinks _ e' rfl) ext
  refine ⟨hwf, hread, hstore, ?_⟩
  have hd2l : d2.links = aset d1.links (.memento fn arg) d1.next := by rw [← hd2]; rfl
  have hEntry : ∀ k, k ≠ K.memento fn arg → entryOf d2 k = entryOf d k := by
    intro k hk
    cases hm : k.isMetaArea with
    | true => exact entryOf_frame h k (hlinks k hk hm) ext
    | false => rw [entryOf_nonmeta hm, entryOf_nonmeta hm]
  have hMdata : ∀ k, mdataOf d2 k = mdataOf d k := by
    intro k
    by_cases hk : k = K.memento fn arg
    · rw [hk]; rfl
    · cases hm : k.isMetaArea with
      | true => exact mdataOf_frame h k (hlinks k hk hm) ext
      | false => rw [mdataOf_nonmeta hm, mdataOf_nonmeta hm]
  unfold absDS
  rw [hd2l]
  congr 1
  · have he : entryOf d2 (.memento fn arg) = some ((fn, arg), ⟨mem, val⟩) := by
      rw [entryOf_memento, hstore fn arg, if_pos rfl]; rfl
    rw [filterMap_aset, aset_eq, he]
    simp only [List.singleton_append]
    congr 1
    rw [filterMap_filter_ite,
      hstep.linksFM (fun k => if nekey (K.memento fn arg) k = true then entryOf d2 k else none)
        (by intro k hk; simp [entryOf_nonmeta hk]), ← filterMap_filter_ite]
    rw [filter_filterMap_key d.links (entryOf d) (nekey (fn, arg)) (nekey (K.memento fn arg)) (by
      intro p _ q hq
      have := entryOf_key hq
      apply nekey_congr
      constructor
      · intro e; rw [this, e]
      · intro e; rw [e] at this; cases this; rfl)]
    apply filterMap_congr'
    intro p hp
    exact hEntry p.1 ((nekey_iff _ _).mp (List.mem_filter.mp hp).2)
  · rw [filterMap_aset, mdataOf_memento]
    simp only [List.nil_append]
    rw [filterMap_filter_nekey _ _ _ (mdataOf_memento d2 fn arg),
      hstep.linksFM (mdataOf d2) (fun k hk => mdataOf_nonmeta hk)]
    apply filterMap_congr'
    intro p _
    exact hMdata p.1

/-- the store after `wmeta fn arg mk b` (on a memoized call) -/
theorem wmeta_ds {d : DS} (h : DSWF d) (fn : Fn) (arg : Arg) (mk : MKey) (b : Bytes)
    (hadm : (readMemento d fn arg).isSome) :
    DSWF (d.output (.mdat fn arg mk false) (.raw b)).1 ∧
    (∀ fn' arg', readMemento (d.output (.mdat fn arg mk false) (.raw b)).1 fn' arg' = readMemento d fn' arg') ∧
    (∀ fn' arg', storeEntry (d.output (.mdat fn arg mk false) (.raw b)).1 fn' arg' = storeEntry d fn' arg') ∧
    absDS (d.output (.mdat fn arg mk false) (.raw b)).1 =
      ⟨(absDS d).entries, aset (absDS d).mdata (fn, arg, mk) b⟩ := by
  generalize hd2 : (d.output (.mdat fn arg mk false) (.raw b)).1 = d2
  have ext : ObjsExt d d2 := hd2 ▸ ObjsExt.output h _ _
  have hlinks : ∀ k, k ≠ K.mdat fn arg mk false → alookup d2.links k = alookup d.links k := by
    intro k hk
    rw [← hd2, DS.alookup_links_output, if_neg hk]
  have hlinked : (alookup d.links (.memento fn arg)).isSome := by
    cases hr : readMemento d fn arg with
    | none => rw [hr] at hadm; cases hadm
    | some p =>
      obtain ⟨v, hl, _⟩ := (readMemento_eq d fn arg p.1 p.2).mp hr
      rw [hl]; rfl
  have hwf : DSWF d2 := by
    rw [← hd2]
    apply h.output
    · intro fn' arg' e; cases e
    · intro fn' arg' mk' wd e; cases e; exact ⟨fun _ => ⟨b, rfl⟩, hlinked⟩
    · intro hh e; cases e
    · intro b' e; cases e
  have hread : ∀ fn' arg', readMemento d2 fn' arg' = readMemento d fn' arg' := by
    intro fn' arg'
    rw [← hd2, readMemento_output, if_neg (by intro e; cases e)]
  have hstore : ∀ fn' arg', storeEntry d2 fn' arg' = storeEntry d fn' arg' :=
    fun fn' arg' => storeEntry_frame h fn' arg' (hlinks _ (by intro e; cases e)) ext
  refine ⟨hwf, hread, hstore, ?_⟩
  have hd2l : d2.links = aset d.links (.mdat fn arg mk false) d.next := by rw [← hd2]; rfl
  have hEntry : ∀ k, entryOf d2 k = entryOf d k := by
    intro k
    by_cases hk : k = K.mdat fn arg mk false
    · rw [hk]; rfl
    · exact entryOf_frame h k (hlinks k hk) ext
  unfold absDS
  rw [hd2l]
  congr 1
  · rw [filterMap_aset, entryOf_mdat]
    simp only [List.nil_append]
    rw [filterMap_filter_nekey _ _ _ (entryOf_mdat d2 fn arg mk false)]
    apply filterMap_congr'
    intro p _
    exact hEntry p.1
  · have he : mdataOf d2 (.mdat fn arg mk false) = some ((fn, arg, mk), b) := by
      rw [mdataOf_mdat, ← hd2, inputNV_output, if_pos rfl]
    rw [filterMap_aset, aset_eq, he]
    simp only [List.singleton_append]
    congr 1
    rw [filter_filterMap_key d.links (mdataOf d) (nekey (fn, arg, mk)) (nekey (K.mdat fn arg mk false)) (by
      intro p _ q hq
      have := mdataOf_key hq
      apply nekey_congr
      constructor
      · intro e; rw [this, e]
      · intro e; rw [e] at this; cases this; rfl)]
    apply filterMap_congr'
    intro p hp
    exact mdataOf_frame h p.1 (hlinks _ ((nekey_iff _ _).mp (List.mem_filter.mp hp).2)) ext

/-- the abstraction after a deletion -/
theorem abs_deleteWhere {d : DS} (h : DSWF d) (sel : K → Bool)
    (h2 : (∀ k, sel k = true → k.isMetaArea = true) ∨ (∀ k, sel k = true)) :
    absDS (d.deleteWhere sel) =
      ⟨(absDS d).entries.filter (fun q => (fun c : Fn × Arg => !sel (.memento c.1 c.2)) q.1),
       (absDS d).mdata.filter (fun q => (fun c : Fn × Arg × MKey => !sel (.mdat c.1 c.2.1 c.2.2 false)) q.1)⟩ := by
  unfold absDS
  have hl : (d.deleteWhere sel).links = d.links.filter (fun p => (fun k => !sel k) p.1) := rfl
  rw [hl]
  congr 1
  · rw [filter_filterMap_key d.links (entryOf d) (fun c : Fn × Arg => !sel (.memento c.1 c.2)) (fun k => !sel k) (by
      intro p _ q hq
      have := entryOf_key hq
      simp only [this])]
    apply filterMap_congr'
    intro p hp
    have := (List.mem_filter.mp hp).2
    exact entryOf_deleteWhere h sel h2 p.1 (by simpa using this)
  · rw [filter_filterMap_key d.links (mdataOf d) (fun c : Fn × Arg × MKey => !sel (.mdat c.1 c.2.1 c.2.2 false))
      (fun k => !sel k) (by
      intro p _ q hq
      have := mdataOf_key hq
      simp only [this])]
    apply filterMap_congr'
    intro p hp
    have := (List.mem_filter.mp hp).2
    exact mdataOf_deleteWhere d sel p.1 (by simpa using this)

/-! ### listings -/

theorem lsf_eq {d : DS} (h : DSWF d) :
    sortDedup (d.links.filterMap (fun p => p.1.fn?)) = sortDedup ((absDS d).entries.map (·.1.1)) := by
  apply sortDedup_congr
  intro x
  have key : ∀ a, (alookup d.links (.memento x a)).isSome → x ∈ (absDS d).entries.map (·.1.1) := by
    intro a hl
    cases hlk : alookup d.links (.memento x a) with
    | none => rw [hlk] at hl; cases hl
    | some v =>
      obtain ⟨m, ck, hr, _⟩ := DSWF.readMemento_of_link h hlk
      apply List.mem_map.mpr
      refine ⟨((x, a), ⟨m, (loadResult d ck).getD none⟩), ?_, rfl⟩
      apply List.mem_filterMap.mpr
      refine ⟨(.memento x a, v), alookup_mem hlk, ?_⟩
      simp only [entryOf, hr]
  constructor
  · intro hx
    obtain ⟨p, hp, hpf⟩ := List.mem_filterMap.mp hx
    obtain ⟨v, hv⟩ := alookup_isSome_of_mem hp
    cases hk : p.1 with
    | memento f a =>
      rw [hk] at hpf hv; cases hpf
      exact key a (by rw [hv]; rfl)
    | mdat f a mk wd =>
      rw [hk] at hpf hv; cases hpf
      exact key a (h.metaHasMemento x a mk wd v hv)
    | content b => rw [hk] at hpf; cases hpf
    | override o => rw [hk] at hpf; cases hpf
  · intro hx
    obtain ⟨q, hq, rfl⟩ := List.mem_map.mp hx
    obtain ⟨p, hp, hpe⟩ := List.mem_filterMap.mp hq
    apply List.mem_filterMap.mpr
    refine ⟨p, hp, ?_⟩
    rw [entryOf_key hpe]; rfl

theorem lsm_eq (d : DS) (fn : Fn) (l : List (K × Ver)) :
    l.filterMap (fun p => match p.1 with
      | .memento f a => if f = fn then (readMemento d f a).map (·.1) else none
      | _ => none)
    = ((l.filterMap (fun p => entryOf d p.1)).filter (fun p => p.1.1 == fn)).map (·.2.mem) := by
  induction l with
  | nil => rfl
  | cons p l ih =>
    rw [List.filterMap_cons, List.filterMap_cons, ih]
    cases hk : p.1 with
    | memento f a =>
      simp only [entryOf]
      cases hr : readMemento d f a with
      | none => simp
      | some x =>
        obtain ⟨m, ck⟩ := x
        by_cases e : f = fn
        · simp [e, List.filter_cons]
        · simp [e, List.filter_cons]
    | mdat f a mk wd => simp [entryOf]
    | content b => simp [entryOf]
    | override o => simp [entryOf]

end FsBackend

end Memento.Store
