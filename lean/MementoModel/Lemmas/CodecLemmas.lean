import MementoModel.Model.Codec
import Std.Data.String.ToInt
/-!
  Helper lemmas for Props/C11.lean (the JSON metadata codec, Model/Codec.lean).
  `Std.Data.String.ToInt` (part of the Lean distribution, not Mathlib) supplies `Int.toInt?_repr`.
-/
namespace Memento.Codec
open Memento.Json Memento.ArgHash

/-! ## datetime text -/


theorem replZ_of_noPlus : ∀ cs : List Char, '+' ∉ cs → replZ cs = cs
  | [], _ => by simp [replZ]
  | c :: cs, h => by
    have hc : c ≠ '+' := by intro e; subst e; simp at h
    have ih := replZ_of_noPlus cs (by intro h'; exact h (List.mem_cons_of_mem _ h'))
    rw [replZ.eq_2]
    · rw [ih]
    · intro rest e _; exact hc e

theorem replZ_append_of_noPlus : ∀ (body rest : List Char), '+' ∉ body → replZ (body ++ rest) = body ++ replZ rest
  | [], rest, _ => by simp
  | c :: cs, rest, h => by
    have hc : c ≠ '+' := by intro e; subst e; simp at h
    have ih := replZ_append_of_noPlus cs rest (by intro h'; exact h (List.mem_cons_of_mem _ h'))
    rw [List.cons_append, replZ.eq_2]
    · rw [ih]; rfl
    · intro r e _; exact hc e

theorem bodyChar_ne_plus {c : Char} (h : bodyChar c = true) : c ≠ '+' := by
  intro e; subst e; revert h; decide

theorem bodyChar_ne_Z {c : Char} (h : bodyChar c = true) : c ≠ 'Z' := by
  intro e; subst e; revert h; decide

theorem noPlus_of_body {l : List Char} (h : l.all bodyChar = true) : '+' ∉ l := by
  intro hm
  exact bodyChar_ne_plus (List.all_eq_true.mp h _ hm) rfl

theorem noZ_of_body {l : List Char} (h : l.all bodyChar = true) : 'Z' ∉ l := by
  intro hm
  exact bodyChar_ne_Z (List.all_eq_true.mp h _ hm) rfl

theorem digit_ne_plus {c : Char} (h : c.isDigit = true) : c ≠ '+' := by
  intro e; subst e; revert h; decide

theorem digit_ne_Z {c : Char} (h : c.isDigit = true) : c ≠ 'Z' := by
  intro e; subst e; revert h; decide

/-- the zone suffix: `+00:00` becomes `Z`, every other `±hh:mm` stays -/
theorem replZ_tz {tz : List Char} (h : tzShape tz = true) :
    (tz = plus00 ∧ replZ tz = ['Z']) ∨ (replZ tz = tz ∧ 'Z' ∉ tz ∧ tz ≠ []) := by
  unfold tzShape at h
  split at h
  next s a b c d =>
    simp only [Bool.and_eq_true, Bool.or_eq_true, beq_iff_eq] at h
    obtain ⟨⟨⟨⟨hs, ha⟩, hb⟩, hc⟩, hd⟩ := h
    have hnz : 'Z' ∉ [s, a, b, ':', c, d] := by
      simp only [List.mem_cons, List.not_mem_nil, or_false, not_or]
      refine ⟨?_, Ne.symm (digit_ne_Z ha), Ne.symm (digit_ne_Z hb), by decide, Ne.symm (digit_ne_Z hc), Ne.symm (digit_ne_Z hd)⟩
      rcases hs with rfl | rfl <;> decide
    have hrest : '+' ∉ [a, b, ':', c, d] := by
      simp only [List.mem_cons, List.not_mem_nil, or_false, not_or]
      exact ⟨Ne.symm (digit_ne_plus ha), Ne.symm (digit_ne_plus hb), by decide, Ne.symm (digit_ne_plus hc), Ne.symm (digit_ne_plus hd)⟩
    by_cases hz : [s, a, b, ':', c, d] = plus00
    · left; exact ⟨hz, by rw [hz]; rfl⟩
    · right
      refine ⟨?_, hnz, by simp⟩
      rw [replZ.eq_2, replZ_of_noPlus _ hrest]
      intro rest hs' hl
      apply hz
      subst hs'
      simp only [List.cons.injEq] at hl
      obtain ⟨rfl, rfl, _, rfl, rfl, _⟩ := hl
      rfl
  next => simp at h



theorem unZ_append_Z (b : List Char) : unZ (b ++ ['Z']) = b ++ plus00 := by
  simp [unZ]

theorem unZ_of_noZ {cs : List Char} (h : 'Z' ∉ cs) : unZ cs = cs := by
  unfold unZ
  split
  next hl => exact absurd (List.mem_of_getLast? hl) h
  next => rfl

theorem isDateOnly_chars {l : List Char} (h : isDateOnly l = true) : ∀ c ∈ l, c.isDigit = true ∨ c = '-' := by
  unfold isDateOnly at h
  split at h
  next a b c d e f g i =>
    simp only [Bool.and_eq_true] at h
    obtain ⟨⟨⟨⟨⟨⟨⟨ha, hb⟩, hc⟩, hd⟩, he⟩, hf⟩, hg⟩, hi⟩ := h
    intro x hx
    simp only [List.mem_cons, List.not_mem_nil, or_false] at hx
    rcases hx with rfl | rfl | rfl | rfl | rfl | rfl | rfl | rfl | rfl | rfl <;> simp [*]
  next => simp at h

theorem not_dateOnly_of_T {l : List Char} (h : 'T' ∈ l) : isDateOnly l = false := by
  cases hd : isDateOnly l with
  | false => rfl
  | true =>
    rcases isDateOnly_chars hd 'T' h with h' | h'
    · revert h'; decide
    · revert h'; decide

/-- a well-shaped `datetime.isoformat()` text survives `encode_datetime` / `decode_datetime` -/
theorem datetime_chars (cs : List Char)
    (h : (let body := if tzShape (cs.drop (cs.length - 6)) then cs.take (cs.length - 6) else cs
          body.all bodyChar && body.contains 'T') = true) :
    unZ (replZ cs) = cs ∧ isDateOnly (replZ cs) = false := by
  simp only [Bool.and_eq_true, List.contains_iff_mem] at h
  by_cases ht : tzShape (cs.drop (cs.length - 6)) = true
  · rw [if_pos ht] at h
    obtain ⟨hb, hT⟩ := h
    have hsplit : cs = cs.take (cs.length - 6) ++ cs.drop (cs.length - 6) := (List.take_append_drop _ _).symm
    generalize cs.take (cs.length - 6) = body at *
    generalize cs.drop (cs.length - 6) = tz at *
    subst hsplit
    rw [replZ_append_of_noPlus _ _ (noPlus_of_body hb)]
    rcases replZ_tz ht with ⟨h1, h2⟩ | ⟨h2, h3, _⟩
    · rw [h2, h1]
      exact ⟨unZ_append_Z _, not_dateOnly_of_T (List.mem_append_left _ hT)⟩
    · rw [h2]
      refine ⟨unZ_of_noZ ?_, not_dateOnly_of_T (List.mem_append_left _ hT)⟩
      intro hm
      rcases List.mem_append.mp hm with hm | hm
      · exact noZ_of_body hb hm
      · exact h3 hm
  · rw [if_neg ht] at h
    obtain ⟨hb, hT⟩ := h
    rw [replZ_of_noPlus _ (noPlus_of_body hb)]
    exact ⟨unZ_of_noZ (noZ_of_body hb), not_dateOnly_of_T hT⟩

theorem decDatetime_encDatetime_datetime {iso : String} (h : wfDateTime iso = true) :
    decDatetime (encDatetime iso) = .datetime iso := by
  have := datetime_chars iso.toList h
  simp only [decDatetime, encDatetime, String.toList_ofList, this.1, this.2, String.ofList_toList]
  simp

theorem decTimeText_encDatetime {iso : String} (h : wfDateTime iso = true) :
    decTimeText (encDatetime iso) = iso := by
  have := datetime_chars iso.toList h
  simp only [decTimeText, encDatetime, String.toList_ofList, this.1, String.ofList_toList]

theorem decDatetime_encDatetime_date {iso : String} (h : wfDate iso = true) :
    decDatetime (encDatetime iso) = .date iso := by
  unfold wfDate at h
  have hc := isDateOnly_chars h
  have hp : '+' ∉ iso.toList := by
    intro hm; rcases hc _ hm with h' | h' <;> revert h' <;> decide
  have hz : 'Z' ∉ iso.toList := by
    intro hm; rcases hc _ hm with h' | h' <;> revert h' <;> decide
  simp only [decDatetime, encDatetime, replZ_of_noPlus _ hp, unZ_of_noZ hz, h, String.ofList_toList]
  simp


/-! ## versioned keys -/


theorem splitLast_none {c : Char} : ∀ {l : List Char}, c ∉ l → splitLast c l = none
  | [], _ => rfl
  | x :: xs, h => by
    have hx : x ≠ c := by intro e; subst e; simp at h
    have := splitLast_none (c := c) (l := xs) (by intro h'; exact h (List.mem_cons_of_mem _ h'))
    simp [splitLast, this, hx]

theorem splitLast_append {c : Char} : ∀ (a b : List Char), c ∉ b → splitLast c (a ++ c :: b) = some (a, b)
  | [], b, h => by simp [splitLast, splitLast_none h]
  | x :: a, b, h => by simp [splitLast, splitLast_append a b h]

theorem splitLast_ne_none {c : Char} : ∀ {l : List Char}, c ∈ l → splitLast c l ≠ none
  | [], h => by simp at h
  | x :: xs, h => by
    simp only [splitLast]
    split
    next => simp
    next heq =>
      by_cases hx : x = c
      · simp [hx]
      · rcases List.mem_cons.mp h with e | hm
        · exact absurd e.symm hx
        · exact absurd heq (splitLast_ne_none hm)

theorem splitLast_spec {c : Char} : ∀ {l a b : List Char}, splitLast c l = some (a, b) → l = a ++ c :: b ∧ c ∉ b
  | [], _, _, h => by simp [splitLast] at h
  | x :: xs, a, b, h => by
    simp only [splitLast] at h
    split at h
    next a' b' heq =>
      cases h
      have := splitLast_spec heq
      exact ⟨by rw [this.1]; rfl, this.2⟩
    next heq =>
      split at h
      next hx =>
        cases h; subst hx
        refine ⟨rfl, ?_⟩
        intro hm
        exact splitLast_ne_none hm heq
      next => cases h

theorem toList_encVKey (k : VKey) : (encVKey k).toList = k.key.toList ++ '#' :: k.version.toList := by
  simp [encVKey, String.toList_append]

/-- **versioned keys**: `key#version` is read back iff the version contains no `#` (the key may) -/
theorem decVKey_encVKey_iff (k : VKey) : decVKey (encVKey k) = k ↔ '#' ∉ k.version.toList := by
  constructor
  · intro h
    unfold decVKey at h
    rw [toList_encVKey] at h
    split at h
    next a b heq =>
      have hs := splitLast_spec heq
      have : b = k.version.toList := by
        have := congrArg VKey.version h
        simp only at this
        rw [← this, String.toList_ofList]
      rw [← this]; exact hs.2
    next heq =>
      exact absurd heq (splitLast_ne_none (by simp))
  · intro h
    unfold decVKey
    rw [toList_encVKey, splitLast_append _ _ h]
    simp [String.ofList_toList]


/-! ## integer tokens -/


theorem toInt?_intTok (z : Int) : (intTok z).toInt? = some z := by
  simp [intTok]

theorem digits_repr (n : Nat) : (Nat.repr n).toList ≠ [] ∧ (Nat.repr n).toList.all Char.isDigit = true := by
  rw [Nat.toList_repr]
  exact ⟨Nat.toDigits_ne_nil, List.all_eq_true.mpr (fun c hc => Nat.isDigit_of_mem_toDigits (by decide) (by decide) hc)⟩

def intShape (cs : List Char) : Bool :=
  let ds := match cs with | '-' :: r => r | r => r
  !ds.isEmpty && ds.all Char.isDigit

theorem isIntTok_eq (t : String) : isIntTok t = intShape t.toList := rfl

theorem intShape_digits {cs : List Char} (h1 : cs ≠ []) (h2 : cs.all Char.isDigit = true) : intShape cs = true := by
  unfold intShape
  split
  next r =>
    have : Char.isDigit '-' = true := (List.all_eq_true.mp h2) '-' (by simp)
    exact absurd this (by decide)
  next => simp only; cases cs with
    | nil => exact absurd rfl h1
    | cons c r => simp [h2]

theorem intShape_minus {cs : List Char} (h1 : cs ≠ []) (h2 : cs.all Char.isDigit = true) : intShape ('-' :: cs) = true := by
  unfold intShape
  cases cs with
  | nil => exact absurd rfl h1
  | cons c r => simp [h2]

theorem isIntTok_intTok (z : Int) : isIntTok (intTok z) = true := by
  rw [isIntTok_eq]
  unfold intTok
  rw [Int.toString_eq_repr, Int.repr_eq_if]
  split
  · exact intShape_digits (digits_repr _).1 (digits_repr _).2
  · rw [String.toList_append]
    exact intShape_minus (digits_repr _).1 (digits_repr _).2


/-! ## `ArgumentHasher.normalize` is the identity on the domain -/


theorem ofList_toList_obj : ∀ o : ArgObj, ArgObj.ofList o.toList = o
  | .nil => rfl
  | .cons k a o => by simp [ArgObj.toList, ArgObj.ofList, ofList_toList_obj o]

def someVals (l : List (String × Arg)) : List (String × Option Arg) := l.map (fun p => (p.1, some p.2))

theorem allSome_someVals : ∀ l : List (String × Arg), allSome (someVals l) = some l
  | [] => rfl
  | (k, a) :: r => by
    have := allSome_someVals r
    simp only [someVals] at this
    simp [someVals, allSome, this]

theorem lget_someVals_none {l : List (String × Arg)} {key : String} (h : (l.map (·.1)).contains key = false) :
    lget (someVals l) key = none := by
  induction l with
  | nil => rfl
  | cons p r ih =>
    simp only [List.map_cons, List.contains_cons, Bool.or_eq_false_iff] at h
    simp only [someVals, List.map_cons, lget, List.find?_cons]
    have : (p.1 == key) = false := by
      rw [beq_eq_false_iff_ne]; intro e; have := h.1; rw [beq_eq_false_iff_ne] at this; exact this e.symm
    simp only [this]
    exact ih h.2

def argStrs : List String → ArgList
  | [] => .nil
  | s :: r => .cons (.str s) (argStrs r)

theorem decodeL_strList : ∀ pn : List String, decodeL (strList pn) = some (argStrs pn)
  | [] => by simp [strList, decodeL, argStrs]
  | s :: r => by simp [strList, decodeL, decode, argStrs, decodeL_strList r]

theorem strings_argStrs : ∀ pn : List String, (argStrs pn).strings = some pn
  | [] => rfl
  | s :: r => by simp [argStrs, ArgList.strings, strings_argStrs r]

mutual
  theorem decode_encode_wf : ∀ a : Arg, wfArg a = true → decode (encode a) = some a
    | .none, _ => by simp [encode, decode]
    | .bool b, _ => by simp [encode, decode]
    | .int z, _ => by simp [encode, decode, isIntTok_intTok, toInt?_intTok]
    | .float t, h => by
      simp only [wfArg, Bool.not_eq_true'] at h
      simp [encode, decode, h]
    | .str s, _ => by simp [encode, decode]
    | .date iso, _ => by simp [encode, decode, decodeO, interpObj, lget]
    | .datetime iso, _ => by simp [encode, decode, decodeO, interpObj, lget]
    | .list l, h => by
      simp only [wfArg] at h
      simp [encode, decode, decodeL_encodeL_wf l h]
    | .dict d, h => by
      simp only [wfArg, Bool.and_eq_true] at h
      simp only [encode, decode, decodeO_encodeO_wf d h.1]
      have hk : lget (someVals d.toList) "_mementoType" = none := by
        apply lget_someVals_none
        have := h.2; simp only [noMT, Bool.not_eq_true'] at this; exact this
      simp only [interpObj, hk, allSome_someVals, Option.map_some, ofList_toList_obj]
    | .fnref qn pa pk pn, h => by
      simp only [wfArg, Bool.and_eq_true] at h
      obtain ⟨⟨hpa, hpk⟩, hmt⟩ := h
      have hk : lget (someVals pk.toList) "_mementoType" = none := by
        apply lget_someVals_none
        simp only [noMT, Bool.not_eq_true'] at hmt; exact hmt
      have hpkd : interpObj (decodeO (encodeO pk)) = some (.dict pk) := by
        simp only [decodeO_encodeO_wf pk hpk, interpObj, hk, allSome_someVals, Option.map_some, ofList_toList_obj]
      cases pa with
      | nil =>
        simp only [encode, ArgList.isEmpty, if_true, decode, decodeO, hpkd, decodeL_strList, Option.map_some]
        simp [interpObj, lget, strings_argStrs]
      | cons a l =>
        have hl := decodeL_encodeL_wf (.cons a l) hpa
        simp only [encode, ArgList.isEmpty, Bool.false_eq_true, if_false, decode, decodeO, hpkd, decodeL_strList, hl, Option.map_some]
        simp [interpObj, lget, strings_argStrs]
  theorem decodeL_encodeL_wf : ∀ l : ArgList, wfArgL l = true → decodeL (encodeL l) = some l
    | .nil, _ => by simp [encodeL, decodeL]
    | .cons a l, h => by
      simp only [wfArgL, Bool.and_eq_true] at h
      simp [encodeL, decodeL, decode_encode_wf a h.1, decodeL_encodeL_wf l h.2]
  theorem decodeO_encodeO_wf : ∀ o : ArgObj, wfArgO o = true → decodeO (encodeO o) = someVals o.toList
    | .nil, _ => by simp [encodeO, decodeO, someVals, ArgObj.toList]
    | .cons k a o, h => by
      simp only [wfArgO, Bool.and_eq_true] at h
      simp [encodeO, decodeO, decode_encode_wf a h.1, decodeO_encodeO_wf o h.2, someVals, ArgObj.toList]
end


/-! ## typed arguments round-trip -/


theorem normL_wf {l : ArgList} (h : wfArgL l = true) : normL l = some l := by
  have := decode_encode_wf (.list l) (by simpa [wfArg] using h)
  simp [normL, normalize, this]

theorem normO_wf {o : ArgObj} (h : wfArgO o = true) (hm : noMT o = true) : normO o = some o := by
  have := decode_encode_wf (.dict o) (by simp [wfArg, h, hm])
  simp [normO, normalize, this]

theorem jstrings_strList : ∀ pn : List String, jstrings (strList pn) = some pn
  | [] => rfl
  | s :: r => by simp [strList, jstrings, jstrings_strList r]

theorem resolveNames_agree {cb : CodeBase} {qn : String} {pn : List String} (h : namesAgree cb qn pn = true) :
    resolveNames cb qn (some pn) = pn := by
  unfold namesAgree at h
  unfold resolveNames
  split at h
  next pn' heq => simpa using h
  next heq => rfl

theorem decRef_refObj {cb : CodeBase} {qn : String} {pa : ArgList} {pk : ArgObj} {pn : List String}
    (h1 : decArgL cb (encArgL pa) = some pa) (h2 : decArgO cb (encArgO pk) = some pk)
    (hpa : wfArgL pa = true) (hpk : wfArgO pk = true) (hmt : noMT pk = true) (hn : namesAgree cb qn pn = true) :
    decRef cb (refObj qn (encArgL pa) (encArgO pk) pn) = some (qn, pa, pk, pn) := by
  simp [refObj, decRef, fld, h1, h2, jstrings_strList, normL_wf hpa, normO_wf hpk hmt, resolveNames_agree hn]

mutual
  theorem decArg_encArg (cb : CodeBase) : ∀ a : Arg, wfArg a = true → resolved cb a = true → decArg cb (encArg a) = some a
    | .none, _, _ => by simp [encArg, decArg, fld]
    | .bool b, _, _ => by simp [encArg, decArg, tagged, fld]
    | .int z, _, _ => by simp [encArg, decArg, tagged, fld, isIntTok_intTok, toInt?_intTok]
    | .float t, h, _ => by
      simp only [wfArg, Bool.not_eq_true'] at h
      simp [encArg, decArg, tagged, fld, h]
    | .str s, _, _ => by simp [encArg, decArg, tagged, fld]
    | .date iso, h, _ => by
      simp only [wfArg] at h
      simp [encArg, decArg, tagged, fld, fnRefTag, decDatetime_encDatetime_date h]
    | .datetime iso, h, _ => by
      simp only [wfArg] at h
      simp [encArg, decArg, tagged, fld, fnRefTag, decDatetime_encDatetime_datetime h]
    | .list l, h, hr => by
      simp only [wfArg] at h
      simp only [resolved] at hr
      simp [encArg, decArg, tagged, fld, fnRefTag, decArgL_encArgL cb l h hr]
    | .dict d, h, hr => by
      simp only [wfArg, Bool.and_eq_true] at h
      simp only [resolved] at hr
      simp [encArg, decArg, tagged, fld, fnRefTag, decArgO_encArgO cb d h.1 hr]
    | .fnref qn pa pk pn, h, hr => by
      simp only [wfArg, Bool.and_eq_true] at h
      simp only [resolved, Bool.and_eq_true] at hr
      obtain ⟨⟨hpa, hpk⟩, hmt⟩ := h
      obtain ⟨⟨rpa, rpk⟩, hn⟩ := hr
      have := decRef_refObj (decArgL_encArgL cb pa hpa rpa) (decArgO_encArgO cb pk hpk rpk) hpa hpk hmt hn
      simp [encArg, decArg, tagged, fld, fnRefTag, this]
  theorem decArgL_encArgL (cb : CodeBase) : ∀ l : ArgList, wfArgL l = true → resolvedL cb l = true → decArgL cb (encArgL l) = some l
    | .nil, _, _ => by simp [encArgL, decArgL]
    | .cons a l, h, hr => by
      simp only [wfArgL, Bool.and_eq_true] at h
      simp only [resolvedL, Bool.and_eq_true] at hr
      simp [encArgL, decArgL, decArg_encArg cb a h.1 hr.1, decArgL_encArgL cb l h.2 hr.2]
  theorem decArgO_encArgO (cb : CodeBase) : ∀ o : ArgObj, wfArgO o = true → resolvedO cb o = true → decArgO cb (encArgO o) = some o
    | .nil, _, _ => by simp [encArgO, decArgO]
    | .cons k a o, h, hr => by
      simp only [wfArgO, Bool.and_eq_true] at h
      simp only [resolvedO, Bool.and_eq_true] at hr
      simp [encArgO, decArgO, decArg_encArg cb a h.1 hr.1, decArgO_encArgO cb o h.2 hr.2]
end


/-! ## mementos round-trip -/


theorem decFnRef_encRef {cb : CodeBase} {r : FnRef} (h : wfRef cb r = true) : decFnRef cb (encRef r) = some r := by
  simp only [wfRef, Bool.and_eq_true] at h
  obtain ⟨⟨⟨⟨⟨h1, h2⟩, h3⟩, h4⟩, h5⟩, h6⟩ := h
  simp [decFnRef, encRef, decRef_refObj (decArgL_encArgL cb _ h1 h4) (decArgO_encArgO cb _ h2 h5) h1 h2 h3 h6]

theorem decCall_encCall {cb : CodeBase} {c : Call} (h : wfCall cb c = true) : decCall cb (encCall c) = some c := by
  simp only [wfCall, Bool.and_eq_true] at h
  obtain ⟨⟨⟨⟨⟨⟨⟨⟨⟨hr, ha⟩, hk⟩, hkm⟩, hc⟩, hcm⟩, ra⟩, rk⟩, rc⟩, he⟩ := h
  simp [decCall, encCall, fld, decFnRef_encRef hr, decOptArgL, decOptArgO, decArgL_encArgL cb _ ha ra,
    decArgO_encArgO cb _ hk rk, decArgO_encArgO cb _ hc rc, normL_wf ha, normO_wf hk hkm, normO_wf hc hcm, he]

theorem jtoList_jlistOf : ∀ l : List JVal, jtoList (jlistOf l) = l
  | [] => rfl
  | v :: r => by simp [jlistOf, jtoList, jtoList_jlistOf r]

theorem mapOpt_map {α} {f : JVal → Option α} {g : α → JVal} : ∀ {l : List α}, (∀ a ∈ l, f (g a) = some a) →
    mapOpt f (l.map g) = some l
  | [], _ => rfl
  | a :: r, h => by
    have h1 := h a (by simp)
    have h2 := mapOpt_map (f := f) (g := g) (l := r) (fun x hx => h x (List.mem_cons_of_mem _ hx))
    simp [mapOpt, h1, h2]

theorem decOptList_encOptList {α} {f : JVal → Option α} {g : α → JVal} {p : α → Bool} (hfg : ∀ a, p a = true → f (g a) = some a)
    {l : Option (List α)} (h : wfOptList p l = true) : decOptList f (encOptList g l) = some l := by
  cases l with
  | none => rfl
  | some l =>
    simp only [wfOptList, List.all_eq_true] at h
    simp [encOptList, decOptList, jtoList_jlistOf, mapOpt_map (fun a ha => hfg a (h a ha))]

theorem decOptStr_optStr (s : Option String) : decOptStr (optStr s) = some s := by
  cases s <;> rfl

theorem decResource_encResource (r : Resource) : decResource (encResource r) = some r := by
  simp [decResource, encResource, fld, decOptStr_optStr]

theorem ofName_name (r : ResultType) : ResultType.ofName r.name = some r := by
  cases r <;> decide

theorem decRuntime_wf {t : String} (h : wfRuntime t = true) : decRuntime (.num t) = some t := by
  simp only [wfRuntime, Bool.and_eq_true, Bool.not_eq_true'] at h
  simp [decRuntime, h.1, h.2]

theorem decContentKey_enc {ck : Option VKey} (h : (match ck with | none => true | some k => wfVKey k) = true) :
    decContentKey (encContentKey ck) = some ck := by
  cases ck with
  | none => rfl
  | some k =>
    have : decVKey (encVKey k) = k := (decVKey_encVKey_iff k).mpr (by simpa [wfVKey] using h)
    simp [encContentKey, decContentKey, this]

/-- the whole memento -/
theorem decMemento_encMemento {cb : CodeBase} {m : Memento} (h : wfMemento cb m = true) :
    decMemento cb (encMemento m) = some m := by
  simp only [wfMemento, Bool.and_eq_true] at h
  obtain ⟨⟨⟨⟨⟨ht, hc⟩, hi⟩, hd⟩, hr⟩, hk⟩ := h
  have hdeps : mapOpt (decFnRef cb) (m.deps.map encRef) = some m.deps :=
    mapOpt_map (fun r hr' => decFnRef_encRef (List.all_eq_true.mp hd r hr'))
  have hinv := decOptList_encOptList (f := decCall cb) (g := encCall) (p := wfCall cb) (fun a ha => decCall_encCall ha) hi
  have hres : decOptList decResource (encOptList encResource m.resources) = some m.resources :=
    decOptList_encOptList (p := fun _ => true) (fun a _ => decResource_encResource a) (by cases m.resources <;> simp [wfOptList])
  simp [decMemento, encMemento, encMeta, fld, decCall_encCall hc, hinv, hres, decRuntime_wf hr, ofName_name,
    jtoList_jlistOf, hdeps, decOptStr_optStr, decContentKey_enc hk, decTimeText_encDatetime ht]


/-! ## wire format and plain JSON -/


theorem allStr_strList : ∀ pn : List String, allStr (strList pn) = true
  | [] => rfl
  | s :: r => by simp [strList, allStr, allStr_strList r]

mutual
  theorem wireArg_encArg : ∀ a : Arg, wireArg (encArg a) = true
    | .none => by simp [encArg, wireArg]
    | .bool b => by simp [encArg, tagged, wireArg, wireVal]
    | .int z => by simp [encArg, tagged, wireArg, wireVal]
    | .float t => by simp [encArg, tagged, wireArg, wireVal]
    | .str s => by simp [encArg, tagged, wireArg, wireVal]
    | .date iso => by simp [encArg, tagged, wireArg, wireVal]
    | .datetime iso => by simp [encArg, tagged, wireArg, wireVal]
    | .list l => by simp [encArg, tagged, wireArg, wireVal, wireArgL_encArgL l]
    | .dict d => by simp [encArg, tagged, wireArg, wireVal, wireArgO_encArgO d]
    | .fnref qn pa pk pn => by
      simp [encArg, tagged, wireArg, wireVal, refObj, wireRefO, fnRefTag, wireArgL_encArgL pa, wireArgO_encArgO pk, allStr_strList]
  theorem wireArgL_encArgL : ∀ l : ArgList, wireArgL (encArgL l) = true
    | .nil => by simp [encArgL, wireArgL]
    | .cons a l => by simp [encArgL, wireArgL, wireArg_encArg a, wireArgL_encArgL l]
  theorem wireArgO_encArgO : ∀ o : ArgObj, wireArgO (encArgO o) = true
    | .nil => by simp [encArgO, wireArgO]
    | .cons k a o => by simp [encArgO, wireArgO, wireArg_encArg a, wireArgO_encArgO o]
end

theorem wireRef_encRef (r : FnRef) : wireRef (encRef r) = true := by
  simp [encRef, refObj, wireRef, wireRefO, wireArgL_encArgL, wireArgO_encArgO, allStr_strList]

theorem wireCall_encCall (c : Call) : wireCall (encCall c) = true := by
  simp [encCall, wireCall, wireRef_encRef, wireArgL_encArgL, wireArgO_encArgO]

theorem isOptStr_optStr (s : Option String) : isOptStr (optStr s) = true := by cases s <;> rfl

theorem wireResource_enc (r : Resource) : wireResource (encResource r) = true := by
  simp [encResource, wireResource, isOptStr_optStr]

theorem allJ_map {α} {p : JVal → Bool} {g : α → JVal} (h : ∀ a, p (g a) = true) : ∀ l : List α, allJ p (jlistOf (l.map g)) = true
  | [] => rfl
  | a :: r => by simp [jlistOf, allJ, h a, allJ_map h r]

theorem wireOptList_enc {α} {p : JVal → Bool} {g : α → JVal} (h : ∀ a, p (g a) = true) (l : Option (List α)) :
    wireOptList p (encOptList g l) = true := by
  cases l with
  | none => rfl
  | some l => simp [encOptList, wireOptList, allJ_map h]

theorem wireMemento_encMemento (m : Memento) : wireMemento (encMemento m) = true := by
  have hck : isOptStr (encContentKey m.contentKey) = true := by cases m.contentKey <;> rfl
  simp [encMemento, wireMemento, encMeta, wireMeta, wireCall_encCall, wireOptList_enc wireCall_encCall,
    wireOptList_enc wireResource_enc, ofName_name, allJ_map wireRef_encRef, isOptStr_optStr, hck]

/-! strict JSON -/
theorem strict_strList : ∀ pn : List String, strictJsonL (strList pn) = true
  | [] => rfl
  | s :: r => by simp [strList, strictJsonL, strictJson, strict_strList r]

theorem nonFinite_intTok (z : Int) : nonFiniteTok (intTok z) = false := by
  have hi := isIntTok_intTok z
  cases h : nonFiniteTok (intTok z) with
  | false => rfl
  | true =>
    simp only [nonFiniteTok, Bool.or_eq_true, beq_iff_eq] at h
    rcases h with (h | h) | h <;> rw [h] at hi <;> exact absurd hi (by decide)

mutual
  theorem strict_encArg : ∀ a : Arg, finiteArg a = true → strictJson (encArg a) = true
    | .none, _ => by simp [encArg, strictJson, strictJsonO]
    | .bool b, _ => by simp [encArg, tagged, strictJson, strictJsonO]
    | .int z, _ => by simp [encArg, tagged, strictJson, strictJsonO, nonFinite_intTok]
    | .float t, h => by
      simp only [finiteArg, Bool.not_eq_true'] at h
      simp [encArg, tagged, strictJson, strictJsonO, h]
    | .str s, _ => by simp [encArg, tagged, strictJson, strictJsonO]
    | .date iso, _ => by simp [encArg, tagged, strictJson, strictJsonO]
    | .datetime iso, _ => by simp [encArg, tagged, strictJson, strictJsonO]
    | .list l, h => by
      simp only [finiteArg] at h
      simp [encArg, tagged, strictJson, strictJsonO, strict_encArgL l h]
    | .dict d, h => by
      simp only [finiteArg] at h
      simp [encArg, tagged, strictJson, strictJsonO, strict_encArgO d h]
    | .fnref qn pa pk pn, h => by
      simp only [finiteArg, Bool.and_eq_true] at h
      simp [encArg, tagged, refObj, strictJson, strictJsonO, strict_encArgL pa h.1, strict_encArgO pk h.2, strict_strList]
  theorem strict_encArgL : ∀ l : ArgList, finiteArgL l = true → strictJsonL (encArgL l) = true
    | .nil, _ => by simp [encArgL, strictJsonL]
    | .cons a l, h => by
      simp only [finiteArgL, Bool.and_eq_true] at h
      simp [encArgL, strictJsonL, strict_encArg a h.1, strict_encArgL l h.2]
  theorem strict_encArgO : ∀ o : ArgObj, finiteArgO o = true → strictJsonO (encArgO o) = true
    | .nil, _ => by simp [encArgO, strictJsonO]
    | .cons k a o, h => by
      simp only [finiteArgO, Bool.and_eq_true] at h
      simp [encArgO, strictJsonO, strict_encArg a h.1, strict_encArgO o h.2]
end

theorem strict_encRef {r : FnRef} (h : finiteRef r = true) : strictJson (encRef r) = true := by
  simp only [finiteRef, Bool.and_eq_true] at h
  simp [encRef, refObj, strictJson, strictJsonO, strict_encArgL _ h.1, strict_encArgO _ h.2, strict_strList]

theorem strict_encCall {c : Call} (h : finiteCall c = true) : strictJson (encCall c) = true := by
  simp only [finiteCall, Bool.and_eq_true] at h
  obtain ⟨⟨⟨h1, h2⟩, h3⟩, h4⟩ := h
  simp [encCall, strictJson, strictJsonO, strict_encRef h1, strict_encArgL _ h2, strict_encArgO _ h3, strict_encArgO _ h4]

theorem strictL_map {α} {g : α → JVal} {p : α → Bool} (h : ∀ a, p a = true → strictJson (g a) = true) :
    ∀ l : List α, l.all p = true → strictJsonL (jlistOf (l.map g)) = true
  | [], _ => rfl
  | a :: r, hl => by
    simp only [List.all_cons, Bool.and_eq_true] at hl
    simp [jlistOf, strictJsonL, h a hl.1, strictL_map h r hl.2]

theorem strict_optStr (s : Option String) : strictJson (optStr s) = true := by cases s <;> rfl

theorem strict_encResource (r : Resource) : strictJson (encResource r) = true := by
  simp [encResource, strictJson, strictJsonO, strict_optStr]

theorem strict_encOptList {α} {g : α → JVal} {p : α → Bool} (h : ∀ a, p a = true → strictJson (g a) = true)
    {l : Option (List α)} (hl : wfOptList p l = true) : strictJson (encOptList g l) = true := by
  cases l with
  | none => rfl
  | some l => simp [encOptList, strictJson, strictL_map h l (by simpa [wfOptList] using hl)]

theorem strict_encMemento {m : Memento} (h : finiteMemento m = true) : strictJson (encMemento m) = true := by
  simp only [finiteMemento, Bool.and_eq_true, Bool.not_eq_true'] at h
  obtain ⟨⟨⟨⟨h1, h2⟩, h3⟩, h4⟩, h5⟩ := h
  have hres : strictJson (encOptList encResource m.resources) = true :=
    strict_encOptList (p := fun _ => true) (fun a _ => strict_encResource a) (by cases m.resources <;> simp [wfOptList])
  have hck : strictJson (encContentKey m.contentKey) = true := by cases m.contentKey <;> rfl
  simp [encMemento, encMeta, strictJson, strictJsonO, strict_encCall h1, strict_encOptList (fun a ha => strict_encCall ha) h2,
    hres, h4, strictL_map (fun a ha => strict_encRef ha) _ h3, h5, strict_optStr, hck]


/-! exact characterisation: the document is strict JSON iff there is no non-finite float -/


mutual
  theorem strict_encArg_eq : ∀ a : Arg, strictJson (encArg a) = finiteArg a
    | .none => by simp [encArg, strictJson, strictJsonO, finiteArg]
    | .bool b => by simp [encArg, tagged, strictJson, strictJsonO, finiteArg]
    | .int z => by simp [encArg, tagged, strictJson, strictJsonO, nonFinite_intTok, finiteArg]
    | .float t => by simp [encArg, tagged, strictJson, strictJsonO, finiteArg]
    | .str s => by simp [encArg, tagged, strictJson, strictJsonO, finiteArg]
    | .date iso => by simp [encArg, tagged, strictJson, strictJsonO, finiteArg]
    | .datetime iso => by simp [encArg, tagged, strictJson, strictJsonO, finiteArg]
    | .list l => by simp [encArg, tagged, strictJson, strictJsonO, strict_encArgL_eq l, finiteArg]
    | .dict d => by simp [encArg, tagged, strictJson, strictJsonO, strict_encArgO_eq d, finiteArg]
    | .fnref qn pa pk pn => by
      simp [encArg, tagged, refObj, strictJson, strictJsonO, strict_encArgL_eq pa, strict_encArgO_eq pk, strict_strList, finiteArg]
  theorem strict_encArgL_eq : ∀ l : ArgList, strictJsonL (encArgL l) = finiteArgL l
    | .nil => by simp [encArgL, strictJsonL, finiteArgL]
    | .cons a l => by simp [encArgL, strictJsonL, strict_encArg_eq a, strict_encArgL_eq l, finiteArgL]
  theorem strict_encArgO_eq : ∀ o : ArgObj, strictJsonO (encArgO o) = finiteArgO o
    | .nil => by simp [encArgO, strictJsonO, finiteArgO]
    | .cons k a o => by simp [encArgO, strictJsonO, strict_encArg_eq a, strict_encArgO_eq o, finiteArgO]
end

theorem strict_encRef_eq (r : FnRef) : strictJson (encRef r) = finiteRef r := by
  simp [encRef, refObj, strictJson, strictJsonO, strict_encArgL_eq, strict_encArgO_eq, strict_strList, finiteRef]

theorem strict_encCall_eq (c : Call) : strictJson (encCall c) = finiteCall c := by
  simp [encCall, strictJson, strictJsonO, strict_encRef_eq, strict_encArgL_eq, strict_encArgO_eq, finiteCall, Bool.and_assoc]

theorem strictL_map_eq {α} {g : α → JVal} {p : α → Bool} (h : ∀ a, strictJson (g a) = p a) :
    ∀ l : List α, strictJsonL (jlistOf (l.map g)) = l.all p
  | [] => rfl
  | a :: r => by simp [jlistOf, strictJsonL, h a, strictL_map_eq h r]

theorem strict_encOptList_eq {α} {g : α → JVal} {p : α → Bool} (h : ∀ a, strictJson (g a) = p a)
    (l : Option (List α)) : strictJson (encOptList g l) = wfOptList p l := by
  cases l with
  | none => rfl
  | some l => simp [encOptList, strictJson, strictL_map_eq h l, wfOptList]

theorem strict_encMemento_eq (m : Memento) : strictJson (encMemento m) = finiteMemento m := by
  have hres : strictJson (encOptList encResource m.resources) = true := by
    rw [strict_encOptList_eq (p := fun _ => true) (fun a => strict_encResource a)]
    cases m.resources <;> simp [wfOptList]
  have hck : strictJson (encContentKey m.contentKey) = true := by cases m.contentKey <;> rfl
  simp [encMemento, encMeta, strictJson, strictJsonO, strict_encCall_eq, strict_encOptList_eq strict_encCall_eq,
    hres, strictL_map_eq strict_encRef_eq, strict_optStr, hck, finiteMemento, Bool.and_assoc]
  cases finiteCall m.call <;> cases wfOptList finiteCall m.invocations <;> cases nonFiniteTok m.runtime <;>
    cases m.deps.all finiteRef <;> simp

end Memento.Codec
