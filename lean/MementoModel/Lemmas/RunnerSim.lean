import MementoModel.Lemmas.RunnerTop

/-!
  The simulation between a memoized evaluation (on a sound store) and the un-memoized semantics
  (the same runner on a disabled store), used for C02 `run_transparent` and C10 `provenance_exact`.
  Core-only.
-/
namespace Memento.Runner

/-! ### dependency sets and `propagate` -/

theorem mem_addDep (d : List Fn) (g f : Fn) : f ∈ addDep d g ↔ f ∈ d ∨ f = g := by
  unfold addDep
  split
  · rename_i h
    have hg : g ∈ d := by simpa using h
    constructor
    · exact .inl
    · rintro (h | h)
      · exact h
      · rw [h]; exact hg
  · simp

theorem mem_foldl_addDep (l : List Fn) : ∀ (d : List Fn) (f : Fn), f ∈ l.foldl addDep d ↔ f ∈ d ∨ f ∈ l := by
  induction l with
  | nil => intro d f; simp
  | cons g gs ih =>
    intro d f
    rw [List.foldl_cons, ih, mem_addDep, List.mem_cons, or_assoc]

theorem propagate_deps (fr : Frame) (r : Rec) (f : Fn) :
    f ∈ (propagate fr r).deps ↔ f ∈ fr.deps ∨ f = r.key.fn ∨ f ∈ r.deps := by
  simp only [propagate, mem_foldl_addDep, mem_addDep, or_assoc]

/-- frames agree on everything a record is built from (dependencies as a set) -/
def FSim (fr fr' : Frame) : Prop :=
  fr.key = fr'.key ∧ fr.prevent = fr'.prevent ∧ fr.invs = fr'.invs ∧ fr.res = fr'.res ∧
    ∀ f, f ∈ fr.deps ↔ f ∈ fr'.deps

theorem FSim.refl (fr : Frame) : FSim fr fr := ⟨rfl, rfl, rfl, rfl, fun _ => Iff.rfl⟩

theorem fsim_propagate {fr fr' : Frame} {r r' : Rec} (h : FSim fr fr') (hr : Rec.same r r') :
    FSim (propagate fr r) (propagate fr' r') := by
  obtain ⟨h1, h2, h3, h4, h5⟩ := h
  obtain ⟨r1, _, _, _, r5⟩ := hr
  refine ⟨h1, h2, ?_, h4, fun f => ?_⟩
  · show fr.invs ++ [r.key] = fr'.invs ++ [r'.key]
    rw [h3, r1]
  · rw [propagate_deps, propagate_deps, h5 f, r1, r5 f]

theorem fsim_resource {fr fr' : Frame} (h : FSim fr fr') (x : Nat) :
    FSim { fr with res := fr.res ++ [x] } { fr' with res := fr'.res ++ [x] } := by
  obtain ⟨h1, h2, h3, h4, h5⟩ := h
  exact ⟨h1, h2, h3, by show fr.res ++ [x] = fr'.res ++ [x]; rw [h4], h5⟩

/-- callers agree -/
def CSim : Option Frame → Option Frame → Prop
  | none, none => True
  | some fr, some fr' => FSim fr fr'
  | _, _ => False

theorem CSim.undeclared {c c' : Option Frame} (h : CSim c c') (P : Prog) (fn : Fn) :
    undeclared P c fn = undeclared P c' fn := by
  cases c <;> cases c' <;> simp only [CSim] at h
  · rfl
  · simp only [Memento.Runner.undeclared, h.1]

theorem CSim.prevented {c c' : Option Frame} (h : CSim c c') : prevented c = prevented c' := by
  cases c <;> cases c' <;> simp only [CSim] at h
  · rfl
  · simp only [Memento.Runner.prevented, h.2.1]

theorem CSim.effCtx {c c' : Option Frame} (h : CSim c c') (ctx : CtxSpec) : effCtx c ctx = effCtx c' ctx := by
  cases c <;> cases c' <;> simp only [CSim] at h
  · rfl
  · cases ctx <;> simp only [Memento.Runner.effCtx, h.1]

/-- batch results agree up to replay (the relation used in `BSim.batch`) -/
def ResSim (r r' : Except Outcome (List Outcome)) : Prop :=
  match r, r' with
  | .error e, .error e' => Outcome.sim e e'
  | .ok os, .ok os' => simList os os'
  | _, _ => False

theorem ResSim.error_inv {e : Outcome} {r' : Except Outcome (List Outcome)} (h : ResSim (.error e) r') :
    ∃ e', r' = .error e' ∧ Outcome.sim e e' := by
  cases r' with
  | error e' => exact ⟨e', rfl, h⟩
  | ok os => exact h.elim

theorem ResSim.ok_single_inv {o : Outcome} {r' : Except Outcome (List Outcome)} (h : ResSim (.ok [o]) r') :
    ∃ o', r' = .ok [o'] ∧ Outcome.sim o o' := by
  cases r' with
  | error e' => exact h.elim
  | ok os =>
    match os, h with
    | [o'], h => exact ⟨o', rfl, h.1⟩

/-! ### delivered outcomes -/

theorem deliver_sim (fl : Flags) {o o' : Outcome} (h : Outcome.sim o o') : Outcome.sim (deliver fl o) (deliver fl o') := by
  cases o with
  | val v => rw [Outcome.sim_val_left h]; exact Outcome.sim_refl _
  | exc c m =>
    cases o' with
    | val w => have := Outcome.sim_val_left (Outcome.sim_symm h); cases this
    | exc c' m' => exact h

theorem serve_sim_deliver (fl : Flags) {r : Rec} {ob : Outcome} (h : Outcome.sim r.out ob) :
    Outcome.sim (serve r fl) (deliver fl ob) := by
  cases ob with
  | val v =>
    have hr : r.out = .val v := Outcome.sim_val_left (Outcome.sim_symm h)
    simp only [serve, hr, Outcome.isExc, deliver, replay]
    cases fl.ignore <;> exact Outcome.sim_refl _
  | exc c m =>
    have hx : r.out.isExc = true := Outcome.sim_isExc h
    simp only [serve, hx, deliver]
    simp only [Bool.not_true, Bool.and_false]
    exact Outcome.sim_trans (Outcome.sim_replay _) h

/-! ### the un-memoized semantics as relations (some fuel, any disabled state) -/

def PExec (P : Prog) (b : Body) (fr : Frame) (o : Outcome) (fr1 : Frame) : Prop :=
  ∃ m, ∀ sd, Dis sd → ∃ sd', Dis sd' ∧ E P m b sd fr = some (sd', o, fr1)

def PRun (P : Prog) (caller : Option Frame) (fn : Fn) (args : List Val) (ctx : CtxSpec) (fl : Flags)
    (res : Except Outcome (List Outcome)) (recs : List Rec) : Prop :=
  ∃ m, ∀ sd, Dis sd → ∃ sd', Dis sd' ∧ run P m sd caller fn args ctx fl = some (sd', res, recs)

def PLocal (P : Prog) (key : Key) (fl : Flags) (o : Outcome) (r : Rec) : Prop :=
  ∃ m, ∀ sd, Dis sd → ∃ sd', Dis sd' ∧ runLocal P (E P m) sd key fl = some (sd', o, r)

def PLoop (P : Prog) (fl : Flags) (keys : List Key) (os : List Outcome) (rs : List Rec) : Prop :=
  ∃ m, ∀ sd, Dis sd → ∃ sd', Dis sd' ∧
    batchLoop P (E P m) fl sd (keys.map (fun k => (k, none))) = some (sd', os, rs)

theorem PExec.ret (P : Prog) (o : Outcome) (fr : Frame) : PExec P (.ret o) fr o fr :=
  ⟨0, fun sd hd => ⟨sd, hd, rfl⟩⟩

theorem PExec.resource {P : Prog} {h : Nat} {k : Body} {fr : Frame} {o : Outcome} {fr1 : Frame}
    (hk : PExec P k { fr with res := fr.res ++ [h] } o fr1) : PExec P (.resource h k) fr o fr1 := by
  obtain ⟨m, hm⟩ := hk
  exact ⟨m, fun sd hd => hm sd hd⟩

theorem PExec.call_ok {P : Prog} {fn : Fn} {arg : Val} {ctx : CtxSpec} {fl : Flags} {k : Outcome → Body} {fr : Frame}
    {o : Outcome} {recs : List Rec} {o2 : Outcome} {fr2 : Frame}
    (hr : PRun P (some fr) fn [arg] ctx fl (.ok [o]) recs)
    (hk : PExec P (k o) (recs.foldl propagate fr) o2 fr2) : PExec P (.call fn arg ctx fl k) fr o2 fr2 := by
  obtain ⟨m1, h1⟩ := hr
  obtain ⟨m2, h2⟩ := hk
  refine ⟨max m1 m2, fun sd hd => ?_⟩
  obtain ⟨sd1, hd1, e1⟩ := h1 sd hd
  obtain ⟨sd2, hd2, e2⟩ := h2 sd1 hd1
  refine ⟨sd2, hd2, ?_⟩
  have hc : calleeAt P (max m1 m2) sd fr fn [arg] ctx fl = some (sd1, .ok [o], recs) :=
    run_le P (Nat.le_max_left _ _) e1
  show execBody (calleeAt P (max m1 m2)) (.call fn arg ctx fl k) sd fr = _
  rw [execBody_call_ok hc]
  exact E_le P (Nat.le_max_right _ _) _ _ _ _ e2

theorem PExec.call_err {P : Prog} {fn : Fn} {arg : Val} {ctx : CtxSpec} {fl : Flags} {k : Outcome → Body} {fr : Frame}
    {e : Outcome} {recs : List Rec} {o2 : Outcome} {fr2 : Frame}
    (hr : PRun P (some fr) fn [arg] ctx fl (.error e) recs)
    (hk : PExec P (k e) (recs.foldl propagate fr) o2 fr2) : PExec P (.call fn arg ctx fl k) fr o2 fr2 := by
  obtain ⟨m1, h1⟩ := hr
  obtain ⟨m2, h2⟩ := hk
  refine ⟨max m1 m2, fun sd hd => ?_⟩
  obtain ⟨sd1, hd1, e1⟩ := h1 sd hd
  obtain ⟨sd2, hd2, e2⟩ := h2 sd1 hd1
  refine ⟨sd2, hd2, ?_⟩
  have hc : calleeAt P (max m1 m2) sd fr fn [arg] ctx fl = some (sd1, .error e, recs) :=
    run_le P (Nat.le_max_left _ _) e1
  show execBody (calleeAt P (max m1 m2)) (.call fn arg ctx fl k) sd fr = _
  rw [execBody_call_err hc]
  exact E_le P (Nat.le_max_right _ _) _ _ _ _ e2

theorem PExec.batch {P : Prog} {fn : Fn} {args : List Val} {ctx : CtxSpec} {fl : Flags}
    {k : Except Outcome (List Outcome) → Body} {fr : Frame}
    {r : Except Outcome (List Outcome)} {recs : List Rec} {o2 : Outcome} {fr2 : Frame}
    (hr : PRun P (some fr) fn args ctx fl r recs)
    (hk : PExec P (k r) (recs.foldl propagate fr) o2 fr2) : PExec P (.batch fn args ctx fl k) fr o2 fr2 := by
  obtain ⟨m1, h1⟩ := hr
  obtain ⟨m2, h2⟩ := hk
  refine ⟨max m1 m2, fun sd hd => ?_⟩
  obtain ⟨sd1, hd1, e1⟩ := h1 sd hd
  obtain ⟨sd2, hd2, e2⟩ := h2 sd1 hd1
  refine ⟨sd2, hd2, ?_⟩
  have hc : calleeAt P (max m1 m2) sd fr fn args ctx fl = some (sd1, r, recs) :=
    run_le P (Nat.le_max_left _ _) e1
  show execBody (calleeAt P (max m1 m2)) (.batch fn args ctx fl k) sd fr = _
  rw [execBody_batch_some hc]
  exact E_le P (Nat.le_max_right _ _) _ _ _ _ e2

theorem PLocal.intro {P : Prog} {key : Key} {fl : Flags} {ob : Outcome} {fr1 : Frame}
    (h : PExec P (P.body key.fn key.arg) (fr0 key fl.prevent) ob fr1) :
    PLocal P key fl (deliver fl ob) (mkRec key ob fr1) := by
  obtain ⟨m, hm⟩ := h
  refine ⟨m, fun sd hd => ?_⟩
  have hd' : Dis { sd with trace := sd.trace ++ [key] } := hd
  obtain ⟨sd1, hd1, e1⟩ := hm _ hd'
  refine ⟨sd1, hd1, ?_⟩
  rw [runLocal_dis hd, e1]
  simp only [storeAfter_dis hd1]

theorem PLoop.nil (P : Prog) (fl : Flags) : PLoop P fl [] [] [] :=
  ⟨0, fun sd hd => ⟨sd, hd, rfl⟩⟩

theorem PLoop.cons {P : Prog} {fl : Flags} {key : Key} {keys : List Key} {o : Outcome} {r : Rec}
    {os : List Outcome} {rs : List Rec} (h1 : PLocal P key fl o r) (h2 : PLoop P fl keys os rs) :
    PLoop P fl (key :: keys) (o :: os) (r :: rs) := by
  obtain ⟨m1, h1⟩ := h1
  obtain ⟨m2, h2⟩ := h2
  refine ⟨max m1 m2, fun sd hd => ?_⟩
  obtain ⟨sd1, hd1, e1⟩ := h1 sd hd
  obtain ⟨sd2, hd2, e2⟩ := h2 sd1 hd1
  refine ⟨sd2, hd2, ?_⟩
  rw [List.map_cons, batchLoop_cons_none, runLocal_le (E_le P (Nat.le_max_left m1 m2)) e1]
  simp only [batchLoop_le (E_le P (Nat.le_max_right m1 m2)) _ e2]

theorem PRun.undeclared {P : Prog} {caller : Option Frame} {fn : Fn} (h : undeclared P caller fn = true)
    (args : List Val) (ctx : CtxSpec) (fl : Flags) :
    PRun P caller fn args ctx fl (.error (.exc clsUndeclared 0)) [] := by
  refine ⟨1, fun sd hd => ⟨sd, hd, ?_⟩⟩
  rw [run_succ, runBatchWith_eq, if_pos h]

theorem PRun.prevented {P : Prog} {caller : Option Frame} {fn : Fn} (hu : Memento.Runner.undeclared P caller fn = false)
    (h : Memento.Runner.prevented caller = true) (args : List Val) (ctx : CtxSpec) (fl : Flags) :
    PRun P caller fn args ctx fl (.error (.exc clsRuntime 0)) [] := by
  refine ⟨1, fun sd hd => ⟨sd, hd, ?_⟩⟩
  rw [run_succ, runBatchWith_eq, hu, if_pos h]
  simp

theorem PRun.ok {P : Prog} {caller : Option Frame} {fn : Fn} (hu : Memento.Runner.undeclared P caller fn = false)
    (hp : Memento.Runner.prevented caller = false) {args : List Val} {ctx : CtxSpec} {fl : Flags}
    {os : List Outcome} {rs : List Rec}
    (h : PLoop P fl (args.map (fun a => (⟨fn, a, effCtx caller ctx⟩ : Key))) os rs) :
    PRun P caller fn args ctx fl (.ok os) rs := by
  obtain ⟨m, hm⟩ := h
  refine ⟨m + 1, fun sd hd => ?_⟩
  obtain ⟨sd1, hd1, e1⟩ := hm sd hd
  refine ⟨sd1, hd1, ?_⟩
  rw [run_succ, runBatchWith_eq, hu, hp, preDis hd (fun a => (⟨fn, a, effCtx caller ctx⟩ : Key)), e1]
  simp

/-! ### the un-memoized record of a key -/

/-- `r` is the record an un-memoized execution of `k` produces -/
def PureRecOf (P : Prog) (k : Key) (r : Rec) : Prop :=
  ∃ ob fr1, PExec P (P.body k.fn k.arg) (fr0 k false) ob fr1 ∧ r = mkRec k ob fr1

def emp : St := { store := [], trace := [], enabled := false }

theorem pureRec_succ (P : Prog) (n : Nat) (k : Key) :
    pureRec P (n + 1) k =
      match runLocal P (E P n) emp k {} with
      | some (_, _, r) => some r
      | none => none := by
  unfold pureRec
  rw [run_single_top]
  change (match (match emp.get k with
        | some r => some (emp, (Except.ok [serve r {}] : Except Outcome (List Outcome)), [r])
        | none => match runLocal P (E P n) emp k {} with
          | none => none
          | some (s1, o, r) => some (s1, Except.ok [o], [r])) with
      | some (_, _, [r]) => some r
      | _ => none) = _
  rw [St.get_disabled (show emp.enabled = false from rfl)]
  simp only []
  cases runLocal P (E P n) emp k {} with
  | none => rfl
  | some x => rfl

theorem PureRecOf.of_pureRec {P : Prog} {n : Nat} {k : Key} {r : Rec} (h : pureRec P n k = some r) : PureRecOf P k r := by
  cases n with
  | zero => simp [pureRec, run] at h
  | succ n =>
    rw [pureRec_succ] at h
    split at h
    · rename_i s1 o r1 hl
      cases h
      have hd : Dis emp := rfl
      obtain ⟨s2, ob, fr1, hx, hr, _, _⟩ := runLocal_miss_inv (St.get_disabled hd k) hl
      refine ⟨ob, fr1, ⟨n, fun sd hd2 => ?_⟩, hr⟩
      have hd' : Dis { emp with trace := emp.trace ++ [k] } := rfl
      obtain ⟨_, sd', hdd, hx2⟩ := E_ind P n _ _ sd _ _ _ _ hd' hd2 hx
      exact ⟨sd', hdd, hx2⟩
    · cases h

theorem PureRecOf.pureRec {P : Prog} {k : Key} {r : Rec} (h : PureRecOf P k r) : ∃ n, pureRec P n k = some r := by
  obtain ⟨ob, fr1, ⟨m, hm⟩, hr⟩ := h
  refine ⟨m + 1, ?_⟩
  have hd : Dis emp := rfl
  have hd' : Dis { emp with trace := emp.trace ++ [k] } := rfl
  obtain ⟨sd1, hd1, e1⟩ := hm _ hd'
  rw [pureRec_succ, runLocal_dis hd]
  show (match (match E P m (P.body k.fn k.arg) { emp with trace := emp.trace ++ [k] } (fr0 k false) with
          | none => none
          | some (s1, o, fr) => some (storeAfter s1 k o (mkRec k o fr), deliver {} o, mkRec k o fr)) with
        | some (_, _, r) => some r
        | none => none) = _
  rw [e1, hr]

theorem pureRec_le (P : Prog) {n m : Nat} (hnm : n ≤ m) {k : Key} {r : Rec} (h : pureRec P n k = some r) :
    pureRec P m k = some r := by
  unfold pureRec at h ⊢
  split at h
  · rename_i hrun
    rw [run_le P hnm hrun]; exact h
  · cases h

theorem pureRec_det (P : Prog) {n m : Nat} {k : Key} {r r' : Rec} (h : pureRec P n k = some r)
    (h' : pureRec P m k = some r') : r = r' := by
  have a := pureRec_le P (Nat.le_max_left n m) h
  have b := pureRec_le P (Nat.le_max_right n m) h'
  rw [a] at b; cases b; rfl

theorem PureRecOf.key {P : Prog} {k : Key} {r : Rec} (h : PureRecOf P k r) : r.key = k := by
  obtain ⟨_, _, _, hr⟩ := h; rw [hr]; rfl

/-! ### soundness of stores -/

theorem Sound.get {P : Prog} {s : St} (hs : Sound P s) {k : Key} {r : Rec} (h : s.get k = some r) :
    ∃ r', PureRecOf P k r' ∧ Rec.same r r' := by
  obtain ⟨n, r', h1, h2⟩ := hs.2 k r h
  exact ⟨r', PureRecOf.of_pureRec h1, h2⟩

theorem Sound.setTrace {P : Prog} {s : St} (hs : Sound P s) (t : List Key) : Sound P { s with trace := t } :=
  ⟨hs.1, fun k r h => hs.2 k r h⟩

theorem Sound.put {P : Prog} {s : St} (hs : Sound P s) {k : Key} {r r' : Rec} (hp : PureRecOf P k r')
    (hr : Rec.same r r') : Sound P (s.put k r) := by
  refine ⟨by rw [St.put_enabled]; exact hs.1, fun k' x hx => ?_⟩
  rcases St.get_put_cases hx with ⟨e1, e2, _⟩ | ⟨_, hx'⟩
  · subst e1 e2
    obtain ⟨n, hn⟩ := hp.pureRec
    exact ⟨n, r', hn, hr⟩
  · exact hs.2 k' x hx'

theorem Sound.keyed {P : Prog} {s : St} (hs : Sound P s) : Keyed s := by
  intro k r h
  obtain ⟨r', hp, hr⟩ := hs.get h
  rw [hr.1, hp.key]

/-! ### the simulation -/

/-- a record of the memoized run and the corresponding record of the un-memoized run -/
def RecOK (P : Prog) (r r' : Rec) : Prop := Rec.same r r' ∧ PureRecOf P r'.key r'

def RecsSim (P : Prog) : List Rec → List Rec → Prop
  | [], [] => True
  | r :: rs, r' :: rs' => RecOK P r r' ∧ RecsSim P rs rs'
  | _, _ => False

theorem RecsSim.mem {P : Prog} : ∀ {rs rs' : List Rec}, RecsSim P rs rs' → ∀ r ∈ rs, ∃ r', RecOK P r r'
  | [], [], _, r, hr => by cases hr
  | x :: xs, x' :: xs', h, r, hr => by
    rcases List.mem_cons.1 hr with rfl | hr
    · exact ⟨x', h.1⟩
    · exact RecsSim.mem h.2 r hr

theorem fsim_foldl {P : Prog} : ∀ (rs rs' : List Rec) (fr fr' : Frame), RecsSim P rs rs' → FSim fr fr' →
    FSim (rs.foldl propagate fr) (rs'.foldl propagate fr') := by
  intro rs
  induction rs with
  | nil =>
    intro rs' fr fr' hr h
    cases rs' with
    | nil => exact h
    | cons _ _ => exact hr.elim
  | cons r rs ih =>
    intro rs' fr fr' hr h
    cases rs' with
    | nil => exact hr.elim
    | cons r' rs' => exact ih rs' _ _ hr.2 (fsim_propagate h hr.1.1)

def RunSimAt (P : Prog) (n : Nat) : Prop :=
  ∀ s s' caller caller' fn args ctx fl res recs, Sound P s → CSim caller caller' → fl.prevent = false →
    run P n s caller fn args ctx fl = some (s', res, recs) →
    Sound P s' ∧ ∃ res' recs', PRun P caller' fn args ctx fl res' recs' ∧ ResSim res res' ∧ RecsSim P recs recs'

theorem sim_exec {P : Prog} {n : Nat} (H : RunSimAt P n) {b b' : Body} (hb : BSim b b') :
    NoPreventB b → ∀ s fr fr' s1 o fr1, Sound P s → FSim fr fr' → E P n b s fr = some (s1, o, fr1) →
      Sound P s1 ∧ ∃ o' fr1', PExec P b' fr' o' fr1' ∧ Outcome.sim o o' ∧ FSim fr1 fr1' := by
  induction hb with
  | ret ho =>
    intro _ s fr fr' s1 o fr1 hs hf h
    simp only [E, execBody] at h
    cases h
    exact ⟨hs, _, _, PExec.ret P _ _, ho, hf⟩
  | resource hb ih =>
    intro hnp s fr fr' s1 o fr1 hs hf h
    cases hnp with
    | resource hnp =>
      simp only [E, execBody] at h
      obtain ⟨hs1, o', fr1', hp, ho, hf1⟩ := ih hnp s _ _ s1 o fr1 hs (fsim_resource hf _) h
      exact ⟨hs1, o', fr1', PExec.resource hp, ho, hf1⟩
  | call hk ih =>
    intro hnp s fr fr' s1 o fr1 hs hf h
    cases hnp with
    | call hfl hnk =>
      obtain ⟨s2, recs, ⟨e, hc1, h2⟩ | ⟨o1, hc1, h2⟩⟩ := execBody_call_inv h
      · obtain ⟨hs2, res', recs', hpr, hres, hrecs⟩ := H _ _ _ (some fr') _ _ _ _ _ _ hs (show CSim (some fr) (some fr') from hf) hfl hc1
        obtain ⟨e', rfl, he⟩ := hres.error_inv
        obtain ⟨hs1, o', fr1', hp, ho, hf1⟩ :=
          ih e e' he (hnk e) s2 _ _ s1 o fr1 hs2 (fsim_foldl _ _ _ _ hrecs hf) h2
        exact ⟨hs1, o', fr1', PExec.call_err hpr hp, ho, hf1⟩
      · obtain ⟨hs2, res', recs', hpr, hres, hrecs⟩ := H _ _ _ (some fr') _ _ _ _ _ _ hs (show CSim (some fr) (some fr') from hf) hfl hc1
        obtain ⟨o1', rfl, he⟩ := hres.ok_single_inv
        obtain ⟨hs1, o', fr1', hp, ho, hf1⟩ :=
          ih o1 o1' he (hnk o1) s2 _ _ s1 o fr1 hs2 (fsim_foldl _ _ _ _ hrecs hf) h2
        exact ⟨hs1, o', fr1', PExec.call_ok hpr hp, ho, hf1⟩
  | batch hk ih =>
    intro hnp s fr fr' s1 o fr1 hs hf h
    cases hnp with
    | batch hfl hnk =>
      obtain ⟨s2, r, recs, hc1, h2⟩ := execBody_batch_inv h
      obtain ⟨hs2, res', recs', hpr, hres, hrecs⟩ := H _ _ _ (some fr') _ _ _ _ _ _ hs (show CSim (some fr) (some fr') from hf) hfl hc1
      obtain ⟨hs1, o', fr1', hp, ho, hf1⟩ :=
        ih r res' hres (hnk r) s2 _ _ s1 o fr1 hs2 (fsim_foldl _ _ _ _ hrecs hf) h2
      exact ⟨hs1, o', fr1', PExec.batch hpr hp, ho, hf1⟩

/-- a found memento against the un-memoized execution of its key -/
theorem hit_sim {P : Prog} {key : Key} {fl : Flags} (hfl : fl.prevent = false) {r r' : Rec}
    (hp : PureRecOf P key r') (hr : Rec.same r r') :
    ∃ o', PLocal P key fl o' r' ∧ Outcome.sim (serve r fl) o' := by
  obtain ⟨ob, fr1, hx, rfl⟩ := hp
  rw [← hfl] at hx
  exact ⟨deliver fl ob, PLocal.intro hx, serve_sim_deliver fl hr.2.1⟩

theorem sim_local {P : Prog} (hw : WellBehaved P) (hnp : NoPrevent P) {n : Nat} (H : RunSimAt P n)
    {s s1 : St} {key : Key} {fl : Flags} {o : Outcome} {r : Rec} (hs : Sound P s) (hfl : fl.prevent = false)
    (h : runLocal P (E P n) s key fl = some (s1, o, r)) :
    Sound P s1 ∧ ∃ o' r', PLocal P key fl o' r' ∧ Outcome.sim o o' ∧ RecOK P r r' := by
  cases hg : s.get key with
  | some r0 =>
    rw [runLocal_hit hg] at h; cases h
    obtain ⟨r', hp, hr⟩ := hs.get hg
    obtain ⟨o', hl, ho⟩ := hit_sim hfl hp hr
    exact ⟨hs, o', r', hl, ho, hr, by rw [hp.key]; exact hp⟩
  | none =>
    obtain ⟨s2, ob, fr1, hx, hr, ho, hst⟩ := runLocal_miss_inv hg h
    obtain ⟨hs2, ob', fr1', hpx, hob, hf1⟩ :=
      sim_exec H (hw key.fn key.arg) (hnp key.fn key.arg) _ _ _ _ _ _ (hs.setTrace _) (FSim.refl _) hx
    have hsame : Rec.same r (mkRec key ob' fr1') := by
      rw [hr]; exact ⟨rfl, hob, hf1.2.2.1, hf1.2.2.2.1, hf1.2.2.2.2⟩
    have hpure : PureRecOf P key (mkRec key ob' fr1') := ⟨ob', fr1', by rw [← hfl]; exact hpx, rfl⟩
    refine ⟨?_, deliver fl ob', mkRec key ob' fr1', PLocal.intro hpx, by rw [ho]; exact deliver_sim fl hob, hsame, hpure⟩
    rw [hst]
    rcases storeAfter_cases s2 key ob r with h1 | ⟨_, _, h1⟩
    · rw [h1]; exact hs2
    · rw [h1]; exact hs2.put hpure hsame

theorem sim_loop {P : Prog} (hw : WellBehaved P) (hnp : NoPrevent P) {n : Nat} (H : RunSimAt P n)
    {fl : Flags} (hfl : fl.prevent = false) :
    ∀ (pre : List (Key × Option Rec)) {s s' : St} {os : List Outcome} {rs : List Rec}, Sound P s →
      (∀ k r, (k, some r) ∈ pre → ∃ r', PureRecOf P k r' ∧ Rec.same r r') →
      batchLoop P (E P n) fl s pre = some (s', os, rs) →
      Sound P s' ∧ ∃ os' rs', PLoop P fl (pre.map (·.1)) os' rs' ∧ simList os os' ∧ RecsSim P rs rs'
  | [], s, s', os, rs, hs, _, h => by
    simp only [batchLoop] at h; cases h
    exact ⟨hs, [], [], PLoop.nil P fl, trivial, trivial⟩
  | (key, p) :: rest, s, s', os, rs, hs, hpre, h => by
    obtain ⟨s1, o, r, os1, rs1, e1, e2, hb, hc⟩ := batchLoop_cons_inv h
    subst e1 e2
    have hpre' : ∀ k r, (k, some r) ∈ rest → ∃ r', PureRecOf P k r' ∧ Rec.same r r' :=
      fun k r hm => hpre k r (List.mem_cons_of_mem _ hm)
    rcases hc with ⟨e, e', e''⟩ | ⟨_, hl⟩
    · subst e e' e''
      obtain ⟨r', hp, hr⟩ := hpre key r (List.mem_cons_self ..)
      obtain ⟨o', hl, ho⟩ := hit_sim hfl hp hr
      obtain ⟨hs', os', rs', hloop, hos, hrs⟩ := sim_loop hw hnp H hfl rest hs hpre' hb
      exact ⟨hs', o' :: os', r' :: rs', PLoop.cons hl hloop, ⟨ho, hos⟩, ⟨⟨hr, by rw [hp.key]; exact hp⟩, hrs⟩⟩
    · obtain ⟨hs1, o', r', hl', ho, hr⟩ := sim_local hw hnp H hs hfl hl
      obtain ⟨hs', os', rs', hloop, hos, hrs⟩ := sim_loop hw hnp H hfl rest hs1 hpre' hb
      exact ⟨hs', o' :: os', r' :: rs', PLoop.cons hl' hloop, ⟨ho, hos⟩, ⟨hr, hrs⟩⟩

theorem sim_run {P : Prog} (hw : WellBehaved P) (hnp : NoPrevent P) : ∀ n, RunSimAt P n
  | 0 => by
    intro s s' caller caller' fn args ctx fl res recs _ _ _ h
    rw [run_zero] at h; cases h
  | n + 1 => by
    intro s s' caller caller' fn args ctx fl res recs hs hc hfl h
    rw [run_succ, runBatchWith_eq] at h
    split at h
    · rename_i hu
      cases h
      rw [hc.undeclared] at hu
      exact ⟨hs, _, _, PRun.undeclared hu args ctx fl, Outcome.sim_refl _, trivial⟩
    · rename_i hu
      have hu' : undeclared P caller' fn = false := by rw [← hc.undeclared]; simpa using hu
      split at h
      · rename_i hp
        cases h
        rw [hc.prevented] at hp
        exact ⟨hs, _, _, PRun.prevented hu' hp args ctx fl, Outcome.sim_refl _, trivial⟩
      · rename_i hp
        have hp' : prevented caller' = false := by rw [← hc.prevented]; simpa using hp
        split at h
        · cases h
        · rename_i s2 os rs hb
          cases h
          have hpre : ∀ k r, (k, some r) ∈ args.map (fun a => ((⟨fn, a, effCtx caller ctx⟩ : Key), s.get ⟨fn, a, effCtx caller ctx⟩)) →
              ∃ r', PureRecOf P k r' ∧ Rec.same r r' := by
            intro k r hm
            obtain ⟨a, _, ha⟩ := List.mem_map.1 hm
            rw [Prod.mk.injEq] at ha
            rw [← ha.1]
            exact hs.get ha.2
          obtain ⟨hs', os', rs', hloop, hos, hrs⟩ := sim_loop hw hnp (sim_run hw hnp n) hfl _ hs hpre hb
          refine ⟨hs', .ok os', rs', PRun.ok hu' hp' ?_, hos, hrs⟩
          rw [List.map_map, hc.effCtx] at hloop
          exact hloop

/-! ### consequences for top-level calls -/

theorem Rec.same_symm {r r' : Rec} (h : Rec.same r r') : Rec.same r' r :=
  ⟨h.1.symm, Outcome.sim_symm h.2.1, h.2.2.1.symm, h.2.2.2.1.symm, fun f => (h.2.2.2.2 f).symm⟩

theorem Rec.same_trans {a b c : Rec} (h : Rec.same a b) (h' : Rec.same b c) : Rec.same a c :=
  ⟨h.1.trans h'.1, Outcome.sim_trans h.2.1 h'.2.1, h.2.2.1.trans h'.2.2.1, h.2.2.2.1.trans h'.2.2.2.1,
    fun f => (h.2.2.2.2 f).trans (h'.2.2.2.2 f)⟩

/-- the record a top-level single call propagates carries the call's key -/
theorem run_single_top_key {P : Prog} {n : Nat} {s s' : St} (hk : Keyed s) {fn : Fn} {arg : Val} {ctx : CtxSpec} {fl : Flags}
    {res} {r : Rec} (h : run P n s none fn [arg] ctx fl = some (s', res, [r])) : r.key = ⟨fn, arg, effCtx none ctx⟩ := by
  cases n with
  | zero => rw [run_zero] at h; cases h
  | succ n =>
    rw [run_single_top] at h
    split at h
    · rename_i r0 hg; cases h; exact hk _ _ hg
    · split at h
      · cases h
      · rename_i s1 o r1 hl; cases h; exact (runLocal_ext (E_ext P n) hl).2 hk

/-- top-level form of the simulation -/
theorem sim_top {P : Prog} (hw : WellBehaved P) (hnp : NoPrevent P) {n : Nat} {s s' : St} (hs : Sound P s) {fn : Fn}
    {args : List Val} {ctx : CtxSpec} {fl : Flags} (hfl : fl.prevent = false) {res} {recs : List Rec}
    (h : run P n s none fn args ctx fl = some (s', res, recs)) :
    Sound P s' ∧ ∃ m sd' res' recs', run P m emp none fn args ctx fl = some (sd', res', recs') ∧
      ResSim res res' ∧ RecsSim P recs recs' := by
  obtain ⟨hs', res', recs', ⟨m, hm⟩, hres, hrecs⟩ := sim_run hw hnp n s s' none none fn args ctx fl res recs hs trivial hfl h
  obtain ⟨sd', _, e⟩ := hm emp rfl
  exact ⟨hs', m, sd', res', recs', e, hres, hrecs⟩

end Memento.Runner
