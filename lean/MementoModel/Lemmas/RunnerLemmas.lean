import MementoModel.Lemmas.RunnerInv

/-!
  Basic lemmas on the runner model: store access, normal forms of `runLocal` / `runBatchWith`,
  the extension relation `Ext` between the state before and after any evaluation (flag kept, entries
  only added, trace only extended, entries change only for executed keys), and fuel monotonicity.
  Core-only.
-/
namespace Memento.Runner

/-! ### store access -/

theorem St.get_disabled {s : St} (h : s.enabled = false) (k : Key) : s.get k = none := by
  simp [St.get, h]

theorem St.put_disabled {s : St} (h : s.enabled = false) (k : Key) (r : Rec) : s.put k r = s := by
  simp [St.put, h]

@[simp] theorem St.put_enabled (s : St) (k : Key) (r : Rec) : (s.put k r).enabled = s.enabled := by
  unfold St.put; split <;> rfl

@[simp] theorem St.put_trace (s : St) (k : Key) (r : Rec) : (s.put k r).trace = s.trace := by
  unfold St.put; split <;> rfl

@[simp] theorem St.get_setTrace (s : St) (t : List Key) (k : Key) :
    ({ s with trace := t } : St).get k = s.get k := rfl

theorem St.get_put_self {s : St} (h : s.enabled = true) (k : Key) (r : Rec) : (s.put k r).get k = some r := by
  simp [St.get, St.put, h]

private theorem find_filter_ne (l : List (Key × Rec)) (k k' : Key) (h : k' ≠ k) :
    (l.filter (fun p => !(p.1 == k))).find? (fun p => p.1 == k') = l.find? (fun p => p.1 == k') := by
  induction l with
  | nil => rfl
  | cons x xs ih =>
    obtain ⟨a, b⟩ := x
    by_cases hx : a = k
    · subst hx
      have hx' : ¬ a = k' := fun e => h e.symm
      simp [hx', ih]
    · by_cases hx' : a = k'
      · subst hx'
        simp [hx]
      · simp [hx, hx', ih]

theorem St.get_put_ne (s : St) {k k' : Key} (h : k' ≠ k) (r : Rec) : (s.put k r).get k' = s.get k' := by
  unfold St.put St.get
  cases he : s.enabled
  · simp [he]
  · have hk : ¬ k = k' := fun e => h e.symm
    simp [hk, find_filter_ne _ _ _ h]

theorem St.get_put_cases {s : St} {k k' : Key} {r x : Rec} (h : (s.put k r).get k' = some x) :
    (k' = k ∧ x = r ∧ s.enabled = true) ∨ (k' ≠ k ∧ s.get k' = some x) := by
  by_cases hk : k' = k
  · subst hk
    cases he : s.enabled
    · rw [St.put_disabled he, St.get_disabled he] at h; cases h
    · rw [St.get_put_self he] at h; cases h; exact .inl ⟨rfl, rfl, rfl⟩
  · rw [St.get_put_ne s hk] at h; exact .inr ⟨hk, h⟩

private theorem find_filter_self (l : List (Key × Rec)) (k : Key) :
    (l.filter (fun p => !(p.1 == k))).find? (fun p => p.1 == k) = none := by
  induction l with
  | nil => rfl
  | cons x xs ih =>
    by_cases hx : x.1 = k
    · simp [hx, ih]
    · simp [hx, ih]

theorem forget_get_self (s : St) (k : Key) : (forget s k).get k = none := by
  unfold forget St.get
  cases s.enabled
  · simp
  · simp only [if_true, find_filter_self]; rfl

theorem forget_get_ne (s : St) {k k' : Key} (h : k' ≠ k) : (forget s k).get k' = s.get k' := by
  unfold forget St.get
  cases s.enabled
  · simp
  · simp only [if_true, find_filter_ne _ _ _ h]

/-! ### replay / sim -/

theorem replay_replay (o : Outcome) : replay (replay o) = replay o := by
  cases o with
  | val v => rfl
  | exc c m =>
    simp only [replay]
    by_cases h : c = clsOpaque
    · simp [h, clsMemento, clsOpaque]
    · simp [h]

theorem Outcome.sim_refl (o : Outcome) : Outcome.sim o o := rfl
theorem Outcome.sim_symm {o o' : Outcome} (h : Outcome.sim o o') : Outcome.sim o' o := Eq.symm h
theorem Outcome.sim_trans {a b c : Outcome} (h : Outcome.sim a b) (h' : Outcome.sim b c) : Outcome.sim a c :=
  Eq.trans h h'
theorem Outcome.sim_replay (o : Outcome) : Outcome.sim (replay o) o := replay_replay o

theorem Outcome.sim_val_left {v : Option Val} {o : Outcome} (h : Outcome.sim (.val v) o) : o = .val v := by
  cases o with
  | val w => simp [Outcome.sim, replay] at h; simp [h]
  | exc c m => simp [Outcome.sim, replay] at h

theorem Outcome.sim_isExc {o o' : Outcome} (h : Outcome.sim o o') : o.isExc = o'.isExc := by
  cases o with
  | val v => rw [Outcome.sim_val_left h]
  | exc c m =>
    cases o' with
    | val w => have := Outcome.sim_val_left (Outcome.sim_symm h); cases this
    | exc c' m' => rfl

/-! ### normal forms -/

/-- the frame a body starts with -/
def fr0 (key : Key) (p : Bool) : Frame := { key, prevent := p, invs := [], res := [], deps := [key.fn] }

/-- the record built from the final frame of a body -/
def mkRec (key : Key) (o : Outcome) (fr : Frame) : Rec :=
  { key, out := o, invs := fr.invs, res := fr.res, deps := fr.deps }

/-- what the caller of a *computed* call gets -/
def deliver (fl : Flags) : Outcome → Outcome
  | .exc c m => .exc c m
  | .val v => if fl.ignore then .val none else .val v

def isNonMemo : Outcome → Bool
  | .exc c _ => c == clsNonMemoized
  | _ => false

/-- the store after a computed call -/
def storeAfter (s1 : St) (key : Key) (o : Outcome) (r : Rec) : St :=
  if isNonMemo o then s1 else if (s1.get key).isSome then s1 else s1.put key r

theorem runLocal_hit {P : Prog} {exec} {s : St} {key : Key} {fl : Flags} {r : Rec} (h : s.get key = some r) :
    runLocal P exec s key fl = some (s, serve r fl, r) := by
  simp [runLocal, h]

theorem runLocal_miss {P : Prog} {exec} {s : St} {key : Key} {fl : Flags} (h : s.get key = none) :
    runLocal P exec s key fl =
      match exec (P.body key.fn key.arg) { s with trace := s.trace ++ [key] } (fr0 key fl.prevent) with
      | none => none
      | some (s1, o, fr) => some (storeAfter s1 key o (mkRec key o fr), deliver fl o, mkRec key o fr) := by
  unfold runLocal
  simp only [h, fr0]
  generalize exec (P.body key.fn key.arg) _ _ = x
  match x with
  | none => rfl
  | some (s1, .val v, fr) => simp [storeAfter, isNonMemo, deliver, mkRec]
  | some (s1, .exc c m, fr) =>
    by_cases hc : c = clsNonMemoized
    · simp [storeAfter, isNonMemo, deliver, mkRec, hc]
    · simp [storeAfter, isNonMemo, deliver, mkRec, hc]

def undeclared (P : Prog) (caller : Option Frame) (fn : Fn) : Bool :=
  match caller with
  | some fr => !(P.explicit fr.key.fn) && fr.key.fn != fn && !(P.declared fr.key.fn fn)
  | none => false

def prevented (caller : Option Frame) : Bool :=
  match caller with
  | some fr => fr.prevent
  | none => false

theorem runBatchWith_eq (P : Prog) (exec) (s : St) (caller : Option Frame) (fn : Fn) (args : List Val)
    (ctx : CtxSpec) (fl : Flags) :
    runBatchWith P exec s caller fn args ctx fl =
      if undeclared P caller fn then some (s, .error (.exc clsUndeclared 0), [])
      else if prevented caller then some (s, .error (.exc clsRuntime 0), [])
      else
        match batchLoop P exec fl s (args.map (fun a => ((⟨fn, a, effCtx caller ctx⟩ : Key), s.get ⟨fn, a, effCtx caller ctx⟩))) with
        | none => none
        | some (s', os, rs) => some (s', .ok os, rs) := by
  cases caller <;> simp only [runBatchWith, undeclared, prevented, List.map_map, Function.comp_def] <;> rfl

/-- the evaluator for nested calls at fuel `n` -/
def calleeAt (P : Prog) (n : Nat) : St → Frame → Fn → List Val → CtxSpec → Flags → Option BatchResult :=
  fun s' fr f as c f' => run P n s' (some fr) f as c f'

/-- the body evaluator at fuel `n` -/
def E (P : Prog) (n : Nat) : Body → St → Frame → Option (St × Outcome × Frame) := execBody (calleeAt P n)

theorem run_zero (P : Prog) (s : St) (c : Option Frame) (fn : Fn) (args : List Val) (ctx : CtxSpec) (fl : Flags) :
    run P 0 s c fn args ctx fl = none := rfl

theorem run_succ (P : Prog) (n : Nat) (s : St) (c : Option Frame) (fn : Fn) (args : List Val) (ctx : CtxSpec) (fl : Flags) :
    run P (n + 1) s c fn args ctx fl = runBatchWith P (E P n) s c fn args ctx fl := rfl

/-! ### inversion of `execBody` -/

theorem execBody_call_inv {callee} {fn : Fn} {arg : Val} {ctx : CtxSpec} {fl : Flags} {k : Outcome → Body}
    {s : St} {fr : Frame} {x : St × Outcome × Frame}
    (h : execBody callee (.call fn arg ctx fl k) s fr = some x) :
    ∃ s1 recs, ((∃ e, callee s fr fn [arg] ctx fl = some (s1, .error e, recs) ∧
                    execBody callee (k e) s1 (recs.foldl propagate fr) = some x) ∨
                (∃ o, callee s fr fn [arg] ctx fl = some (s1, .ok [o], recs) ∧
                    execBody callee (k o) s1 (recs.foldl propagate fr) = some x)) := by
  simp only [execBody] at h
  split at h
  · cases h
  · rename_i s1 e recs hc; exact ⟨s1, recs, .inl ⟨e, hc, h⟩⟩
  · rename_i s1 o recs hc; exact ⟨s1, recs, .inr ⟨o, hc, h⟩⟩
  · cases h

theorem execBody_batch_inv {callee} {fn : Fn} {args : List Val} {ctx : CtxSpec} {fl : Flags}
    {k : Except Outcome (List Outcome) → Body} {s : St} {fr : Frame} {x : St × Outcome × Frame}
    (h : execBody callee (.batch fn args ctx fl k) s fr = some x) :
    ∃ s1 r recs, callee s fr fn args ctx fl = some (s1, r, recs) ∧
      execBody callee (k r) s1 (recs.foldl propagate fr) = some x := by
  simp only [execBody] at h
  split at h
  · cases h
  · rename_i s1 r recs hc; exact ⟨s1, r, recs, hc, h⟩

theorem execBody_call_ok {callee} {fn : Fn} {arg : Val} {ctx : CtxSpec} {fl : Flags} {k : Outcome → Body}
    {s s1 : St} {fr : Frame} {o : Outcome} {recs : List Rec}
    (hc : callee s fr fn [arg] ctx fl = some (s1, .ok [o], recs)) :
    execBody callee (.call fn arg ctx fl k) s fr = execBody callee (k o) s1 (recs.foldl propagate fr) := by
  simp only [execBody, hc]

theorem execBody_call_err {callee} {fn : Fn} {arg : Val} {ctx : CtxSpec} {fl : Flags} {k : Outcome → Body}
    {s s1 : St} {fr : Frame} {e : Outcome} {recs : List Rec}
    (hc : callee s fr fn [arg] ctx fl = some (s1, .error e, recs)) :
    execBody callee (.call fn arg ctx fl k) s fr = execBody callee (k e) s1 (recs.foldl propagate fr) := by
  simp only [execBody, hc]

theorem execBody_batch_some {callee} {fn : Fn} {args : List Val} {ctx : CtxSpec} {fl : Flags}
    {k : Except Outcome (List Outcome) → Body} {s s1 : St} {fr : Frame} {r} {recs : List Rec}
    (hc : callee s fr fn args ctx fl = some (s1, r, recs)) :
    execBody callee (.batch fn args ctx fl k) s fr = execBody callee (k r) s1 (recs.foldl propagate fr) := by
  simp only [execBody, hc]

/-! ### inversion of `batchLoop` -/

theorem batchLoop_cons_some {P : Prog} {exec} {fl : Flags} {s : St} {key : Key} {r : Rec} {rest} :
    batchLoop P exec fl s ((key, some r) :: rest) =
      match batchLoop P exec fl s rest with
      | none => none
      | some (s', os, rs) => some (s', serve r fl :: os, r :: rs) := by
  rfl

theorem batchLoop_cons_none {P : Prog} {exec} {fl : Flags} {s : St} {key : Key} {rest} :
    batchLoop P exec fl s ((key, none) :: rest) =
      match runLocal P exec s key fl with
      | none => none
      | some (s1, o, r) =>
        match batchLoop P exec fl s1 rest with
        | none => none
        | some (s', os, rs) => some (s', o :: os, r :: rs) := by
  rfl

theorem batchLoop_cons_inv {P : Prog} {exec} {fl : Flags} {s s' : St} {key : Key} {pre : Option Rec} {rest}
    {os : List Outcome} {rs : List Rec}
    (h : batchLoop P exec fl s ((key, pre) :: rest) = some (s', os, rs)) :
    ∃ s1 o r os1 rs1, os = o :: os1 ∧ rs = r :: rs1 ∧ batchLoop P exec fl s1 rest = some (s', os1, rs1) ∧
      ((pre = some r ∧ s1 = s ∧ o = serve r fl) ∨ (pre = none ∧ runLocal P exec s key fl = some (s1, o, r))) := by
  cases pre with
  | some r =>
    rw [batchLoop_cons_some] at h
    split at h
    · cases h
    · rename_i s2 os1 rs1 hb
      cases h
      exact ⟨s, serve r fl, r, os1, rs1, rfl, rfl, hb, .inl ⟨rfl, rfl, rfl⟩⟩
  | none =>
    rw [batchLoop_cons_none] at h
    split at h
    · cases h
    · rename_i s1 o r hl
      split at h
      · cases h
      · rename_i s2 os1 rs1 hb
        cases h
        exact ⟨s1, o, r, os1, rs1, rfl, rfl, hb, .inr ⟨rfl, hl⟩⟩

end Memento.Runner
