import MementoModel.Lemmas.RunnerExt

/-! Top-level calls: inversion of `callTop`, and what a computed call does to trace and store. Core-only. -/
namespace Memento.Runner

theorem batchLoop_single {P : Prog} {exec} {fl : Flags} {s : St} {k : Key} (p : Option Rec) :
    batchLoop P exec fl s [(k, p)] =
      match p with
      | some r => some (s, [serve r fl], [r])
      | none =>
        match runLocal P exec s k fl with
        | none => none
        | some (s1, o, r) => some (s1, [o], [r]) := by
  cases p with
  | some r => simp only [batchLoop]
  | none =>
    rw [batchLoop_cons_none]
    cases runLocal P exec s k fl with
    | none => rfl
    | some x => obtain ⟨s1, o, r⟩ := x; simp only [batchLoop]

/-- a top-level batch of one element -/
theorem run_single_top (P : Prog) (n : Nat) (s : St) (fn : Fn) (arg : Val) (ctx : CtxSpec) (fl : Flags) :
    run P (n + 1) s none fn [arg] ctx fl =
      match s.get ⟨fn, arg, effCtx none ctx⟩ with
      | some r => some (s, .ok [serve r fl], [r])
      | none =>
        match runLocal P (E P n) s ⟨fn, arg, effCtx none ctx⟩ fl with
        | none => none
        | some (s1, o, r) => some (s1, .ok [o], [r]) := by
  rw [run_succ, runBatchWith_eq]
  simp only [undeclared, prevented, List.map_cons, List.map_nil, batchLoop_single]
  cases s.get ⟨fn, arg, effCtx none ctx⟩ with
  | some r => rfl
  | none =>
    simp only []
    cases runLocal P (E P n) s ⟨fn, arg, effCtx none ctx⟩ fl with
    | none => rfl
    | some x => rfl

theorem callTop_succ (P : Prog) (n : Nat) (s : St) (fn : Fn) (arg : Val) (ctx : CtxSpec) (fl : Flags) :
    callTop P (n + 1) s fn arg ctx fl =
      match s.get ⟨fn, arg, effCtx none ctx⟩ with
      | some r => some (s, serve r fl)
      | none =>
        match runLocal P (E P n) s ⟨fn, arg, effCtx none ctx⟩ fl with
        | none => none
        | some (s1, o, _) => some (s1, o) := by
  unfold callTop
  rw [run_single_top]
  cases s.get ⟨fn, arg, effCtx none ctx⟩ with
  | some r => rfl
  | none =>
    simp only []
    cases runLocal P (E P n) s ⟨fn, arg, effCtx none ctx⟩ fl with
    | none => rfl
    | some x => rfl

theorem callTop_zero (P : Prog) (s : St) (fn : Fn) (arg : Val) (ctx : CtxSpec) (fl : Flags) :
    callTop P 0 s fn arg ctx fl = none := rfl

/-- inversion of a top-level call that was not memoized -/
theorem callTop_miss_inv {P : Prog} {n : Nat} {s s' : St} {fn : Fn} {arg : Val} {ctx : CtxSpec} {fl : Flags} {o : Outcome}
    (hn : s.get ⟨fn, arg, effCtx none ctx⟩ = none) (h : callTop P n s fn arg ctx fl = some (s', o)) :
    ∃ n' s1 ob fr1, n = n' + 1 ∧
      E P n' (P.body fn arg) { s with trace := s.trace ++ [⟨fn, arg, effCtx none ctx⟩] } (fr0 ⟨fn, arg, effCtx none ctx⟩ fl.prevent)
        = some (s1, ob, fr1) ∧
      o = deliver fl ob ∧
      s' = storeAfter s1 ⟨fn, arg, effCtx none ctx⟩ ob (mkRec ⟨fn, arg, effCtx none ctx⟩ ob fr1) := by
  cases n with
  | zero => rw [callTop_zero] at h; cases h
  | succ n' =>
    rw [callTop_succ, hn] at h
    simp only [] at h
    split at h
    · cases h
    · rename_i s1 o1 r hl
      cases h
      obtain ⟨s2, ob, fr1, hx, hr, ho, hs⟩ := runLocal_miss_inv hn hl
      subst hr
      exact ⟨n', s2, ob, fr1, rfl, hx, ho, hs⟩

/-- what a computed top-level call leaves: the key is the first new trace entry; entries of keys
    that were not executed are unchanged; the flag is kept -/
theorem callTop_miss_spec {P : Prog} {n : Nat} {s s' : St} {fn : Fn} {arg : Val} {ctx : CtxSpec} {fl : Flags} {o : Outcome}
    (hn : s.get ⟨fn, arg, effCtx none ctx⟩ = none) (h : callTop P n s fn arg ctx fl = some (s', o)) :
    ∃ s1 ob fr1 rest,
      o = deliver fl ob ∧
      s' = storeAfter s1 ⟨fn, arg, effCtx none ctx⟩ ob (mkRec ⟨fn, arg, effCtx none ctx⟩ ob fr1) ∧
      s'.trace = s.trace ++ (⟨fn, arg, effCtx none ctx⟩ :: rest) ∧
      s1.enabled = s.enabled ∧
      (∀ k, k ∉ rest → s1.get k = s.get k) := by
  obtain ⟨n', s1, ob, fr1, _, hx, ho, hs⟩ := callTop_miss_inv hn h
  have hE := E_ext P n' _ _ _ _ _ _ hx
  obtain ⟨_, rest, ht, _, hf⟩ := Ext.local (r := mkRec ⟨fn, arg, effCtx none ctx⟩ ob fr1) ob rfl hE
  exact ⟨s1, ob, fr1, rest, ho, hs, by rw [hs]; exact ht, hE.enabled, hf⟩

end Memento.Runner
