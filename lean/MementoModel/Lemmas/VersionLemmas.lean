import MementoModel.Lemmas.Closure

/-! Rule collection = reachability in the reference graph (name level); consequences for the
dependency reports. -/
namespace Memento.Version

/-- the traversal may enumerate a definition's references in any order -/
def OrdOK (ord : List Name → List Name) : Prop := ∀ l, (ord l).Perm l

theorem OrdOK.mem {ord : List Name → List Name} (h : OrdOK ord) {l : List Name} {a : Name} :
    a ∈ ord l ↔ a ∈ l := (h l).mem_iff

theorem ordOK_id : OrdOK id := fun _ => List.Perm.refl _
theorem ordOK_reverse : OrdOK List.reverse := fun l => List.reverse_perm l

theorem lookup_some_mem {P : Prog} {n : Name} {d : Def} (h : lookup P n = some d) : (n, d) ∈ P := by
  induction P with
  | nil => simp [lookup] at h
  | cons p P ih =>
    obtain ⟨k, e⟩ := p
    simp only [lookup] at h
    by_cases hk : k = n
    · simp only [hk, if_true, Option.some.injEq] at h
      subst h; subst hk; exact List.mem_cons_self
    · simp only [hk, if_false] at h
      exact List.mem_cons_of_mem _ (ih h)

theorem lookup_mem_names {P : Prog} {n : Name} {d : Def} (h : lookup P n = some d) : n ∈ names P := by
  unfold names
  exact List.mem_append_left _ (List.mem_map.mpr ⟨(n, d), lookup_some_mem h, rfl⟩)

theorem refs_mem_names {P : Prog} {n : Name} {d : Def} {r : Name} (h : lookup P n = some d) (hr : r ∈ d.refs) :
    r ∈ names P := by
  unfold names
  exact List.mem_append_right _ (List.mem_flatMap.mpr ⟨(n, d), lookup_some_mem h, hr⟩)

theorem mkNode_some {P : Prog} {p r : Name} {x : Node} (h : mkNode P p r = some x) :
    x.parent = some p ∧ x.target = r := by
  unfold mkNode at h
  split at h
  · cases h; exact ⟨rfl, rfl⟩
  · cases h; exact ⟨rfl, rfl⟩
  · split at h
    · cases h; exact ⟨rfl, rfl⟩
    · cases h
  · cases h; exact ⟨rfl, rfl⟩
  · cases h

/-- memento functions and in-package plain functions are descended into -/
def expands (P : Prog) (n : Name) : Bool :=
  match lookup P n with
  | some (.memento _ _ _) => true
  | some (.plain true _ _) => true
  | _ => false

theorem mkNode_kind_fn {P : Prog} {p r : Name} {x : Node} (h : mkNode P p r = some x)
    (hk : x.kind = .mfn ∨ x.kind = .fn) : expands P r = true := by
  unfold mkNode at h
  unfold expands
  split at h
  · cases h; simp at hk
  · simp_all
  · split at h
    · simp_all
    · cases h
  · cases h; simp at hk
  · cases h

theorem mkNode_mfn_iff {P : Prog} {p r : Name} :
    mkNode P p r = some ⟨.mfn, some p, r⟩ ↔ isMemento P r = true := by
  unfold mkNode isMemento
  split <;> simp_all

theorem mkNode_of_expands {P : Prog} {p r : Name} (h : expands P r = true) :
    ∃ x, mkNode P p r = some x ∧ (x.kind = .mfn ∨ x.kind = .fn) ∧ x.target = r := by
  unfold expands at h
  unfold mkNode
  split at h
  · rename_i e; simp [e]
  · rename_i e; simp [e]
  · cases h

theorem mem_succ {P : Prog} {ord : List Name → List Name} (hord : OrdOK ord) {x y : Node} :
    y ∈ succ P ord x ↔ (x.kind = .mfn ∨ x.kind = .fn) ∧
      ∃ d, lookup P x.target = some d ∧ ∃ r ∈ d.refs, mkNode P x.target r = some y := by
  unfold succ
  cases hk : x.kind <;> simp only [List.not_mem_nil, false_and, reduceCtorEq, or_self, or_false, or_true, true_and]
  all_goals
    cases hl : lookup P x.target with
    | none => simp
    | some d =>
      simp only [List.mem_filterMap, hord.mem, Option.some.injEq, exists_eq_left']

theorem succ_mem_allNodes {P : Prog} {ord : List Name → List Name} (hord : OrdOK ord) (f : Name) {x y : Node}
    (h : y ∈ succ P ord x) : y ∈ allNodes P f := by
  obtain ⟨_, d, hd, r, hr, hm⟩ := (mem_succ hord).mp h
  obtain ⟨hp, ht⟩ := mkNode_some hm
  unfold allNodes
  refine List.mem_cons_of_mem _ (List.mem_flatMap.mpr ⟨x.target, lookup_mem_names hd, ?_⟩)
  refine List.mem_flatMap.mpr ⟨r, refs_mem_names hd hr, ?_⟩
  obtain ⟨k, p, t⟩ := y
  simp only at hp ht
  subst hp; subst ht
  cases k <;> simp

theorem mem_rules_iff {P : Prog} {ord : List Name → List Name} (hord : OrdOK ord) {f : Name} {x : Node} :
    x ∈ rules P ord f ↔ Reachable (succ P ord) [rootNode f] x := by
  unfold rules
  constructor
  · intro h
    rcases closure_sound _ _ _ _ x h with h | h
    · cases h
    · exact h
  · intro h
    have hc := closure_complete (succ P ord) (allNodes P f) (fun a b hb => succ_mem_allNodes hord f hb)
      (fuel P f) [rootNode f] []
      (by intro a ha; rcases List.mem_singleton.mp ha with rfl; unfold allNodes; exact List.mem_cons_self)
      (by unfold unvisited fuel; exact Nat.le_succ_of_le (List.countP_le_length))
      (by intro a ha; cases ha)
    exact reachable_in_closed hc.2.1 hc.2.2 h

theorem rules_nodup (P : Prog) (ord : List Name → List Name) (f : Name) : (rules P ord f).Nodup :=
  closure_nodup _ _ _ _ List.nodup_nil

/-! ### name-level reachability -/

/-- `g` occurs among the names in the body of `p` -/
def RefersTo (P : Prog) (p g : Name) : Prop := ∃ d, lookup P p = some d ∧ g ∈ d.refs

/-- `g` is reached from `f` by a chain of references whose intermediate definitions are memento
    functions or in-package plain functions -/
inductive ReachN (P : Prog) (f : Name) : Name → Prop
  | direct {g} : RefersTo P f g → ReachN P f g
  | step {h g} : ReachN P f h → expands P h = true → RefersTo P h g → ReachN P f g

/-- characterisation of the rule nodes reached from the root rule -/
def NodeOK (P : Prog) (f : Name) (x : Node) : Prop :=
  x = rootNode f ∨ ∃ p, (p = f ∨ (ReachN P f p ∧ expands P p = true)) ∧ RefersTo P p x.target ∧
    mkNode P p x.target = some x

theorem reachable_nodeOK {P : Prog} {ord : List Name → List Name} (hord : OrdOK ord) {f : Name} {x : Node}
    (h : Reachable (succ P ord) [rootNode f] x) : NodeOK P f x := by
  induction h with
  | root hx => exact Or.inl (List.mem_singleton.mp hx)
  | @step x y _ hy ih =>
    obtain ⟨hk, d, hd, r, hr, hm⟩ := (mem_succ hord).mp hy
    obtain ⟨_, ht⟩ := mkNode_some hm
    refine Or.inr ⟨x.target, ?_, ⟨d, hd, ht ▸ hr⟩, ht ▸ hm⟩
    rcases ih with rfl | ⟨p, hp, href, hmk⟩
    · exact Or.inl rfl
    · refine Or.inr ⟨?_, mkNode_kind_fn hmk hk⟩
      rcases hp with rfl | ⟨hp, he⟩
      · exact ReachN.direct href
      · exact ReachN.step hp he href

theorem reachN_node {P : Prog} {ord : List Name → List Name} (hord : OrdOK ord) {f p : Name}
    (h : ReachN P f p) (he : expands P p = true) :
    ∃ x, Reachable (succ P ord) [rootNode f] x ∧ x.target = p ∧ (x.kind = .mfn ∨ x.kind = .fn) := by
  induction h with
  | @direct g href =>
    obtain ⟨x, hx, hk, ht⟩ := mkNode_of_expands (P := P) (p := f) he
    obtain ⟨d, hd, hr⟩ := href
    refine ⟨x, Reachable.step (Reachable.root (List.mem_singleton.mpr rfl)) ?_, ht, hk⟩
    exact (mem_succ hord).mpr ⟨Or.inl rfl, d, hd, g, hr, hx⟩
  | @step h g hh heh href ih =>
    obtain ⟨xh, hxh, hth, hkh⟩ := ih heh
    obtain ⟨x, hx, hk, ht⟩ := mkNode_of_expands (P := P) (p := h) he
    obtain ⟨d, hd, hr⟩ := href
    refine ⟨x, Reachable.step hxh ?_, ht, hk⟩
    exact (mem_succ hord).mpr ⟨hkh, d, hth ▸ hd, g, hr, hth ▸ hx⟩

theorem nodeOK_reachable {P : Prog} {ord : List Name → List Name} (hord : OrdOK ord) {f : Name} {x : Node}
    (h : NodeOK P f x) : Reachable (succ P ord) [rootNode f] x := by
  rcases h with rfl | ⟨p, hp, ⟨d, hd, hr⟩, hmk⟩
  · exact Reachable.root (List.mem_singleton.mpr rfl)
  · rcases hp with rfl | ⟨hp, he⟩
    · exact Reachable.step (Reachable.root (List.mem_singleton.mpr rfl))
        ((mem_succ hord).mpr ⟨Or.inl rfl, d, hd, x.target, hr, hmk⟩)
    · obtain ⟨xp, hxp, htp, hkp⟩ := reachN_node hord hp he
      exact Reachable.step hxp ((mem_succ hord).mpr ⟨hkp, d, htp ▸ hd, x.target, hr, htp ▸ hmk⟩)

theorem mem_rules_nodeOK {P : Prog} {ord : List Name → List Name} (hord : OrdOK ord) {f : Name} {x : Node} :
    x ∈ rules P ord f ↔ NodeOK P f x :=
  (mem_rules_iff hord).trans ⟨reachable_nodeOK hord, nodeOK_reachable hord⟩

theorem mem_dedup {l : List Name} {a : Name} : a ∈ dedup l ↔ a ∈ l := by
  induction l with
  | nil => simp [dedup]
  | cons x xs ih =>
    unfold dedup
    by_cases h : x ∈ xs
    · simp only [h, if_true, ih, List.mem_cons]
      constructor
      · exact Or.inr
      · rintro (rfl | h') <;> assumption
    · simp only [h, if_false, List.mem_cons, ih]

theorem dedup_nodup (l : List Name) : (dedup l).Nodup := by
  induction l with
  | nil => simp [dedup]
  | cons x xs ih =>
    unfold dedup
    by_cases h : x ∈ xs
    · simpa [h] using ih
    · simp only [h, if_false, List.nodup_cons, mem_dedup, not_false_eq_true, true_and]; exact ih


/-! ### dependency reports -/

theorem mkNode_mfn_of {P : Prog} {p r : Name} {x : Node} (h : mkNode P p r = some x) (hk : x.kind = .mfn) :
    isMemento P r = true := by
  obtain ⟨hp, ht⟩ := mkNode_some h
  obtain ⟨k, pp, t⟩ := x
  simp only at hp ht hk
  subst hp; subst ht; subst hk
  exact mkNode_mfn_iff.mp h

theorem mem_transDeps {P : Prog} {ord : List Name → List Name} (hord : OrdOK ord) {f g : Name} :
    g ∈ transDeps P ord f ↔ g ≠ f ∧ isMemento P g = true ∧ ReachN P f g := by
  unfold transDeps
  simp only [mem_dedup, List.mem_map, List.mem_filter, mem_rules_nodeOK hord, Bool.and_eq_true, beq_iff_eq, bne_iff_ne]
  constructor
  · rintro ⟨x, ⟨hok, hk, hne⟩, rfl⟩
    refine ⟨hne, ?_⟩
    rcases hok with rfl | ⟨p, hp, href, hmk⟩
    · exact absurd rfl hne
    · refine ⟨mkNode_mfn_of hmk hk, ?_⟩
      rcases hp with rfl | ⟨hp, he⟩
      · exact ReachN.direct href
      · exact ReachN.step hp he href
  · rintro ⟨hne, hm, hr⟩
    cases hr with
    | direct href =>
      exact ⟨⟨.mfn, some f, g⟩, ⟨Or.inr ⟨f, Or.inl rfl, href, mkNode_mfn_iff.mpr hm⟩, rfl, hne⟩, rfl⟩
    | @step h _ hh he href =>
      exact ⟨⟨.mfn, some h, g⟩, ⟨Or.inr ⟨h, Or.inr ⟨hh, he⟩, href, mkNode_mfn_iff.mpr hm⟩, rfl, hne⟩, rfl⟩

theorem mem_directDeps {P : Prog} {ord : List Name → List Name} (hord : OrdOK ord) {f g : Name} :
    g ∈ directDeps P ord f ↔ g ≠ f ∧ isMemento P g = true ∧ RefersTo P f g := by
  unfold directDeps
  simp only [mem_dedup, List.mem_map, List.mem_filter, mem_rules_nodeOK hord, Bool.and_eq_true, beq_iff_eq, bne_iff_ne]
  constructor
  · rintro ⟨x, ⟨hok, ⟨hk, hne⟩, hpar⟩, rfl⟩
    refine ⟨hne, ?_⟩
    rcases hok with rfl | ⟨p, _, href, hmk⟩
    · exact absurd rfl hne
    · have := (mkNode_some hmk).1
      rw [hpar] at this
      cases this
      exact ⟨mkNode_mfn_of hmk hk, href⟩
  · rintro ⟨hne, hm, href⟩
    exact ⟨⟨.mfn, some f, g⟩, ⟨Or.inr ⟨f, Or.inl rfl, href, mkNode_mfn_iff.mpr hm⟩, ⟨rfl, hne⟩, rfl⟩, rfl⟩

/-- an in-package plain function -/
def isPlainPkg (P : Prog) (n : Name) : Bool :=
  match lookup P n with
  | some (.plain true _ _) => true
  | _ => false

/-- `h` is reached from `g` by a chain of references passing through in-package plain functions only -/
inductive ReachPlain (P : Prog) (g : Name) : Name → Prop
  | direct {h} : RefersTo P g h → ReachPlain P g h
  | step {p h} : ReachPlain P g p → isPlainPkg P p = true → RefersTo P p h → ReachPlain P g h

theorem mkNode_fn_of {P : Prog} {p r : Name} {x : Node} (h : mkNode P p r = some x) (hk : x.kind = .fn) :
    isPlainPkg P r = true := by
  unfold mkNode at h
  unfold isPlainPkg
  split at h
  · cases h; simp at hk
  · cases h; simp at hk
  · split at h
    · simp_all
    · cases h
  · cases h; simp at hk
  · cases h

theorem mkNode_of_plainPkg {P : Prog} {p r : Name} (h : isPlainPkg P r = true) :
    mkNode P p r = some ⟨.fn, some p, r⟩ := by
  unfold isPlainPkg at h
  unfold mkNode
  split at h
  · rename_i e; simp [e]
  · cases h

theorem mem_succPlain {P : Prog} {ord : List Name → List Name} {x y : Node} :
    y ∈ succPlain P ord x ↔ x.kind = .fn ∧ y ∈ succ P ord x := by
  unfold succPlain
  cases hk : x.kind <;> simp

def NodeOKp (P : Prog) (g : Name) (x : Node) : Prop :=
  ∃ p, (p = g ∨ (ReachPlain P g p ∧ isPlainPkg P p = true)) ∧ RefersTo P p x.target ∧ mkNode P p x.target = some x

theorem reachablePlain_nodeOKp {P : Prog} {ord : List Name → List Name} (hord : OrdOK ord) {g : Name} {x : Node}
    (h : Reachable (succPlain P ord) (succ P ord (rootNode g)) x) : NodeOKp P g x := by
  induction h with
  | @root x hx =>
    obtain ⟨_, d, hd, r, hr, hm⟩ := (mem_succ hord).mp hx
    obtain ⟨_, ht⟩ := mkNode_some hm
    exact ⟨g, Or.inl rfl, ⟨d, hd, ht ▸ hr⟩, ht ▸ hm⟩
  | @step x y _ hy ih =>
    obtain ⟨hk, hy⟩ := mem_succPlain.mp hy
    obtain ⟨_, d, hd, r, hr, hm⟩ := (mem_succ hord).mp hy
    obtain ⟨_, ht⟩ := mkNode_some hm
    obtain ⟨p, hp, href, hmk⟩ := ih
    refine ⟨x.target, Or.inr ⟨?_, mkNode_fn_of hmk hk⟩, ⟨d, hd, ht ▸ hr⟩, ht ▸ hm⟩
    rcases hp with rfl | ⟨hp, he⟩
    · exact ReachPlain.direct href
    · exact ReachPlain.step hp he href

theorem reachPlain_node {P : Prog} {ord : List Name → List Name} (hord : OrdOK ord) {g p : Name}
    (h : ReachPlain P g p) (he : isPlainPkg P p = true) :
    ∃ x, Reachable (succPlain P ord) (succ P ord (rootNode g)) x ∧ x.target = p ∧ x.kind = .fn := by
  induction h with
  | @direct h href =>
    obtain ⟨d, hd, hr⟩ := href
    refine ⟨⟨.fn, some g, h⟩, Reachable.root ?_, rfl, rfl⟩
    exact (mem_succ hord).mpr ⟨Or.inl rfl, d, hd, h, hr, mkNode_of_plainPkg he⟩
  | @step q h hq heq href ih =>
    obtain ⟨xq, hxq, htq, hkq⟩ := ih heq
    obtain ⟨d, hd, hr⟩ := href
    refine ⟨⟨.fn, some q, h⟩, Reachable.step hxq ?_, rfl, rfl⟩
    exact mem_succPlain.mpr ⟨hkq, (mem_succ hord).mpr ⟨Or.inr hkq, d, htq ▸ hd, h, hr, htq ▸ mkNode_of_plainPkg he⟩⟩

theorem nodeOKp_reachablePlain {P : Prog} {ord : List Name → List Name} (hord : OrdOK ord) {g : Name} {x : Node}
    (h : NodeOKp P g x) : Reachable (succPlain P ord) (succ P ord (rootNode g)) x := by
  obtain ⟨p, hp, ⟨d, hd, hr⟩, hmk⟩ := h
  rcases hp with rfl | ⟨hp, he⟩
  · exact Reachable.root ((mem_succ hord).mpr ⟨Or.inl rfl, d, hd, x.target, hr, hmk⟩)
  · obtain ⟨xp, hxp, htp, hkp⟩ := reachPlain_node hord hp he
    exact Reachable.step hxp (mem_succPlain.mpr ⟨hkp, (mem_succ hord).mpr ⟨Or.inr hkp, d, htp ▸ hd, x.target, hr, htp ▸ hmk⟩⟩)

theorem mem_plainClosure {P : Prog} {ord : List Name → List Name} (hord : OrdOK ord) {g : Name} {x : Node} :
    x ∈ closure (succPlain P ord) (fuel P g) (succ P ord (rootNode g)) [] ↔ NodeOKp P g x := by
  constructor
  · intro h
    rcases closure_sound _ _ _ _ x h with h | h
    · cases h
    · exact reachablePlain_nodeOKp hord h
  · intro h
    have hc := closure_complete (succPlain P ord) (allNodes P g)
      (fun a b hb => succ_mem_allNodes hord g (mem_succPlain.mp hb).2)
      (fuel P g) (succ P ord (rootNode g)) []
      (fun a ha => succ_mem_allNodes hord g ha)
      (by unfold unvisited fuel; exact Nat.le_succ_of_le (List.countP_le_length))
      (by intro a ha; cases ha)
    exact reachable_in_closed hc.2.1 hc.2.2 (nodeOKp_reachablePlain hord h)

theorem mem_edgesFrom {P : Prog} {ord : List Name → List Name} (hord : OrdOK ord) {g h : Name} :
    h ∈ edgesFrom P ord g ↔ h ≠ g ∧ isMemento P h = true ∧ ReachPlain P g h := by
  unfold edgesFrom
  simp only [mem_dedup, List.mem_map, List.mem_filter, mem_plainClosure hord, Bool.and_eq_true, beq_iff_eq, bne_iff_ne]
  constructor
  · rintro ⟨x, ⟨⟨p, hp, href, hmk⟩, hk, hne⟩, rfl⟩
    refine ⟨hne, mkNode_mfn_of hmk hk, ?_⟩
    rcases hp with rfl | ⟨hp, he⟩
    · exact ReachPlain.direct href
    · exact ReachPlain.step hp he href
  · rintro ⟨hne, hm, hr⟩
    cases hr with
    | direct href =>
      exact ⟨⟨.mfn, some g, h⟩, ⟨⟨g, Or.inl rfl, href, mkNode_mfn_iff.mpr hm⟩, rfl, hne⟩, rfl⟩
    | @step p _ hp he href =>
      exact ⟨⟨.mfn, some p, h⟩, ⟨⟨p, Or.inr ⟨hp, he⟩, href, mkNode_mfn_iff.mpr hm⟩, rfl, hne⟩, rfl⟩

end Memento.Version
