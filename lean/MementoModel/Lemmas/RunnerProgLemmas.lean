import MementoModel.Lemmas.RunnerSim

/-!
  The hypotheses of C02/C10 are satisfiable: every program of the first-order syntax (`progOf`) is
  well-behaved, it has no prevented nested call when no statement carries the flag, and the empty
  store is sound. Core-only.
-/
namespace Memento.Runner

theorem Sound.empty (P : Prog) (t : List Key) : Sound P { store := [], trace := t } :=
  ⟨rfl, fun k r h => by simp [St.get] at h⟩

theorem Outcome.sim_exc_inv {c m : Nat} {o' : Outcome} (h : Outcome.sim (.exc c m) o') :
    ∃ c' m', o' = .exc c' m' ∧ (if c = clsOpaque then clsMemento else c) = (if c' = clsOpaque then clsMemento else c') ∧ m = m' := by
  cases o' with
  | val w => have := Outcome.sim_val_left (Outcome.sim_symm h); cases this
  | exc c' m' =>
    refine ⟨c', m', rfl, ?_⟩
    simpa [Outcome.sim, replay] using h

theorem simList_sumSlots : ∀ {os os' : List Outcome}, simList os os' → sumSlots os = sumSlots os'
  | [], [], _ => rfl
  | [], _ :: _, h => h.elim
  | _ :: _, [], h => h.elim
  | o :: os, o' :: os', h => by
    have ih := simList_sumSlots h.2
    cases o with
    | val v =>
      rw [Outcome.sim_val_left h.1]
      cases v <;> simp only [sumSlots, ih]
    | exc c m =>
      obtain ⟨c', m', rfl, _⟩ := Outcome.sim_exc_inv h.1
      simp only [sumSlots, ih]

theorem simList_firstExc : ∀ {os os' : List Outcome}, simList os os' →
    (firstExc os = none ∧ firstExc os' = none) ∨
      ∃ e e', firstExc os = some e ∧ firstExc os' = some e' ∧ Outcome.sim e e'
  | [], [], _ => .inl ⟨rfl, rfl⟩
  | [], _ :: _, h => h.elim
  | _ :: _, [], h => h.elim
  | o :: os, o' :: os', h => by
    cases o with
    | val v =>
      rw [Outcome.sim_val_left h.1]
      simp only [firstExc]
      exact simList_firstExc h.2
    | exc c m =>
      obtain ⟨c', m', rfl, _⟩ := Outcome.sim_exc_inv h.1
      exact .inr ⟨_, _, rfl, rfl, h.1⟩

theorem bsim_denoteStmts (d : FnDef) (a : Val) : ∀ (stmts : List Stmt) (acc : Int),
    BSim (denoteStmts d a stmts acc) (denoteStmts d a stmts acc)
  | [], acc => by
    simp only [denoteStmts]
    split <;> exact BSim.ret rfl
  | .resource h :: rest, acc => by
    simp only [denoteStmts]
    exact BSim.resource (bsim_denoteStmts d a rest acc)
  | .call g off ctx fl caught guard :: rest, acc => by
    simp only [denoteStmts]
    split
    · exact bsim_denoteStmts d a rest acc
    · refine BSim.call (fun o o' h => ?_)
      cases o with
      | val v =>
        rw [Outcome.sim_val_left h]
        cases v
        · exact bsim_denoteStmts d a rest acc
        · exact bsim_denoteStmts d a rest _
      | exc c m =>
        obtain ⟨c', m', rfl, hc, hm⟩ := Outcome.sim_exc_inv h
        cases caught
        · exact BSim.ret h
        · simp only [if_true]
          rw [hc]
          exact bsim_denoteStmts d a rest _
  | .batch g offs ctx fl raiseFirst guard :: rest, acc => by
    simp only [denoteStmts]
    split
    · exact bsim_denoteStmts d a rest acc
    · refine BSim.batch (fun r r' h => ?_)
      cases r with
      | error e =>
        cases r' with
        | error e' => exact BSim.ret h
        | ok os' => exact h.elim
      | ok os =>
        cases r' with
        | error e' => exact h.elim
        | ok os' =>
          have hl : simList os os' := h
          cases raiseFirst
          · simp only [Bool.false_eq_true, if_false]
            rw [simList_sumSlots hl]
            exact bsim_denoteStmts d a rest _
          · simp only [if_true]
            rcases simList_firstExc hl with ⟨h1, h2⟩ | ⟨e, e', h1, h2, he⟩
            · rw [h1, h2, simList_sumSlots hl]
              exact bsim_denoteStmts d a rest _
            · rw [h1, h2]
              exact BSim.ret he

/-- every program of the first-order syntax is well-behaved -/
theorem wellBehaved_progOf (defs : List (Fn × FnDef)) (declared : List (Fn × Fn)) : WellBehaved (progOf defs declared) :=
  fun _ a => bsim_denoteStmts _ a _ 0

def Stmt.noPrevent : Stmt → Bool
  | .call _ _ _ fl _ _ => !fl.prevent
  | .batch _ _ _ fl _ _ => !fl.prevent
  | .resource _ => true

theorem noPreventB_denoteStmts (d : FnDef) (a : Val) : ∀ (stmts : List Stmt) (acc : Int),
    (∀ st ∈ stmts, st.noPrevent = true) → NoPreventB (denoteStmts d a stmts acc)
  | [], acc, _ => by
    simp only [denoteStmts]
    split <;> exact NoPreventB.ret
  | .resource h :: rest, acc, hn => by
    simp only [denoteStmts]
    exact NoPreventB.resource (noPreventB_denoteStmts d a rest acc (fun st hst => hn st (List.mem_cons_of_mem _ hst)))
  | .call g off ctx fl caught guard :: rest, acc, hn => by
    have hrest : ∀ st ∈ rest, st.noPrevent = true := fun st hst => hn st (List.mem_cons_of_mem _ hst)
    have hfl : fl.prevent = false := by
      have := hn _ (List.mem_cons_self ..)
      simpa [Stmt.noPrevent] using this
    simp only [denoteStmts]
    split
    · exact noPreventB_denoteStmts d a rest acc hrest
    · refine NoPreventB.call hfl (fun o => ?_)
      cases o with
      | val v =>
        cases v
        · exact noPreventB_denoteStmts d a rest acc hrest
        · exact noPreventB_denoteStmts d a rest _ hrest
      | exc c m =>
        cases caught
        · exact NoPreventB.ret
        · exact noPreventB_denoteStmts d a rest _ hrest
  | .batch g offs ctx fl raiseFirst guard :: rest, acc, hn => by
    have hrest : ∀ st ∈ rest, st.noPrevent = true := fun st hst => hn st (List.mem_cons_of_mem _ hst)
    have hfl : fl.prevent = false := by
      have := hn _ (List.mem_cons_self ..)
      simpa [Stmt.noPrevent] using this
    simp only [denoteStmts]
    split
    · exact noPreventB_denoteStmts d a rest acc hrest
    · refine NoPreventB.batch hfl (fun r => ?_)
      cases r with
      | error e => exact NoPreventB.ret
      | ok os =>
        simp only []
        split
        · exact NoPreventB.ret
        · exact noPreventB_denoteStmts d a rest _ hrest

/-- a program of the first-order syntax none of whose statements carries `with_prevent_further_calls` -/
theorem noPrevent_progOf (defs : List (Fn × FnDef)) (declared : List (Fn × Fn))
    (h : ∀ p ∈ defs, ∀ st ∈ p.2.stmts, st.noPrevent = true) : NoPrevent (progOf defs declared) := by
  intro f a
  refine noPreventB_denoteStmts _ a _ 0 ?_
  unfold lookupDef
  cases hf : defs.find? (fun p => p.1 == f) with
  | none => intro st hst; simp [emptyDef] at hst
  | some p => exact h p (List.mem_of_find?_eq_some hf)

end Memento.Runner
