import MementoModel.Lemmas.StoreLemmas
import MementoModel.Lemmas.CrashInv

/-! Lemmas for C08: every primitive of `memoize` satisfies a local side condition (`PrimOk`) under
    which it preserves the crash-closed invariant and the soundness of what the store serves;
    the shape of `memoizePrims`. -/
set_option linter.unusedSimpArgs false
set_option linter.unusedVariables false
namespace Memento.Store
open Memento

/-! ### arithmetic on uuids (`Ver` is an abbreviation of `Nat` that `omega` does not unfold) -/

theorem ver_lt_max_succ (a v : Nat) : v < max a (v + 1) := by omega
theorem ver_lt_max_of_lt {x a : Nat} (h : x < a) (v : Nat) : x < max a (v + 1) := by omega
theorem ver_max_le_succ {a v : Nat} (h : a ≤ v) : max a (v + 1) ≤ v + 1 := by omega
theorem ver_ne_of_lt_of_le {x a v : Nat} (h1 : x < a) (h2 : a ≤ v) : v ≠ x := by omega

/-! ### content keys and what they name -/

/-- in `d`, the content key `ck` names a complete data-area blob holding `ob` (`none`: null result) -/
def CkVal (d : DS) (ck : Option (K × Ver)) (ob : Option Bytes) : Prop :=
  (ck = none ∧ ob = none) ∨
  ∃ k ver b, ck = some (k, ver) ∧ k.isMetaArea = false ∧ alookup d.objs (k, ver) = some (.blob b) ∧ ob = some b

theorem CkVal.ext {d d' : DS} {ck ob} (h : CkVal d ck ob) (ho : ObjsExt d d') : CkVal d' ck ob := by
  rcases h with h | ⟨k, ver, b, h1, h2, h3, h4⟩
  · exact Or.inl h
  · exact Or.inr ⟨k, ver, b, h1, h2, ho _ _ h3, h4⟩

theorem CkVal.toOk {d : DS} {ck ob} (h : CkVal d ck ob) :
    ck = none ∨ ∃ k ver b, ck = some (k, ver) ∧ k.isMetaArea = false ∧ alookup d.objs (k, ver) = some (.blob b) := by
  rcases h with h | ⟨k, ver, b, h1, h2, h3, _⟩
  · exact Or.inl h.1
  · exact Or.inr ⟨k, ver, b, h1, h2, h3⟩

theorem CrashWF.ckVal_of_link {d : DS} (h : CrashWF d) {fn arg v}
    (hl : alookup d.links (.memento fn arg) = some v) :
    ∃ m ck ob, alookup d.objs (.memento fn arg, v) = some (.mrec m ck) ∧ CkVal d ck ob := by
  obtain ⟨m, ck, ho, hck⟩ := h.mementoOk fn arg v hl
  rcases hck with rfl | ⟨k, ver, b, rfl, hk, hb⟩
  · exact ⟨m, none, none, ho, Or.inl ⟨rfl, rfl⟩⟩
  · exact ⟨m, _, some b, ho, Or.inr ⟨k, ver, b, rfl, hk, hb, rfl⟩⟩

/-- a version file written under a fresh uuid shadows nothing -/
theorem objsExt_cons_fresh {d d' : DS} (h : ∀ p ∈ d.objs, p.1.2 < d.next) {k : K} {v : Ver} {c : Content}
    (hv : d.next ≤ v) (ho : d'.objs = ((k, v), c) :: d.objs) : ObjsExt d d' := by
  intro kv c' hc
  rw [ho, alookup_cons]
  have := h _ (alookup_mem hc)
  have hne : ¬ (k, v) = kv := by
    intro e; rw [← e] at this; exact ver_ne_of_lt_of_le this hv rfl
  simp only [hne, if_false]; exact hc

/-! ### what a later call sees -/

theorem callOutcome_link_none {d : DS} {fn arg} (h : alookup d.links (.memento fn arg) = none) :
    callOutcome d fn arg = .computed := by
  simp [callOutcome, DS.inputNV, h]

theorem callOutcome_served {d : DS} {fn arg v m ck ob} (hl : alookup d.links (.memento fn arg) = some v)
    (ho : alookup d.objs (.memento fn arg, v) = some (.mrec m ck)) (hck : CkVal d ck ob) :
    callOutcome d fn arg = .served ob := by
  unfold callOutcome DS.inputNV
  rw [hl]
  simp only [ho]
  rcases hck with ⟨rfl, rfl⟩ | ⟨k, ver, b, rfl, _, hb, rfl⟩
  · rfl
  · simp only [DS.inputV, hb]

/-- the outcome of a call depends on its memento link and on (complete) objects only -/
theorem callOutcome_congr {d d' : DS} (h : CrashWF d) (fn : Fn) (arg : Arg)
    (hl : alookup d'.links (.memento fn arg) = alookup d.links (.memento fn arg))
    (ho : ObjsExt d d') : callOutcome d' fn arg = callOutcome d fn arg := by
  cases hlk : alookup d.links (.memento fn arg) with
  | none => rw [callOutcome_link_none hlk, callOutcome_link_none (hl.trans hlk)]
  | some v =>
    obtain ⟨m, ck, ob, hobj, hck⟩ := h.ckVal_of_link hlk
    rw [callOutcome_served hlk hobj hck, callOutcome_served (hl.trans hlk) (ho _ _ hobj) (hck.ext ho)]

theorem crashwf_never_raises' {d : DS} (h : CrashWF d) (fn : Fn) (arg : Arg) :
    callOutcome d fn arg ≠ .raised := by
  cases hlk : alookup d.links (.memento fn arg) with
  | none => rw [callOutcome_link_none hlk]; intro e; cases e
  | some v =>
    obtain ⟨m, ck, ob, hobj, hck⟩ := h.ckVal_of_link hlk
    rw [callOutcome_served hlk hobj hck]; intro e; cases e

/-! ### the side condition of a primitive -/

namespace Prim

/-- the link a primitive replaces or removes -/
def linkKey? : Prim → Option K
  | .replaceLink k _ => some k
  | .removeLink k => some k
  | _ => none

end Prim

/-- the local side condition under which a primitive is harmless:
    version files are written under fresh uuids; a link is only ever pointed at a complete object
    (for a memento: a document whose content key names a complete blob with the right bytes);
    only data-area links are removed -/
def PrimOk (F : Sem) (d : DS) : Prim → Prop
  | .writeObj _ v _ => d.next ≤ v
  | .writeTmp => True
  | .replaceLink k v => v < d.next ∧
      (∀ fn arg, k = .memento fn arg → ∃ m ck, alookup d.objs (k, v) = some (.mrec m ck) ∧ CkVal d ck (F fn arg)) ∧
      (∀ h, k = .content h → alookup d.objs (k, v) = some (.blob h))
  | .removeLink k => k.isMetaArea = false

/-- writing a version file (complete or torn) under a fresh uuid -/
theorem crashwf_writeObj {d : DS} (h : CrashWF d) (k : K) (v : Ver) (c : Content) (hv : d.next ≤ v) :
    CrashWF { d with objs := ((k, v), c) :: d.objs, next := max d.next (v + 1) } := by
  have hext : ObjsExt d { d with objs := ((k, v), c) :: d.objs, next := max d.next (v + 1) } :=
    objsExt_cons_fresh h.objFresh hv rfl
  refine ⟨?_, ?_, ?_, ?_⟩
  · intro p hp
    show p.1.2 < max d.next (v + 1)
    rcases List.mem_cons.mp hp with rfl | hp
    · exact ver_lt_max_succ d.next v
    · exact ver_lt_max_of_lt (h.objFresh p hp) v
  · intro p hp
    exact ver_lt_max_of_lt (h.linkFresh p hp) v
  · intro fn arg v' hl
    obtain ⟨m, ck, ho, hck⟩ := h.mementoOk fn arg v' hl
    refine ⟨m, ck, hext _ _ ho, ?_⟩
    rcases hck with hck | ⟨k', ver, b, h1, h2, h3⟩
    · exact Or.inl hck
    · exact Or.inr ⟨k', ver, b, h1, h2, hext _ _ h3⟩
  · intro hh v' c' hl ho
    have hlt : v' < d.next := h.linkFresh _ (alookup_mem hl)
    have ho' : alookup (((k, v), c) :: d.objs) (K.content hh, v') = some c' := ho
    rw [alookup_cons] at ho'
    have hne : ¬ (k, v) = (K.content hh, v') := by
      intro e; injection e with e1 e2; exact ver_ne_of_lt_of_le hlt hv e2
    simp only [hne, if_false] at ho'
    exact h.contentOk hh v' c' hl ho'

theorem apply_crashwf {F : Sem} {d : DS} (h : CrashWF d) (p : Prim) (hp : PrimOk F d p) : CrashWF (p.apply d) := by
  cases p with
  | writeObj k v c => exact crashwf_writeObj h k v c hp
  | writeTmp => exact h
  | replaceLink k v =>
    obtain ⟨hlt, hmem, hcont⟩ := hp
    refine ⟨h.objFresh, ?_, ?_, ?_⟩
    · intro p hp
      rcases mem_aset hp with rfl | ⟨hp, _⟩
      · exact hlt
      · exact h.linkFresh p hp
    · intro fn arg v' hl
      have hl' : alookup (aset d.links k v) (.memento fn arg) = some v' := hl
      rw [alookup_aset] at hl'
      by_cases e : K.memento fn arg = k
      · rw [if_pos e] at hl'; cases hl'
        obtain ⟨m, ck, ho, hck⟩ := hmem fn arg e.symm
        exact ⟨m, ck, e ▸ ho, hck.toOk⟩
      · rw [if_neg e] at hl'
        exact h.mementoOk fn arg v' hl'
    · intro hh v' c' hl ho
      have hl' : alookup (aset d.links k v) (.content hh) = some v' := hl
      rw [alookup_aset] at hl'
      by_cases e : K.content hh = k
      · rw [if_pos e] at hl'; cases hl'
        have := hcont hh e.symm
        rw [← e] at this
        have ho' : alookup d.objs (K.content hh, v) = some c' := ho
        rw [this] at ho'; cases ho'; rfl
      · rw [if_neg e] at hl'
        exact h.contentOk hh v' c' hl' ho
  | removeLink k =>
    refine ⟨h.objFresh, ?_, ?_, ?_⟩
    · intro p hp
      exact h.linkFresh p (List.mem_filter.mp hp).1
    · intro fn arg v' hl
      have hl' : alookup (adel d.links k) (.memento fn arg) = some v' := hl
      rw [alookup_adel] at hl'
      split at hl'
      · cases hl'
      · exact h.mementoOk fn arg v' hl'
    · intro hh v' c' hl ho
      have hl' : alookup (adel d.links k) (.content hh) = some v' := hl
      rw [alookup_adel] at hl'
      split at hl'
      · cases hl'
      · exact h.contentOk hh v' c' hl' ho

theorem applyTorn_crashwf {F : Sem} {d : DS} (h : CrashWF d) (p : Prim) (hp : PrimOk F d p) :
    CrashWF (p.applyTorn d) := by
  cases p with
  | writeObj k v c => exact crashwf_writeObj h k v .torn hp
  | _ => exact h

/-- frame: a primitive that does not touch the memento link of a call does not change what the call sees -/
theorem callOutcome_apply {F : Sem} {d : DS} (h : CrashWF d) (p : Prim) (hp : PrimOk F d p) (fn : Fn) (arg : Arg)
    (hk : p.linkKey? ≠ some (.memento fn arg)) : callOutcome (p.apply d) fn arg = callOutcome d fn arg := by
  cases p with
  | writeObj k v c => exact callOutcome_congr h fn arg rfl (objsExt_cons_fresh h.objFresh hp rfl)
  | writeTmp => rfl
  | replaceLink k v =>
    refine callOutcome_congr (d' := Prim.apply d (.replaceLink k v)) h fn arg ?_ (fun _ _ x => x)
    show alookup (aset d.links k v) _ = _
    rw [alookup_aset, if_neg]
    intro e; exact hk (by rw [e]; rfl)
  | removeLink k =>
    refine callOutcome_congr (d' := Prim.apply d (.removeLink k)) h fn arg ?_ (fun _ _ x => x)
    show alookup (adel d.links k) _ = _
    rw [alookup_adel, if_neg]
    intro e; exact hk (by rw [e]; rfl)

theorem callOutcome_applyTorn {F : Sem} {d : DS} (h : CrashWF d) (p : Prim) (hp : PrimOk F d p) (fn : Fn) (arg : Arg) :
    callOutcome (p.applyTorn d) fn arg = callOutcome d fn arg := by
  cases p with
  | writeObj k v c => exact callOutcome_congr h fn arg rfl (objsExt_cons_fresh h.objFresh hp rfl)
  | _ => rfl

theorem apply_sound {F : Sem} {d : DS} (h : CrashWF d) (hs : Sound F d) (p : Prim) (hp : PrimOk F d p) :
    Sound F (p.apply d) := by
  intro fn arg v hv
  by_cases hk : p.linkKey? = some (.memento fn arg)
  · cases p with
    | writeObj k v' c => cases hk
    | writeTmp => cases hk
    | replaceLink k v' =>
      have e : k = .memento fn arg := by injection hk
      subst e
      obtain ⟨_, hmem, _⟩ := hp
      obtain ⟨m, ck, ho, hck⟩ := hmem fn arg rfl
      have : callOutcome (Prim.apply d (.replaceLink (.memento fn arg) v')) fn arg = .served (F fn arg) := by
        apply callOutcome_served (v := v') (m := m) (ck := ck)
        · show alookup (aset d.links _ v') _ = _
          rw [alookup_aset, if_pos rfl]
        · exact ho
        · exact hck
      rw [this] at hv; injection hv with hv; exact hv.symm
    | removeLink k =>
      have e : k = .memento fn arg := by injection hk
      subst e
      cases hp
  · rw [callOutcome_apply h p hp fn arg hk] at hv
    exact hs fn arg v hv

theorem applyTorn_sound {F : Sem} {d : DS} (h : CrashWF d) (hs : Sound F d) (p : Prim) (hp : PrimOk F d p) :
    Sound F (p.applyTorn d) := by
  intro fn arg v hv
  rw [callOutcome_applyTorn h p hp] at hv
  exact hs fn arg v hv

/-! ### sequences of primitives -/

/-- every primitive satisfies its side condition in the state it is executed in -/
def AllOk (F : Sem) : DS → List Prim → Prop
  | _, [] => True
  | d, p :: ps => PrimOk F d p ∧ AllOk F (p.apply d) ps

theorem allOk_append {F : Sem} : ∀ (ps qs : List Prim) (d : DS),
    AllOk F d (ps ++ qs) ↔ AllOk F d ps ∧ AllOk F (ps.foldl Prim.apply d) qs
  | [], qs, d => by simp [AllOk]
  | p :: ps, qs, d => by
    simp only [List.cons_append, AllOk, List.foldl_cons, allOk_append ps qs (p.apply d), and_assoc]

theorem foldl_crashwf {F : Sem} : ∀ (ps : List Prim) (d : DS), CrashWF d → AllOk F d ps →
    CrashWF (ps.foldl Prim.apply d)
  | [], d, h, _ => h
  | p :: ps, d, h, hok => foldl_crashwf ps _ (apply_crashwf h p hok.1) hok.2

theorem variant_nil (d : DS) (n : Nat) (torn : Bool) : variant d [] n torn = d := by
  cases torn <;> simp [variant]

theorem variant_cons_zero (d : DS) (p : Prim) (ps : List Prim) (torn : Bool) :
    variant d (p :: ps) 0 torn = if torn then p.applyTorn d else d := by
  cases torn <;> simp [variant]

theorem variant_cons_succ (d : DS) (p : Prim) (ps : List Prim) (n : Nat) (torn : Bool) :
    variant d (p :: ps) (n + 1) torn = variant (p.apply d) ps n torn := by
  cases torn <;> simp [variant]

theorem variant_length (d : DS) (ps : List Prim) : variant d ps ps.length false = ps.foldl Prim.apply d := by
  simp [variant]

/-- the invariant and soundness hold in every variant of a sequence of harmless primitives -/
theorem variant_inv {F : Sem} : ∀ (ps : List Prim) (d : DS) (n : Nat) (torn : Bool), CrashWF d → AllOk F d ps →
    CrashWF (variant d ps n torn) ∧ (Sound F d → Sound F (variant d ps n torn))
  | [], d, n, torn, h, _ => by rw [variant_nil]; exact ⟨h, id⟩
  | p :: ps, d, 0, torn, h, hok => by
    rw [variant_cons_zero]
    cases torn with
    | false => exact ⟨h, id⟩
    | true => exact ⟨applyTorn_crashwf h p hok.1, fun hs => applyTorn_sound h hs p hok.1⟩
  | p :: ps, d, n + 1, torn, h, hok => by
    rw [variant_cons_succ]
    obtain ⟨a, b⟩ := variant_inv ps (p.apply d) n torn (apply_crashwf h p hok.1) hok.2
    exact ⟨a, fun hs => b (apply_sound h hs p hok.1)⟩

/-- frame for a whole variant -/
theorem variant_frame_gen {F : Sem} (fn : Fn) (arg : Arg) : ∀ (ps : List Prim) (d : DS) (n : Nat) (torn : Bool),
    CrashWF d → AllOk F d ps → (∀ p ∈ ps, p.linkKey? ≠ some (.memento fn arg)) →
    callOutcome (variant d ps n torn) fn arg = callOutcome d fn arg
  | [], d, n, torn, h, _, _ => by rw [variant_nil]
  | p :: ps, d, 0, torn, h, hok, hk => by
    rw [variant_cons_zero]
    cases torn with
    | false => rfl
    | true => exact callOutcome_applyTorn h p hok.1 fn arg
  | p :: ps, d, n + 1, torn, h, hok, hk => by
    rw [variant_cons_succ,
      variant_frame_gen fn arg ps (p.apply d) n torn (apply_crashwf h p hok.1) hok.2
        (fun q hq => hk q (List.mem_cons_of_mem _ hq))]
    exact callOutcome_apply h p hok.1 fn arg (hk p List.mem_cons_self)

/-! ### the shape of `memoizePrims` -/

/-- only data-area links are touched -/
def DataOnly (ps : List Prim) : Prop := ∀ p ∈ ps, ∀ k, p.linkKey? = some k → k.isMetaArea = false

theorem DataOnly.nil : DataOnly [] := by intro p hp; cases hp

theorem DataOnly.append {ps qs : List Prim} (h1 : DataOnly ps) (h2 : DataOnly qs) : DataOnly (ps ++ qs) := by
  intro p hp
  rcases List.mem_append.mp hp with hp | hp
  · exact h1 p hp
  · exact h2 p hp

/-- the three primitives of `output(key, data)` -/
theorem output_allOk {F : Sem} {d : DS} (h : CrashWF d) (k : K) (v : Ver) (c : Content) (hv : d.next ≤ v)
    (hmem : ∀ fn arg, k = .memento fn arg → ∃ m ck, c = .mrec m ck ∧ CkVal d ck (F fn arg))
    (hcont : ∀ hh, k = .content hh → c = .blob hh) :
    AllOk F d [.writeObj k v c, .writeTmp, .replaceLink k v] := by
  refine ⟨hv, trivial, ⟨?_, ?_, ?_⟩, trivial⟩
  · exact ver_lt_max_succ d.next v
  · intro fn arg e
    obtain ⟨m, ck, rfl, hck⟩ := hmem fn arg e
    refine ⟨m, ck, ?_, hck.ext (objsExt_cons_fresh h.objFresh hv rfl)⟩
    show alookup (((k, v), Content.mrec m ck) :: d.objs) (k, v) = _
    rw [alookup_cons, if_pos rfl]
  · intro hh e
    rw [hcont hh e]
    show alookup (((k, v), Content.blob hh) :: d.objs) (k, v) = _
    rw [alookup_cons, if_pos rfl]

/-- the store after the three primitives of `output` -/
theorem output_foldl (d : DS) (k : K) (v : Ver) (c : Content) :
    [Prim.writeObj k v c, .writeTmp, .replaceLink k v].foldl Prim.apply d =
      { objs := ((k, v), c) :: d.objs, links := aset d.links k v, next := max d.next (v + 1) } := rfl

theorem output_dataOnly (k : K) (v : Ver) (c : Content) (hk : k.isMetaArea = false) :
    DataOnly [.writeObj k v c, .writeTmp, .replaceLink k v] := by
  intro p hp k' hk'
  simp only [List.mem_cons, List.not_mem_nil, or_false] at hp
  rcases hp with rfl | rfl | rfl
  · cases hk'
  · cases hk'
  · injection hk' with e; rw [← e]; exact hk

/-- what `blobPrims` promises -/
structure BlobSpec (F : Sem) (d : DS) (b : Bytes) (res : List Prim × (K × Ver) × Ver) : Prop where
  ok : AllOk F d res.1
  dataOnly : DataOnly res.1
  next : (res.1.foldl Prim.apply d).next ≤ res.2.2
  ck : CkVal (res.1.foldl Prim.apply d) (some res.2.1) (some b)

theorem blobPrims_spec {F : Sem} {d : DS} (h : CrashWF d) (ov : Option Nat) (b : Bytes) (v : Ver)
    (hv : d.next ≤ v) : BlobSpec F d b (blobPrims d ov b v) := by
  cases ov with
  | some o =>
    refine ⟨output_allOk h _ v _ hv (by intro _ _ e; cases e) (by intro _ e; cases e),
      output_dataOnly _ v _ rfl, ?_, ?_⟩
    · exact ver_max_le_succ hv
    · refine Or.inr ⟨.override o, v, b, rfl, rfl, ?_, rfl⟩
      show alookup (((K.override o, v), Content.blob b) :: d.objs) _ = _
      rw [alookup_cons, if_pos rfl]
  | none =>
    simp only [blobPrims]
    cases hex : d.existsNV (.content b) with
    | true =>
      simp only [if_true]
      unfold DS.existsNV at hex
      unfold DS.getVersioned
      cases hl : alookup d.links (.content b) with
      | none => rw [hl] at hex; cases hex
      | some v0 =>
        rw [hl] at hex
        simp only at hex ⊢
        cases ho : alookup d.objs (.content b, v0) with
        | none => rw [ho] at hex; cases hex
        | some c =>
          have := h.contentOk b v0 c hl ho
          subst this
          exact ⟨trivial, DataOnly.nil, hv, Or.inr ⟨.content b, v0, b, rfl, rfl, ho, rfl⟩⟩
    | false =>
      simp only [Bool.false_eq_true, if_false]
      refine ⟨output_allOk h _ v _ hv (by intro _ _ e; cases e) (by intro _ e; cases e; rfl),
        output_dataOnly _ v _ rfl, ?_, ?_⟩
      · exact ver_max_le_succ hv
      · refine Or.inr ⟨.content b, v, b, rfl, rfl, ?_, rfl⟩
        show alookup (((K.content b, v), Content.blob b) :: d.objs) _ = _
        rw [alookup_cons, if_pos rfl]

/-- what `dataPrims` promises -/
structure DataSpec (F : Sem) (d : DS) (bs : List Bytes) (res : List Prim × Option (K × Ver) × DS × Ver) : Prop where
  ok : AllOk F d res.1
  dataOnly : DataOnly res.1
  final : res.2.2.1 = res.1.foldl Prim.apply d
  next : res.2.2.1.next ≤ res.2.2.2
  ck : CkVal res.2.2.1 res.2.1 bs.getLast?

theorem dataPrims_single (d : DS) (ov : Option Nat) (b : Bytes) (v : Ver) :
    dataPrims d ov [b] v = ((blobPrims d ov b v).1, some (blobPrims d ov b v).2.1,
      (blobPrims d ov b v).1.foldl Prim.apply d, (blobPrims d ov b v).2.2) := by
  rcases hb : blobPrims d ov b v with ⟨ps, ck, v'⟩
  simp only [dataPrims, hb]

theorem dataPrims_cons2 (d : DS) (ov : Option Nat) (b b2 : Bytes) (bs : List Bytes) (v : Ver) :
    dataPrims d ov (b :: b2 :: bs) v =
      ((blobPrims d ov b v).1 ++ (dataPrims ((blobPrims d ov b v).1.foldl Prim.apply d) ov (b2 :: bs) (blobPrims d ov b v).2.2).1,
       (dataPrims ((blobPrims d ov b v).1.foldl Prim.apply d) ov (b2 :: bs) (blobPrims d ov b v).2.2).2) := by
  rcases hb : blobPrims d ov b v with ⟨ps, ck, v'⟩
  simp only [dataPrims, hb]

theorem dataPrims_spec {F : Sem} (ov : Option Nat) : ∀ (bs : List Bytes) (d : DS) (v : Ver), CrashWF d → d.next ≤ v →
    DataSpec F d bs (dataPrims d ov bs v)
  | [], d, v, h, hv => ⟨trivial, DataOnly.nil, rfl, hv, Or.inl ⟨rfl, rfl⟩⟩
  | [b], d, v, h, hv => by
    rw [dataPrims_single]
    obtain ⟨a1, a2, a3, a4⟩ := blobPrims_spec (F := F) h ov b v hv
    exact ⟨a1, a2, rfl, a3, a4⟩
  | b :: b2 :: bs, d, v, h, hv => by
    rw [dataPrims_cons2]
    obtain ⟨a1, a2, a3, a4⟩ := blobPrims_spec (F := F) h ov b v hv
    obtain ⟨c1, c2, c3, c4, c5⟩ := dataPrims_spec (F := F) ov (b2 :: bs) _ _ (foldl_crashwf _ d h a1) a3
    refine ⟨(allOk_append _ _ _).mpr ⟨a1, c1⟩, a2.append c2, ?_, c4, ?_⟩
    · rw [List.foldl_append]; exact c3
    · rw [List.getLast?_cons_cons]; exact c5

/-- `memoize` = data-area primitives, then `output(memento key, memento document)` -/
theorem memoizePrims_shape {F : Sem} {d : DS} (h : CrashWF d) (r : Request) :
    ∃ pre v ck, memoizePrims d r =
        pre ++ [.writeObj (.memento r.fn r.arg) v (.mrec r.mem ck), .writeTmp, .replaceLink (.memento r.fn r.arg) v] ∧
      AllOk F d pre ∧ DataOnly pre ∧ (pre.foldl Prim.apply d).next ≤ v ∧
      CkVal (pre.foldl Prim.apply d) ck r.blobs.getLast? := by
  unfold memoizePrims
  cases hb : r.blobs with
  | nil =>
    simp only
    cases hov : r.override with
    | none => exact ⟨[], d.next, none, rfl, trivial, DataOnly.nil, Nat.le_refl _, Or.inl ⟨rfl, rfl⟩⟩
    | some o =>
      simp only
      cases (alookup d.links (K.override o)).isSome with
      | false => exact ⟨[], d.next, none, rfl, trivial, DataOnly.nil, Nat.le_refl _, Or.inl ⟨rfl, rfl⟩⟩
      | true =>
        refine ⟨[.removeLink (.override o)], d.next, none, rfl, ⟨rfl, trivial⟩, ?_, Nat.le_refl _, Or.inl ⟨rfl, rfl⟩⟩
        intro p hp k hk
        simp only [List.mem_cons, List.not_mem_nil, or_false] at hp
        subst hp
        injection hk with e; rw [← e]; rfl
  | cons b bs =>
    simp only
    obtain ⟨c1, c2, c3, c4, c5⟩ := dataPrims_spec (F := F) r.override (b :: bs) d d.next h (Nat.le_refl _)
    rcases hd : dataPrims d r.override (b :: bs) d.next with ⟨ps, ck, d2, v⟩
    rw [hd] at c1 c2 c3 c4 c5
    simp only at c1 c2 c3 c4 c5 ⊢
    exact ⟨ps, v, ck, rfl, c1, c2, c3 ▸ c4, c3 ▸ c5⟩

theorem memoizePrims_allOk {F : Sem} {d : DS} (h : CrashWF d) (r : Request) (hr : r.correct F) :
    AllOk F d (memoizePrims d r) := by
  obtain ⟨pre, v, ck, e, h1, h2, h3, h4⟩ := memoizePrims_shape (F := F) h r
  rw [e]
  refine (allOk_append _ _ _).mpr ⟨h1, ?_⟩
  apply output_allOk (foldl_crashwf _ d h h1) _ v _ h3
  · intro fn arg e'
    injection e' with e1 e2
    subst e1; subst e2
    exact ⟨r.mem, ck, rfl, hr ▸ h4⟩
  · intro hh e'; cases e'

theorem memoizePrims_linkKeys {d : DS} (h : CrashWF d) (r : Request) (fn : Fn) (arg : Arg)
    (hne : (fn, arg) ≠ (r.fn, r.arg)) : ∀ p ∈ memoizePrims d r, p.linkKey? ≠ some (.memento fn arg) := by
  obtain ⟨pre, v, ck, e, h1, h2, h3, h4⟩ := memoizePrims_shape (F := fun _ _ => none) h r
  rw [e]
  intro p hp hk
  rcases List.mem_append.mp hp with hp | hp
  · have := h2 p hp _ hk; cases this
  · simp only [List.mem_cons, List.not_mem_nil, or_false] at hp
    rcases hp with rfl | rfl | rfl
    · cases hk
    · cases hk
    · injection hk with e'; injection e' with e1 e2
      exact hne (by rw [e1, e2])

/-- the store after the complete sequence serves the request's value -/
theorem memoizePrims_complete {d : DS} (h : CrashWF d) (r : Request) :
    callOutcome ((memoizePrims d r).foldl Prim.apply d) r.fn r.arg = .served r.blobs.getLast? := by
  obtain ⟨pre, v, ck, e, h1, h2, h3, h4⟩ := memoizePrims_shape (F := fun _ _ => none) h r
  rw [e, List.foldl_append, output_foldl]
  have hwf := foldl_crashwf _ d h h1
  apply callOutcome_served (v := v) (m := r.mem) (ck := ck)
  · show alookup (aset _ _ v) _ = _
    rw [alookup_aset, if_pos rfl]
  · show alookup (_ :: _) _ = _
    rw [alookup_cons, if_pos rfl]
  · exact h4.ext (objsExt_cons_fresh hwf.objFresh h3 rfl)

/-! ### tie to the atomic model -/

theorem adel_of_alookup_none {α β : Type} [DecidableEq α] {l : List (α × β)} {a : α} (h : alookup l a = none) :
    adel l a = l := by
  unfold adel
  apply List.filter_eq_self.mpr
  intro p hp
  by_cases e : p.1 = a
  · obtain ⟨b, hb⟩ := alookup_isSome_of_mem hp
    rw [e, h] at hb; cases hb
  · simpa using e

/-- the complete primitive sequence of a single-blob request = `codec.store` then `output(memento)` -/
theorem memoizePrims_foldl_eq (d : DS) (fn arg : Nat) (ov : Option Nat) (mem : Nat) (val : Option Bytes) :
    ((memoizePrims d ⟨fn, arg, ov, mem, val.toList⟩).foldl Prim.apply d).objs =
      ((FsBackend.codecStore d ov val).1.output (.memento fn arg) (.mrec mem (FsBackend.codecStore d ov val).2)).1.objs ∧
    ((memoizePrims d ⟨fn, arg, ov, mem, val.toList⟩).foldl Prim.apply d).links =
      ((FsBackend.codecStore d ov val).1.output (.memento fn arg) (.mrec mem (FsBackend.codecStore d ov val).2)).1.links := by
  cases val with
  | none =>
    cases ov with
    | none => exact ⟨rfl, rfl⟩
    | some o =>
      simp only [memoizePrims, Option.toList]
      cases hl : alookup d.links (K.override o) with
      | none =>
        refine ⟨rfl, ?_⟩
        show aset d.links (K.memento fn arg) d.next = aset (adel d.links (K.override o)) (K.memento fn arg) d.next
        rw [adel_of_alookup_none hl]
      | some v => exact ⟨rfl, rfl⟩
  | some b =>
    cases ov with
    | some o => exact ⟨rfl, rfl⟩
    | none =>
      simp only [memoizePrims, Option.toList, dataPrims_single, blobPrims, FsBackend.codecStore]
      cases hex : d.existsNV (.content b) with
      | false => exact ⟨rfl, rfl⟩
      | true =>
        simp only [if_true]
        have : ∃ v0, d.getVersioned (.content b) = some v0 := by
          unfold DS.existsNV at hex
          unfold DS.getVersioned
          cases hl : alookup d.links (.content b) with
          | none => rw [hl] at hex; cases hex
          | some v0 => exact ⟨v0, rfl⟩
        obtain ⟨v0, hv0⟩ := this
        rw [hv0]
        exact ⟨rfl, rfl⟩

end Memento.Store
