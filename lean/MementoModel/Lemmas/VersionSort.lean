import MementoModel.Lemmas.VersionLemmas

/-! The key order on rules is a total order; the sorted rule list is canonical:
it depends on the *set* of rules only (hence not on traversal order, definition order, …). -/
namespace Memento.Version

theorem Kind.idx_inj {a b : Kind} (h : a.idx = b.idx) : a = b := by
  cases a <;> cases b <;> simp [Kind.idx] at h <;> rfl

theorem Node.code_inj {a b : Node} (h : a.code = b.code) : a = b := by
  obtain ⟨ka, pa, ta⟩ := a
  obtain ⟨kb, pb, tb⟩ := b
  simp only [Node.code, Prod.mk.injEq] at h
  obtain ⟨h1, h2, h3⟩ := h
  have := Kind.idx_inj h1
  subst this; subst h3
  cases pa <;> cases pb <;> simp at h2 ⊢
  exact h2

theorem Node.le_iff (a b : Node) : Node.le a b = true ↔
    a.code.1 < b.code.1 ∨ (a.code.1 = b.code.1 ∧ (a.code.2.1 < b.code.2.1 ∨ (a.code.2.1 = b.code.2.1 ∧ a.code.2.2 ≤ b.code.2.2))) := by
  simp [Node.le]

theorem Node.le_trans (a b c : Node) (h1 : Node.le a b = true) (h2 : Node.le b c = true) : Node.le a c = true := by
  rw [Node.le_iff] at *
  omega

theorem Node.le_total (a b : Node) : (Node.le a b || Node.le b a) = true := by
  rw [Bool.or_eq_true, Node.le_iff, Node.le_iff]
  omega

theorem Node.le_antisymm {a b : Node} (h1 : Node.le a b = true) (h2 : Node.le b a = true) : a = b := by
  rw [Node.le_iff] at *
  apply Node.code_inj
  have e1 : a.code.1 = b.code.1 := by omega
  have e2 : a.code.2.1 = b.code.2.1 := by omega
  have e3 : a.code.2.2 = b.code.2.2 := by omega
  exact Prod.ext e1 (Prod.ext e2 e3)

theorem insertNode_perm (x : Node) (l : List Node) : (insertNode x l).Perm (x :: l) := by
  induction l with
  | nil => exact List.Perm.refl _
  | cons y t ih =>
    unfold insertNode
    split
    · exact List.Perm.refl _
    · exact (List.Perm.cons y ih).trans (List.Perm.swap x y t)

theorem sortNodes_perm (l : List Node) : (sortNodes l).Perm l := by
  induction l with
  | nil => exact List.Perm.refl _
  | cons x t ih => exact (insertNode_perm x _).trans (List.Perm.cons x ih)

theorem insertNode_pairwise (x : Node) (l : List Node) (h : l.Pairwise (fun a b => Node.le a b = true)) :
    (insertNode x l).Pairwise (fun a b => Node.le a b = true) := by
  induction l with
  | nil => simp [insertNode]
  | cons y t ih =>
    unfold insertNode
    obtain ⟨hy, ht⟩ := List.pairwise_cons.mp h
    split
    · rename_i hxy
      refine List.pairwise_cons.mpr ⟨?_, h⟩
      intro z hz
      rcases List.mem_cons.mp hz with rfl | hz
      · exact hxy
      · exact Node.le_trans _ _ _ hxy (hy z hz)
    · rename_i hxy
      have hyx : Node.le y x = true := by
        have := Node.le_total x y
        simp only [Bool.or_eq_true] at this
        rcases this with h | h
        · exact absurd h hxy
        · exact h
      refine List.pairwise_cons.mpr ⟨?_, ih ht⟩
      intro z hz
      rcases List.mem_cons.mp ((insertNode_perm x t).mem_iff.mp hz) with rfl | hz
      · exact hyx
      · exact hy z hz

theorem sortNodes_pairwise (l : List Node) : (sortNodes l).Pairwise (fun a b => Node.le a b = true) := by
  induction l with
  | nil => simp [sortNodes]
  | cons x t ih => exact insertNode_pairwise x _ ih

/-- sorting two duplicate-free lists with the same members gives the same list -/
theorem sort_canonical {l l' : List Node} (hn : l.Nodup) (hn' : l'.Nodup) (hm : ∀ a, a ∈ l ↔ a ∈ l') :
    sortNodes l = sortNodes l' := by
  have hp : l.Perm l' := (List.perm_ext_iff_of_nodup hn hn').mpr hm
  apply List.Perm.eq_of_pairwise (le := fun a b => Node.le a b = true)
  · intro a b _ _ h1 h2; exact Node.le_antisymm h1 h2
  · exact sortNodes_pairwise l
  · exact sortNodes_pairwise l'
  · exact (sortNodes_perm l).trans (hp.trans (sortNodes_perm l').symm)

theorem mem_sortedRules {P : Prog} {ord : List Name → List Name} {f : Name} {x : Node} :
    x ∈ sortedRules P ord f ↔ x ∈ rules P ord f := by
  unfold sortedRules; exact (sortNodes_perm _).mem_iff

theorem sortedRules_nodup (P : Prog) (ord : List Name → List Name) (f : Name) : (sortedRules P ord f).Nodup :=
  (sortNodes_perm _).nodup_iff.mpr (rules_nodup P ord f)

theorem filterMap_congr' {α β : Type} {f g : α → Option β} {l : List α} (h : ∀ x ∈ l, f x = g x) :
    l.filterMap f = l.filterMap g := by
  induction l with
  | nil => rfl
  | cons a t ih =>
    simp only [List.filterMap_cons, h a List.mem_cons_self]
    rw [ih (fun x hx => h x (List.mem_cons_of_mem _ hx))]

/-- two programs that give the same rule *sets* give the same sorted rule list -/
theorem sortedRules_congr {P P' : Prog} {ord ord' : List Name → List Name} {f : Name}
    (h : ∀ x, x ∈ rules P ord f ↔ x ∈ rules P' ord' f) : sortedRules P ord f = sortedRules P' ord' f :=
  sort_canonical (rules_nodup P ord f) (rules_nodup P' ord' f) h

theorem sortedRules_order_independent (P : Prog) {ord ord' : List Name → List Name} (h : OrdOK ord) (h' : OrdOK ord')
    (f : Name) : sortedRules P ord f = sortedRules P ord' f :=
  sortedRules_congr (fun x => by rw [mem_rules_nodeOK h, mem_rules_nodeOK h'])

/-! ### programs with the same table (any definition order) -/

theorem refersTo_congr {P P' : Prog} (h : ∀ n, lookup P n = lookup P' n) {p g : Name} :
    RefersTo P p g ↔ RefersTo P' p g := by
  unfold RefersTo; rw [h p]

theorem expands_congr {P P' : Prog} (h : ∀ n, lookup P n = lookup P' n) (n : Name) : expands P n = expands P' n := by
  unfold expands; rw [h n]

theorem mkNode_congr {P P' : Prog} (h : ∀ n, lookup P n = lookup P' n) (p r : Name) : mkNode P p r = mkNode P' p r := by
  unfold mkNode; rw [h r]

theorem reachN_congr {P P' : Prog} (h : ∀ n, lookup P n = lookup P' n) {f g : Name} (hr : ReachN P f g) :
    ReachN P' f g := by
  induction hr with
  | direct href => exact ReachN.direct ((refersTo_congr h).mp href)
  | step _ he href ih => exact ReachN.step ih (expands_congr h _ ▸ he) ((refersTo_congr h).mp href)

theorem nodeOK_congr {P P' : Prog} (h : ∀ n, lookup P n = lookup P' n) {f : Name} {x : Node} :
    NodeOK P f x ↔ NodeOK P' f x := by
  have hs : ∀ n, lookup P' n = lookup P n := fun n => (h n).symm
  unfold NodeOK
  constructor
  · rintro (h0 | ⟨p, hp, href, hmk⟩)
    · exact Or.inl h0
    · refine Or.inr ⟨p, ?_, (refersTo_congr h).mp href, mkNode_congr h _ _ ▸ hmk⟩
      rcases hp with h0 | ⟨hp, he⟩
      · exact Or.inl h0
      · exact Or.inr ⟨reachN_congr h hp, expands_congr h _ ▸ he⟩
  · rintro (h0 | ⟨p, hp, href, hmk⟩)
    · exact Or.inl h0
    · refine Or.inr ⟨p, ?_, (refersTo_congr hs).mp href, mkNode_congr hs _ _ ▸ hmk⟩
      rcases hp with h0 | ⟨hp, he⟩
      · exact Or.inl h0
      · exact Or.inr ⟨reachN_congr hs hp, expands_congr hs _ ▸ he⟩

theorem ruleHash_congr {P P' : Prog} (h : ∀ n, lookup P n = lookup P' n) (H : Ser → List Char) (x : Node) :
    ruleHash H P x = ruleHash H P' x := by
  unfold ruleHash; rw [h x.target]

end Memento.Version
