import MementoModel.Model.Cache

/-! Helper lemmas about the `MemoryCache` model. Property theorems are in `Props/C06.lean`. -/
namespace Memento.Cache

/-- The invariant of the memory cache (all of it is needed inductively). -/
structure Inv (s : State) : Prop where
  usage_eq   : s.usage = total s.cache
  keys_nodup : (keys s.cache).Nodup
  lru_nodup  : s.lru.Nodup
  lru_mem    : ∀ k, k ∈ s.lru ↔ k ∈ keys s.cache
  sizes      : ∀ p ∈ s.cache, p.2.size ≤ s.budget
  bounded    : s.usage ≤ s.budget
  sorted     : s.lru.Pairwise (fun a b => s.stamp a < s.stamp b)
  stamp_lt   : ∀ k, s.stamp k < s.clock

theorem total_nil : total [] = 0 := rfl

theorem total_cons (p : Key × Entry) (c) : total (p :: c) = p.2.size + total c := by
  simp [total]

theorem total_append (c d : List (Key × Entry)) : total (c ++ d) = total c + total d := by
  induction c with
  | nil => simp [total]
  | cons p c ih => simp only [List.cons_append, total_cons, ih]; omega

theorem total_nonneg (c : List (Key × Entry)) : 0 ≤ total c := by
  induction c with
  | nil => simp [total]
  | cons p c ih => rw [total_cons]; omega

theorem lookup_nil (k : Key) : lookup [] k = none := rfl

theorem lookup_cons (p : Key × Entry) (c) (k : Key) :
    lookup (p :: c) k = if p.1 = k then some p.2 else lookup c k := by
  unfold lookup
  by_cases h : p.1 = k
  · simp [h]
  · simp [List.find?_cons, h]

theorem lookup_none_iff (c : List (Key × Entry)) (k : Key) : lookup c k = none ↔ k ∉ keys c := by
  induction c with
  | nil => simp [lookup, keys]
  | cons p c ih =>
    rw [lookup_cons]
    by_cases h : p.1 = k
    · simp [h, keys]
    · simp only [h, if_false, ih, keys, List.map_cons, List.mem_cons, not_or]
      constructor
      · intro h2; exact ⟨fun e => h e.symm, h2⟩
      · intro h2; exact h2.2

theorem lookup_some_mem {c : List (Key × Entry)} {k : Key} {e : Entry} (h : lookup c k = some e) :
    (k, e) ∈ c := by
  induction c with
  | nil => simp [lookup] at h
  | cons p c ih =>
    rw [lookup_cons] at h
    by_cases hk : p.1 = k
    · simp only [hk, if_true, Option.some.injEq] at h
      subst h; subst hk; exact List.mem_cons_self
    · simp only [hk, if_false] at h
      exact List.mem_cons_of_mem _ (ih h)

theorem hasKey_iff (c : List (Key × Entry)) (k : Key) : hasKey c k = true ↔ k ∈ keys c := by
  simp only [hasKey, keys, List.any_eq_true, List.mem_map, beq_iff_eq]

/-- removing key `k` -/
def remove (c : List (Key × Entry)) (k : Key) : List (Key × Entry) := c.filter (fun p => !(p.1 == k))

theorem keys_remove (c : List (Key × Entry)) (k : Key) : keys (remove c k) = (keys c).filter (· ≠ k) := by
  induction c with
  | nil => rfl
  | cons p c ih =>
    simp only [remove, keys] at ih ⊢
    by_cases h : p.1 = k
    · simp [List.filter_cons, h, ih]
    · simp [List.filter_cons, h, ih]

theorem mem_keys_remove (c : List (Key × Entry)) (k j : Key) :
    j ∈ keys (remove c k) ↔ j ∈ keys c ∧ j ≠ k := by
  rw [keys_remove]; simp

theorem remove_sublist (c : List (Key × Entry)) (k : Key) : (remove c k).Sublist c :=
  List.filter_sublist

theorem total_remove_of_not_mem (c : List (Key × Entry)) (k : Key) (h : k ∉ keys c) :
    remove c k = c := by
  induction c with
  | nil => rfl
  | cons p c ih =>
    simp only [keys, List.map_cons, List.mem_cons, not_or] at h
    have : ¬ p.1 = k := fun e => h.1 e.symm
    have ih' := ih h.2
    simp only [remove] at ih' ⊢
    simp [List.filter_cons, this, ih']

theorem total_remove (c : List (Key × Entry)) (k : Key) (e : Entry)
    (hnd : (keys c).Nodup) (h : lookup c k = some e) :
    total (remove c k) = total c - e.size := by
  induction c with
  | nil => simp [lookup] at h
  | cons p c ih =>
    simp only [keys, List.map_cons, List.nodup_cons] at hnd
    rw [lookup_cons] at h
    by_cases hk : p.1 = k
    · simp only [hk, if_true, Option.some.injEq] at h
      have hnot : k ∉ keys c := by rw [← hk]; exact hnd.1
      have := total_remove_of_not_mem c k hnot
      simp only [remove] at this ⊢
      subst h
      simp only [List.filter_cons, hk, beq_self_eq_true, Bool.not_true, this, total_cons]
      simp; omega
    · simp only [hk, if_false] at h
      have := ih hnd.2 h
      simp only [remove] at this ⊢
      simp [List.filter_cons, hk, total_cons, this]
      omega

theorem total_sublist_le {c d : List (Key × Entry)} (h : c.Sublist d) : total c ≤ total d := by
  induction h with
  | slnil => simp [total]
  | cons p _ ih => rw [total_cons]; omega
  | cons_cons p _ ih => simp only [total_cons]; omega

theorem mem_size_le_total {c : List (Key × Entry)} {p : Key × Entry} (h : p ∈ c) :
    (p.2.size : Int) ≤ total c := by
  induction c with
  | nil => cases h
  | cons q c ih =>
    rw [total_cons]
    rcases List.mem_cons.mp h with h | h
    · subst h; have := total_nonneg c; omega
    · have := ih h; omega

/-! ### `evict` -/

theorem evict_cache (s : State) (k : Key) : (evict s k).cache = remove s.cache k := by
  unfold evict
  cases h : lookup s.cache k with
  | none =>
    have := (lookup_none_iff s.cache k).mp h
    simp [total_remove_of_not_mem _ _ this]
  | some e => simp [remove]

theorem evict_lru (s : State) (k : Key) : (evict s k).lru = s.lru.erase k := by
  unfold evict; cases lookup s.cache k <;> rfl

theorem evict_budget (s : State) (k : Key) : (evict s k).budget = s.budget := by
  unfold evict; cases lookup s.cache k <;> rfl

theorem evict_stamp (s : State) (k : Key) : (evict s k).stamp = s.stamp := by
  unfold evict; cases lookup s.cache k <;> rfl

theorem evict_clock (s : State) (k : Key) : (evict s k).clock = s.clock := by
  unfold evict; cases lookup s.cache k <;> rfl

theorem evict_refs (s : State) (k : Key) : (evict s k).refs = s.refs := by
  unfold evict; cases lookup s.cache k <;> rfl

theorem evict_held (s : State) (k : Key) : (evict s k).held = s.held := by
  unfold evict; cases lookup s.cache k <;> rfl

theorem evict_usage (s : State) (k : Key) (hnd : (keys s.cache).Nodup) (hu : s.usage = total s.cache) :
    (evict s k).usage = total (evict s k).cache := by
  rw [evict_cache]
  unfold evict
  cases h : lookup s.cache k with
  | none =>
    have := (lookup_none_iff s.cache k).mp h
    simp [total_remove_of_not_mem _ _ this, hu]
  | some e =>
    simp only [total_remove _ _ _ hnd h, hu]

theorem evict_usage_le (s : State) (k : Key) : (evict s k).usage ≤ s.usage := by
  unfold evict
  cases h : lookup s.cache k with
  | none => simp
  | some e => simp; omega

theorem pairwise_erase {α} [DecidableEq α] {R : α → α → Prop} {l : List α} (a : α)
    (h : l.Pairwise R) : (l.erase a).Pairwise R :=
  h.sublist (List.erase_sublist)

theorem evict_inv {s : State} (k : Key) (h : Inv s) : Inv (evict s k) := by
  have hc := evict_cache s k
  have hl := evict_lru s k
  refine ⟨evict_usage s k h.keys_nodup h.usage_eq, ?_, ?_, ?_, ?_, ?_, ?_, ?_⟩
  · rw [hc, keys_remove]; exact h.keys_nodup.sublist List.filter_sublist
  · rw [hl]; exact h.lru_nodup.sublist List.erase_sublist
  · intro j
    rw [hl, hc, mem_keys_remove, h.lru_nodup.mem_erase_iff, h.lru_mem]
    constructor
    · rintro ⟨a, b⟩; exact ⟨b, a⟩
    · rintro ⟨a, b⟩; exact ⟨b, a⟩
  · intro p hp
    rw [hc] at hp; rw [evict_budget]
    exact h.sizes p ((remove_sublist _ _).subset hp)
  · rw [evict_budget]; have := evict_usage_le s k; have := h.bounded; omega
  · rw [hl, evict_stamp]; exact pairwise_erase k h.sorted
  · rw [evict_stamp, evict_clock]; exact h.stamp_lt

theorem evict_not_mem (s : State) (k : Key) : k ∉ keys (evict s k).cache := by
  rw [evict_cache, mem_keys_remove]; simp

/-! ### `markUsed` -/

theorem markUsed_inv {s : State} (k : Key) (h : Inv s) (hk : k ∈ keys s.cache) : Inv (markUsed s k) := by
  unfold markUsed touchStamp
  refine ⟨h.usage_eq, h.keys_nodup, ?_, ?_, h.sizes, h.bounded, ?_, ?_⟩
  · simp only
    rw [List.nodup_append]
    refine ⟨h.lru_nodup.sublist List.erase_sublist, by simp, ?_⟩
    intro a ha b hb
    simp only [List.mem_singleton] at hb
    subst hb
    intro e; subst e
    exact (h.lru_nodup.mem_erase_iff.mp ha).1 rfl
  · intro j
    simp only [List.mem_append, List.mem_singleton, h.lru_nodup.mem_erase_iff, h.lru_mem]
    constructor
    · rintro (⟨_, b⟩ | rfl)
      · exact b
      · exact hk
    · intro hj
      by_cases e : j = k
      · exact Or.inr e
      · exact Or.inl ⟨e, hj⟩
  · simp only
    rw [List.pairwise_append]
    refine ⟨?_, by simp, ?_⟩
    · have hs := pairwise_erase k h.sorted
      refine hs.imp_of_mem ?_
      intro a b ha hb hab
      have ha' := (h.lru_nodup.mem_erase_iff.mp ha).1
      have hb' := (h.lru_nodup.mem_erase_iff.mp hb).1
      simp [ha', hb', hab]
    · intro a ha b hb
      simp only [List.mem_singleton] at hb
      subst hb
      have ha' := (h.lru_nodup.mem_erase_iff.mp ha).1
      simp only [ha', if_false, if_true]
      exact h.stamp_lt a
  · intro j
    simp only
    split
    · omega
    · have := h.stamp_lt j; omega

/-! ### `makeRoom` -/

/-- popping the head of the deque and evicting it -/
theorem pop_evict_inv {s : State} {k : Key} {rest : List Key} (h : Inv s) (hl : s.lru = k :: rest) :
    Inv (evict { s with lru := rest } k) := by
  have : evict { s with lru := rest } k = evict s k := by
    have hk : k ∉ rest := by
      have := h.lru_nodup; rw [hl] at this; exact (List.nodup_cons.mp this).1
    unfold evict
    cases lookup s.cache k <;> simp [hl, List.erase_of_not_mem hk]
  rw [this]; exact evict_inv k h

theorem makeRoom_inv (size : Nat) : ∀ (n : Nat) (s : State), Inv s → Inv (makeRoom size n s) := by
  intro n
  induction n with
  | zero => intro s h; exact h
  | succ n ih =>
    intro s h
    unfold makeRoom
    split
    · exact h
    · rename_i k rest hl
      split
      · exact ih _ (pop_evict_inv h hl)
      · exact h

theorem makeRoom_budget (size : Nat) : ∀ (n : Nat) (s : State), (makeRoom size n s).budget = s.budget := by
  intro n
  induction n with
  | zero => intro s; rfl
  | succ n ih =>
    intro s
    unfold makeRoom
    split
    · rfl
    · split
      · rw [ih, evict_budget]
      · rfl

theorem makeRoom_stamp (size : Nat) : ∀ (n : Nat) (s : State), (makeRoom size n s).stamp = s.stamp ∧
    (makeRoom size n s).clock = s.clock ∧ (makeRoom size n s).refs = s.refs ∧ (makeRoom size n s).held = s.held := by
  intro n
  induction n with
  | zero => intro s; exact ⟨rfl, rfl, rfl, rfl⟩
  | succ n ih =>
    intro s
    unfold makeRoom
    split
    · exact ⟨rfl, rfl, rfl, rfl⟩
    · split
      · obtain ⟨a, b, c, d⟩ := ih (evict { s with lru := _ } _)
        rw [a, b, c, d, evict_stamp, evict_clock, evict_refs, evict_held]
        exact ⟨rfl, rfl, rfl, rfl⟩
      · exact ⟨rfl, rfl, rfl, rfl⟩

/-- with enough fuel the loop ends with room for `size` (given `size ≤ budget`) -/
theorem makeRoom_fits (size : Nat) : ∀ (n : Nat) (s : State), Inv s → s.lru.length ≤ n → size ≤ s.budget →
    (makeRoom size n s).usage + size ≤ s.budget := by
  intro n
  induction n with
  | zero =>
    intro s h hn hsz
    have hl : s.lru = [] := List.eq_nil_of_length_eq_zero (by omega)
    have hc : keys s.cache = [] := by
      apply List.eq_nil_iff_forall_not_mem.mpr
      intro k hk; have := (h.lru_mem k).mpr hk; rw [hl] at this; cases this
    have : s.cache = [] := by simpa [keys] using hc
    simp only [makeRoom, h.usage_eq, this, total_nil]; omega
  | succ n ih =>
    intro s h hn hsz
    unfold makeRoom
    split
    · rename_i hl
      have hc : keys s.cache = [] := by
        apply List.eq_nil_iff_forall_not_mem.mpr
        intro k hk; have := (h.lru_mem k).mpr hk; rw [hl] at this; cases this
      have : s.cache = [] := by simpa [keys] using hc
      simp only [h.usage_eq, this, total_nil]; omega
    · rename_i k rest hl
      split
      · have hi := pop_evict_inv h hl
        have := ih _ hi (by rw [evict_lru]; simp only; have := List.length_erase_le (a := k) (l := rest); rw [hl] at hn; simp at hn; omega)
          (by rw [evict_budget]; exact hsz)
        rw [evict_budget] at this; exact this
      · omega

theorem filter_const_true {α} (l : List α) : l.filter (fun _ => true) = l := by
  induction l with
  | nil => rfl
  | cons a l ih => simp [List.filter_cons, ih]

/-- the keys evicted by the loop form a *prefix* of the deque, the survivors the matching suffix -/
theorem makeRoom_prefix (size : Nat) : ∀ (n : Nat) (s : State), Inv s →
    ∃ m, (makeRoom size n s).lru = s.lru.drop m ∧
      (makeRoom size n s).cache = s.cache.filter (fun p => !((s.lru.take m).contains p.1)) := by
  intro n
  induction n with
  | zero => intro s _; exact ⟨0, by simp [makeRoom], by simp [makeRoom, filter_const_true]⟩
  | succ n ih =>
    intro s h
    unfold makeRoom
    split
    · exact ⟨0, by simp, by simp [filter_const_true]⟩
    · rename_i k rest hl
      split
      · have hi := pop_evict_inv h hl
        obtain ⟨m, h1, h2⟩ := ih _ hi
        have hk : k ∉ rest := by
          have := h.lru_nodup; rw [hl] at this; exact (List.nodup_cons.mp this).1
        rw [evict_lru] at h1 h2
        rw [evict_cache] at h2
        simp only [List.erase_of_not_mem hk] at h1 h2
        refine ⟨m + 1, ?_, ?_⟩
        · rw [h1, hl]; rfl
        · rw [h2, hl]
          simp only [remove, List.filter_filter, List.take_succ_cons]
          apply List.filter_congr
          intro p _
          by_cases e : p.1 = k
          · simp [e]
          · have e' : ¬ k = p.1 := fun x => e x.symm
            simp [e, e']
      · exact ⟨0, by simp, by simp [filter_const_true]⟩

/-- `makeRoom_prefix` with minimality: no shorter prefix would have made room -/
theorem makeRoom_prefix_min (size : Nat) : ∀ (n : Nat) (s : State), Inv s →
    ∃ m, (makeRoom size n s).lru = s.lru.drop m ∧
      (makeRoom size n s).cache = s.cache.filter (fun p => !((s.lru.take m).contains p.1)) ∧
      ∀ m' < m, total (s.cache.filter (fun p => !((s.lru.take m').contains p.1))) + size > s.budget := by
  intro n
  induction n with
  | zero => intro s _; exact ⟨0, by simp [makeRoom], by simp [makeRoom, filter_const_true], by omega⟩
  | succ n ih =>
    intro s h
    unfold makeRoom
    split
    · exact ⟨0, by simp, by simp [filter_const_true], by omega⟩
    · rename_i k rest hl
      split
      · rename_i hover
        have hi := pop_evict_inv h hl
        obtain ⟨m, h1, h2, h3⟩ := ih _ hi
        have hk : k ∉ rest := by
          have := h.lru_nodup; rw [hl] at this; exact (List.nodup_cons.mp this).1
        rw [evict_lru] at h1 h2 h3
        rw [evict_cache] at h2 h3
        rw [evict_budget] at h3
        simp only [List.erase_of_not_mem hk] at h1 h2 h3
        have hff : ∀ j, List.filter (fun p => !(List.take j rest).contains p.fst) (remove s.cache k)
            = List.filter (fun p => !(List.take (j+1) (k :: rest)).contains p.fst) s.cache := by
          intro j
          simp only [remove, List.filter_filter, List.take_succ_cons]
          apply List.filter_congr
          intro p _
          by_cases e : p.1 = k
          · simp [e]
          · have e' : ¬ k = p.1 := fun x => e x.symm
            simp [e, e']
        refine ⟨m + 1, ?_, ?_, ?_⟩
        · rw [h1, hl]; rfl
        · rw [h2, hl]; exact hff m
        · intro m' hm'
          rw [hl]
          cases m' with
          | zero =>
            simp only [List.take_zero, List.contains_nil, Bool.not_false, filter_const_true]
            rw [← h.usage_eq]; exact hover
          | succ j => rw [← hff j]; exact h3 j (by omega)
      · exact ⟨0, by simp, by simp [filter_const_true], by omega⟩

theorem lookup_append_of_ne (c : List (Key × Entry)) (k j : Key) (e : Entry) (h : k ≠ j) :
    lookup (c ++ [(k, e)]) j = lookup c j := by
  induction c with
  | nil => simp [lookup_cons, h, lookup_nil]
  | cons p c ih => simp only [List.cons_append, lookup_cons, ih]

theorem lookup_filter_keep (c : List (Key × Entry)) (f : Key → Bool) (j : Key) (hj : f j = true) :
    lookup (c.filter (fun p => f p.1)) j = lookup c j := by
  induction c with
  | nil => rfl
  | cons p c ih =>
    by_cases e : p.1 = j
    · subst e; simp [List.filter_cons, hj, lookup_cons]
    · by_cases hf : f p.1 = true
      · simp [List.filter_cons, hf, lookup_cons, e, ih]
      · simp [List.filter_cons, hf, lookup_cons, e, ih]

theorem lookup_remove_of_ne (c : List (Key × Entry)) (k j : Key) (h : j ≠ k) :
    lookup (remove c k) j = lookup c j := by
  unfold remove
  exact lookup_filter_keep c (fun x => !(x == k)) j (by simp [h])

/-! ### forgetting -/

theorem step_fcall_cache (s : State) (k : Key) : (step s (.fcall k)).1.cache = remove s.cache k := by
  simp only [step, stepRaw, prune, forgetCall, evict_cache]

theorem foldl_evict_cache (ks : List Key) : ∀ (s : State),
    (ks.foldl evict s).cache = s.cache.filter (fun p => !(ks.contains p.1)) := by
  induction ks with
  | nil => intro s; simp [filter_const_true]
  | cons k ks ih =>
    intro s
    simp only [List.foldl_cons, ih, evict_cache, remove, List.filter_filter]
    apply List.filter_congr
    intro p _
    by_cases e : p.1 = k
    · simp [e]
    · have e' : ¬ k = p.1 := fun x => e x.symm
      simp [e, e']

theorem step_ffn_cache (s : State) (fn : Nat) :
    (step s (.ffn fn)).1.cache = s.cache.filter (fun p => !(p.1.fn == fn)) := by
  simp only [step, stepRaw, prune, forgetFunction, foldl_evict_cache]
  apply List.filter_congr
  intro p hp
  by_cases e : p.1.fn = fn
  · have : p.1 ∈ List.map (fun x => x.1) (List.filter (fun p => p.1.fn == fn) s.cache) :=
      List.mem_map.mpr ⟨p, List.mem_filter.mpr ⟨hp, by simp [e]⟩, rfl⟩
    simp [e, List.contains_iff_mem, this]
  · have : p.1 ∉ List.map (fun x => x.1) (List.filter (fun p => p.1.fn == fn) s.cache) := by
      intro hx
      obtain ⟨q, hq, hqe⟩ := List.mem_map.mp hx
      have := (List.mem_filter.mp hq).2
      simp at this; rw [hqe] at this; exact e this
    simp [e, List.contains_iff_mem, this]

theorem run_fcall_sub (ks : List Key) : ∀ (s : State) {p}, p ∈ (run s (ks.map Op.fcall)).cache → p ∈ s.cache := by
  induction ks with
  | nil => intro s p h; exact h
  | cons k ks ih =>
    intro s p h
    simp only [run, List.map_cons, List.foldl_cons] at ih h
    have := ih _ h
    rw [step_fcall_cache] at this
    exact (remove_sublist _ _).subset this

theorem run_fcall_removes (ks : List Key) : ∀ (s : State) (k : Key), k ∈ ks →
    k ∉ keys (run s (ks.map Op.fcall)).cache := by
  induction ks with
  | nil => intro s k h; cases h
  | cons j ks ih =>
    intro s k h hx
    simp only [run, List.map_cons, List.foldl_cons] at ih hx
    rcases List.mem_cons.mp h with rfl | h
    · obtain ⟨p, hp, hpe⟩ := List.mem_map.mp hx
      have := run_fcall_sub ks _ hp
      rw [step_fcall_cache] at this
      have := (mem_keys_remove s.cache k p.1).mp (List.mem_map.mpr ⟨p, this, rfl⟩)
      exact this.2 hpe
    · exact ih _ k h hx

theorem run_ffn_sub (fns : List Nat) : ∀ (s : State) {p}, p ∈ (run s (fns.map Op.ffn)).cache → p ∈ s.cache := by
  induction fns with
  | nil => intro s p h; exact h
  | cons f fns ih =>
    intro s p h
    simp only [run, List.map_cons, List.foldl_cons] at ih h
    have := ih _ h
    rw [step_ffn_cache] at this
    exact (List.mem_filter.mp this).1

theorem run_ffn_removes (fns : List Nat) : ∀ (s : State) (k : Key), k.fn ∈ fns →
    k ∉ keys (run s (fns.map Op.ffn)).cache := by
  induction fns with
  | nil => intro s k h; cases h
  | cons f fns ih =>
    intro s k h hx
    simp only [run, List.map_cons, List.foldl_cons] at ih hx
    rcases List.mem_cons.mp h with e | h
    · obtain ⟨p, hp, hpe⟩ := List.mem_map.mp hx
      have := run_ffn_sub fns _ hp
      rw [step_ffn_cache] at this
      have := (List.mem_filter.mp this).2
      simp only [Bool.not_eq_true', beq_eq_false_iff_ne, ne_eq] at this
      rw [hpe] at this; exact this e
    · exact ih _ k h hx

/-! ### every operation preserves the invariant -/

theorem inv_init (b : Nat) : Inv (init b) := by
  refine ⟨rfl, by simp [init, keys], by simp [init], by simp [init, keys], by simp [init], ?_, by simp [init], ?_⟩
  · simp [init]
  · intro k; simp [init]

theorem refs_irrelevant {s s' : State} (h : Inv s)
    (hb : s'.budget = s.budget) (hu : s'.usage = s.usage) (hc : s'.cache = s.cache) (hl : s'.lru = s.lru)
    (hk : s'.clock = s.clock) (hs : s'.stamp = s.stamp) : Inv s' := by
  refine ⟨?_, ?_, ?_, ?_, ?_, ?_, ?_, ?_⟩
  · rw [hu, hc]; exact h.usage_eq
  · rw [hc]; exact h.keys_nodup
  · rw [hl]; exact h.lru_nodup
  · rw [hl, hc]; exact h.lru_mem
  · rw [hc, hb]; exact h.sizes
  · rw [hu, hb]; exact h.bounded
  · rw [hl, hs]; exact h.sorted
  · rw [hs, hk]; exact h.stamp_lt

theorem putRef_inv {s : State} (k : Key) (v : Nat) (w : Bool) (h : Inv s) : Inv (putRef s k v w) := by
  unfold putRef; split <;> exact refs_irrelevant h rfl rfl rfl rfl rfl rfl

theorem prune_inv {s : State} (h : Inv s) : Inv (prune s) :=
  refs_irrelevant h rfl rfl rfl rfl rfl rfl

theorem putCore_inv {s : State} (k : Key) (m v size : Nat) (hr : Bool) (h : Inv s) (hsz : size ≤ s.budget) :
    Inv (putCore s k m v size hr) := by
  have h1 := evict_inv k h
  have hk1 : k ∉ keys (evict s k).cache := evict_not_mem s k
  have h2 := makeRoom_inv size (evict s k).lru.length _ h1
  have hfit := makeRoom_fits size (evict s k).lru.length _ h1 (Nat.le_refl _) (by rw [evict_budget]; exact hsz)
  rw [evict_budget] at hfit
  obtain ⟨mm, hpl, hpc⟩ := makeRoom_prefix size (evict s k).lru.length _ h1
  have hb : (makeRoom size (evict s k).lru.length (evict s k)).budget = s.budget := by
    rw [makeRoom_budget, evict_budget]
  have hk2 : k ∉ keys (makeRoom size (evict s k).lru.length (evict s k)).cache := by
    rw [hpc]; intro hk
    simp only [keys, List.mem_map] at hk
    obtain ⟨p, hp, rfl⟩ := hk
    have := (List.mem_filter.mp hp).1
    exact hk1 (List.mem_map.mpr ⟨p, this, rfl⟩)
  generalize hS : makeRoom size (evict s k).lru.length (evict s k) = S at *
  have hkl : k ∉ S.lru := fun hx => hk2 ((h2.lru_mem k).mp hx)
  unfold putCore touchStamp
  simp only [hS]
  refine ⟨?_, ?_, ?_, ?_, ?_, ?_, ?_, ?_⟩
  · simp only [total_append, total_cons, total_nil, h2.usage_eq]; omega
  · simp only [keys, List.map_append, List.map_cons, List.map_nil]
    rw [List.nodup_append]
    refine ⟨h2.keys_nodup, by simp, ?_⟩
    intro a ha b hb'
    simp only [List.mem_singleton] at hb'; subst hb'
    intro e; subst e; exact hk2 ha
  · rw [List.nodup_append]
    refine ⟨h2.lru_nodup, by simp, ?_⟩
    intro a ha b hb'
    simp only [List.mem_singleton] at hb'; subst hb'
    intro e; subst e; exact hkl ha
  · intro j
    simp only [keys, List.map_append, List.map_cons, List.map_nil, List.mem_append, List.mem_singleton]
    have := h2.lru_mem j
    simp only [keys] at this
    rw [this]
  · intro p hp
    simp only [List.mem_append, List.mem_singleton] at hp
    rcases hp with hp | rfl
    · have := h2.sizes p hp; rw [hb] at this; simpa [hb] using this
    · simpa [hb] using hsz
  · simp only [hb]; omega
  · simp only
    rw [List.pairwise_append]
    refine ⟨?_, by simp, ?_⟩
    · refine h2.sorted.imp_of_mem ?_
      intro a b ha hb' hab
      have ha' : a ≠ k := fun e => hkl (e ▸ ha)
      have hb'' : b ≠ k := fun e => hkl (e ▸ hb')
      simp [ha', hb'', hab]
    · intro a ha b hb'
      simp only [List.mem_singleton] at hb'; subst hb'
      have ha' : a ≠ b := fun e => hkl (e ▸ ha)
      simp only [ha', if_false, if_true]
      exact h2.stamp_lt a
  · intro j
    simp only
    split
    · omega
    · have := h2.stamp_lt j; omega

theorem putSized_inv {s : State} (k : Key) (m v size : Nat) (w hr : Bool) (vc : Option Nat) (h : Inv s) :
    Inv (putSized s k m v size w hr vc) := by
  unfold putSized
  split
  · exact evict_inv k h
  · rename_i hsz
    have hsz' : size ≤ s.budget := by omega
    split
    · refine putCore_inv k m _ size hr (putRef_inv k _ w h) ?_
      unfold putRef; split <;> exact hsz'
    · exact putCore_inv k m v size hr h hsz'

theorem put_inv {s : State} (k : Key) (m v size : Nat) (w hr : Bool) (vc : Option Nat) (h : Inv s) :
    Inv (put s k m v size w hr vc) := by
  unfold put
  apply putSized_inv
  split
  · exact putRef_inv k v w h
  · exact h

theorem foldl_evict_inv (ks : List Key) : ∀ {s : State}, Inv s → Inv (ks.foldl evict s) := by
  induction ks with
  | nil => intro s h; exact h
  | cons k ks ih => intro s h; exact ih (evict_inv k h)

theorem forgetEverything_inv {s : State} (h : Inv s) : Inv (forgetEverything s) := by
  refine ⟨rfl, by simp [forgetEverything, keys], by simp [forgetEverything], by simp [forgetEverything, keys],
    by simp [forgetEverything], ?_, by simp [forgetEverything], h.stamp_lt⟩
  simp [forgetEverything]

theorem isMemoized_inv {s : State} (k : Key) (h : Inv s) : Inv (isMemoized s k).1 := by
  simp only [isMemoized]
  split
  · rename_i hk; exact markUsed_inv k h ((hasKey_iff _ _).mp hk)
  · exact h

theorem isAllMemoized_inv (ks : List Key) : ∀ {s : State}, Inv s → Inv (isAllMemoized s ks).1 := by
  induction ks with
  | nil => intro s h; exact h
  | cons k ks ih => intro s h; simp only [isAllMemoized]; exact ih (isMemoized_inv k h)

theorem isMemoized_budget (s : State) (k : Key) : (isMemoized s k).1.budget = s.budget := by
  simp only [isMemoized]; split <;> rfl

theorem isAllMemoized_budget (ks : List Key) : ∀ (s : State), (isAllMemoized s ks).1.budget = s.budget := by
  induction ks with
  | nil => intro s; rfl
  | cons k ks ih => intro s; simp only [isAllMemoized]; rw [ih, isMemoized_budget]

theorem stepRaw_inv {s : State} (op : Op) (h : Inv s) : Inv (stepRaw s op).1 := by
  cases op with
  | put k m v sz wr hr vc => exact put_inv k m v sz wr hr vc h
  | getm ks => exact h
  | read k =>
    simp only [stepRaw, readResult]
    cases hl : lookup s.cache k with
    | none => simp only; split <;> exact h
    | some e =>
      simp only
      split
      · refine markUsed_inv k h ?_
        have := lookup_some_mem hl
        exact List.mem_map.mpr ⟨_, this, rfl⟩
      · exact h
  | ismem k =>
    simp only [stepRaw, isMemoized]
    split
    · rename_i hk; exact markUsed_inv k h ((hasKey_iff _ _).mp hk)
    · exact h
  | allmem ks => exact isAllMemoized_inv ks h
  | fcall k => exact evict_inv k (refs_irrelevant h rfl rfl rfl rfl rfl rfl)
  | ffn fn => exact foldl_evict_inv _ (refs_irrelevant h rfl rfl rfl rfl rfl rfl)
  | fall => exact forgetEverything_inv h
  | hold v => exact refs_irrelevant h rfl rfl rfl rfl rfl rfl
  | drop v => exact refs_irrelevant h rfl rfl rfl rfl rfl rfl

/-- one step of the cache state machine preserves the invariant -/
theorem inv_step {s : State} (op : Op) (h : Inv s) : Inv (step s op).1 := by
  unfold step; exact prune_inv (stepRaw_inv op h)


/-! ### budget is never changed -/

theorem putRef_budget (s : State) (k v w) : (putRef s k v w).budget = s.budget := by
  unfold putRef; split <;> rfl

theorem putCore_budget (s : State) (k m v size hr) : (putCore s k m v size hr).budget = s.budget := by
  simp only [putCore, touchStamp, makeRoom_budget, evict_budget]

theorem putSized_budget (s : State) (k m v size w hr vc) :
    (putSized s k m v size w hr vc).budget = s.budget := by
  unfold putSized
  split
  · rw [evict_budget]
  · split
    · rw [putCore_budget, putRef_budget]
    · rw [putCore_budget]

theorem put_budget (s : State) (k m v size w hr vc) : (put s k m v size w hr vc).budget = s.budget := by
  unfold put
  rw [putSized_budget]
  split
  · exact putRef_budget _ _ _ _
  · rfl

theorem foldl_evict_budget (ks : List Key) : ∀ (s : State), (ks.foldl evict s).budget = s.budget := by
  induction ks with
  | nil => intro _; rfl
  | cons k ks ih => intro s; simp only [List.foldl_cons]; rw [ih, evict_budget]

theorem step_budget (s : State) (op : Op) : (step s op).1.budget = s.budget := by
  cases op with
  | put k m v sz wr hr vc => simp only [step, stepRaw, prune, put_budget]
  | getm ks => rfl
  | read k =>
    simp only [step, stepRaw, prune, readResult]
    split
    · split <;> rfl
    · split <;> rfl
  | ismem k => simp only [step, stepRaw, prune, isMemoized]; split <;> rfl
  | allmem ks => simp only [step, stepRaw, prune, isAllMemoized_budget]
  | fcall k => simp only [step, stepRaw, prune, forgetCall, evict_budget]
  | ffn fn => simp only [step, stepRaw, prune, forgetFunction, foldl_evict_budget]
  | fall => rfl
  | hold v => rfl
  | drop v => rfl

theorem run_budget (ops : List Op) : ∀ (s : State), (run s ops).budget = s.budget := by
  induction ops with
  | nil => intro s; rfl
  | cons op ops ih => intro s; simp only [run, List.foldl_cons] at ih ⊢; rw [ih, step_budget]

/-! ### group queries (`is_all_memoized`) -/

theorem isMemoized_cache (s : State) (k : Key) : (isMemoized s k).1.cache = s.cache := by
  unfold isMemoized markUsed touchStamp; split <;> rfl

theorem isMemoized_refs (s : State) (k : Key) : (isMemoized s k).1.refs = s.refs := by
  unfold isMemoized markUsed touchStamp; split <;> rfl

theorem isMemoized_clock_le (s : State) (k : Key) : s.clock ≤ (isMemoized s k).1.clock := by
  unfold isMemoized markUsed touchStamp; split <;> simp

theorem isMemoized_stamp_other (s : State) (k j : Key) (hj : j ≠ k) : (isMemoized s k).1.stamp j = s.stamp j := by
  unfold isMemoized markUsed touchStamp; split <;> simp [hj]

theorem isMemoized_stamp_self (s : State) (k : Key) (hk : k ∈ keys s.cache) : (isMemoized s k).1.stamp k = s.clock := by
  unfold isMemoized markUsed touchStamp
  rw [if_pos ((hasKey_iff _ _).mpr hk)]; simp

theorem isAllMemoized_cache (ks : List Key) : ∀ s : State, (isAllMemoized s ks).1.cache = s.cache := by
  induction ks with
  | nil => intro s; rfl
  | cons k ks ih => intro s; simp only [isAllMemoized]; rw [ih, isMemoized_cache]

theorem isAllMemoized_clock_le (ks : List Key) : ∀ s : State, s.clock ≤ (isAllMemoized s ks).1.clock := by
  induction ks with
  | nil => intro s; exact Nat.le_refl _
  | cons k ks ih => intro s; simp only [isAllMemoized]; exact Nat.le_trans (isMemoized_clock_le s k) (ih _)

theorem isAllMemoized_stamp_other (ks : List Key) (j : Key) (hj : j ∉ ks) :
    ∀ s : State, (isAllMemoized s ks).1.stamp j = s.stamp j := by
  induction ks with
  | nil => intro s; rfl
  | cons k ks ih =>
    intro s
    simp only [List.mem_cons, not_or] at hj
    simp only [isAllMemoized]
    rw [ih hj.2, isMemoized_stamp_other s k j hj.1]

theorem isAllMemoized_stamp_queried (ks : List Key) (k : Key) (hk : k ∈ ks) :
    ∀ s : State, k ∈ keys s.cache → s.clock ≤ (isAllMemoized s ks).1.stamp k := by
  induction ks with
  | nil => exact absurd hk (by simp)
  | cons a ks ih =>
    intro s hres
    simp only [isAllMemoized]
    by_cases hin : k ∈ ks
    · have := ih hin (isMemoized s a).1 (by rw [isMemoized_cache]; exact hres)
      exact Nat.le_trans (isMemoized_clock_le s a) this
    · have hka : k = a := by
        rcases List.mem_cons.mp hk with h | h
        · exact h
        · exact absurd h hin
      subst hka
      rw [isAllMemoized_stamp_other ks k hin, isMemoized_stamp_self s k hres]
      exact Nat.le_refl _

end Memento.Cache
