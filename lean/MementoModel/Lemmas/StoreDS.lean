import MementoModel.Lemmas.AList
import MementoModel.Lemmas.StoreInv

/-! The versioned object store: how each primitive changes lookups; frame lemmas for the
    backend's read functions; preservation of `DSWF`. -/
set_option linter.unusedSimpArgs false
set_option linter.unusedVariables false
namespace Memento.Store
open Memento

namespace DS

theorem alookup_links_output (d : DS) (k : K) (c : Content) (k' : K) :
    alookup (d.output k c).1.links k' = if k' = k then some d.next else alookup d.links k' :=
  alookup_aset d.links k d.next k'

theorem alookup_objs_output (d : DS) (k : K) (c : Content) (kv : K × Ver) :
    alookup (d.output k c).1.objs kv = if (k, d.next) = kv then some c else alookup d.objs kv :=
  alookup_cons _ _ _

theorem alookup_links_deleteLink (d : DS) (k k' : K) :
    alookup (d.deleteLink k).links k' = if k' = k then none else alookup d.links k' :=
  alookup_adel d.links k k'

theorem alookup_links_deleteWhere (d : DS) (sel : K → Bool) (k : K) :
    alookup (d.deleteWhere sel).links k = if sel k then none else alookup d.links k := by
  show alookup (d.links.filter (fun p => !(sel p.1))) k = _
  rw [alookup_filter d.links (fun k => !(sel k)) k]
  cases sel k <;> simp

theorem alookup_objs_deleteWhere (d : DS) (sel : K → Bool) (k : K) (v : Ver) :
    alookup (d.deleteWhere sel).objs (k, v) = if sel k then none else alookup d.objs (k, v) := by
  show alookup (d.objs.filter (fun p => !(sel p.1.1))) (k, v) = _
  rw [alookup_filter d.objs (fun kv => !(sel kv.1)) (k, v)]
  cases sel k <;> simp

end DS

/-- objects are only ever added -/
def ObjsExt (d d' : DS) : Prop := ∀ kv c, alookup d.objs kv = some c → alookup d'.objs kv = some c

theorem ObjsExt.refl (d : DS) : ObjsExt d d := fun _ _ h => h

theorem ObjsExt.trans {d d' d'' : DS} (h1 : ObjsExt d d') (h2 : ObjsExt d' d'') : ObjsExt d d'' :=
  fun kv c h => h2 kv c (h1 kv c h)

theorem DSWF.obj_lt {d : DS} (h : DSWF d) {kv : K × Ver} {c : Content} (ho : alookup d.objs kv = some c) :
    kv.2 < d.next := h.objFresh _ (alookup_mem ho)

theorem DSWF.link_lt {d : DS} (h : DSWF d) {k : K} {v : Ver} (hl : alookup d.links k = some v) :
    v < d.next := h.linkFresh _ (alookup_mem hl)

theorem ObjsExt.output {d : DS} (h : DSWF d) (k : K) (c : Content) : ObjsExt d (d.output k c).1 := by
  intro kv c' ho
  rw [DS.alookup_objs_output]
  have := h.obj_lt ho
  have hne : ¬ (k, d.next) = kv := by intro e; rw [← e] at this; simp at this
  rw [if_neg hne]; exact ho

theorem ObjsExt.deleteLink (d : DS) (k : K) : ObjsExt d (d.deleteLink k) := fun _ _ h => h

namespace FsBackend

/-! ### reading -/

theorem readMemento_eq (d : DS) (fn : Fn) (arg : Arg) (m : Nat) (ck : Option (K × Ver)) :
    readMemento d fn arg = some (m, ck) ↔
      ∃ v, alookup d.links (.memento fn arg) = some v ∧
        alookup d.objs (.memento fn arg, v) = some (.mrec m ck) := by
  unfold readMemento DS.inputNV
  cases hl : alookup d.links (.memento fn arg) with
  | none => simp
  | some v =>
    simp only [Option.some.injEq, exists_eq_left']
    cases ho : alookup d.objs (.memento fn arg, v) with
    | none => simp
    | some c => cases c <;> simp

theorem readMemento_none_of_link {d : DS} {fn : Fn} {arg : Arg}
    (h : alookup d.links (.memento fn arg) = none) : readMemento d fn arg = none := by
  unfold readMemento DS.inputNV; rw [h]

theorem loadResult_of_ckOk {d : DS} {ck : Option (K × Ver)} (h : CkOk d ck) :
    ∃ val, loadResult d ck = some val := by
  rcases h with rfl | ⟨k, ver, b, rfl, _, ho⟩
  · exact ⟨none, rfl⟩
  · exact ⟨some b, by simp [loadResult, DS.inputV, ho]⟩

theorem loadResult_frame {d d' : DS} {ck : Option (K × Ver)} (h : CkOk d ck) (ho : ObjsExt d d') :
    loadResult d' ck = loadResult d ck ∧ CkOk d' ck := by
  rcases h with rfl | ⟨k, ver, b, rfl, hk, hb⟩
  · exact ⟨rfl, Or.inl rfl⟩
  · refine ⟨?_, Or.inr ⟨k, ver, b, rfl, hk, ho _ _ hb⟩⟩
    simp [loadResult, DS.inputV, hb, ho _ _ hb]

/-- the memento document of a linked call, with a loadable content key -/
theorem DSWF.readMemento_of_link {d : DS} (h : DSWF d) {fn : Fn} {arg : Arg} {v : Ver}
    (hl : alookup d.links (.memento fn arg) = some v) :
    ∃ m ck, readMemento d fn arg = some (m, ck) ∧ CkOk d ck := by
  obtain ⟨m, ck, ho, hck⟩ := h.mementoOk fn arg v hl
  exact ⟨m, ck, (readMemento_eq d fn arg m ck).mpr ⟨v, hl, ho⟩, hck⟩

theorem DSWF.ckOk_of_read {d : DS} (h : DSWF d) {fn : Fn} {arg : Arg} {m : Nat} {ck}
    (hr : readMemento d fn arg = some (m, ck)) : CkOk d ck := by
  obtain ⟨v, hl, ho⟩ := (readMemento_eq d fn arg m ck).mp hr
  obtain ⟨m', ck', ho', hck⟩ := h.mementoOk fn arg v hl
  rw [ho] at ho'; cases ho'; exact hck

/-- frame: the memento link is untouched and the objects of the store are extended -/
theorem readMemento_frame {d d' : DS} (h : DSWF d) (fn : Fn) (arg : Arg)
    (hl : alookup d'.links (.memento fn arg) = alookup d.links (.memento fn arg))
    (ho : ObjsExt d d') : readMemento d' fn arg = readMemento d fn arg := by
  cases hlk : alookup d.links (.memento fn arg) with
  | none => rw [readMemento_none_of_link hlk, readMemento_none_of_link (hl.trans hlk)]
  | some v =>
    obtain ⟨m, ck, hr, _⟩ := DSWF.readMemento_of_link h hlk
    rw [hr]
    obtain ⟨v', hl', ho'⟩ := (readMemento_eq d fn arg m ck).mp hr
    exact (readMemento_eq d' fn arg m ck).mpr ⟨v', hl.trans hl', ho _ _ ho'⟩

theorem storeEntry_frame {d d' : DS} (h : DSWF d) (fn : Fn) (arg : Arg)
    (hl : alookup d'.links (.memento fn arg) = alookup d.links (.memento fn arg))
    (ho : ObjsExt d d') : storeEntry d' fn arg = storeEntry d fn arg := by
  unfold storeEntry
  rw [readMemento_frame h fn arg hl ho]
  cases hr : readMemento d fn arg with
  | none => rfl
  | some p =>
    obtain ⟨m, ck⟩ := p
    simp only
    rw [(loadResult_frame (DSWF.ckOk_of_read h hr) ho).1]

theorem storeEntry_eq_some {d : DS} {fn arg m ck vb} :
    storeEntry d fn arg = some (m, ck, vb) ↔
      readMemento d fn arg = some (m, ck) ∧ vb = (loadResult d ck).getD none := by
  unfold storeEntry
  cases hr : readMemento d fn arg with
  | none => simp
  | some p =>
    obtain ⟨m', ck'⟩ := p
    simp only [Option.some.injEq, Prod.mk.injEq]
    constructor
    · rintro ⟨rfl, rfl, rfl⟩; exact ⟨⟨rfl, rfl⟩, rfl⟩
    · rintro ⟨⟨rfl, rfl⟩, rfl⟩; exact ⟨rfl, rfl, rfl⟩

end FsBackend

/-! ### `DSWF` is preserved by the primitives, as the backend uses them -/

theorem CkOk.ext {d d' : DS} {ck} (h : CkOk d ck) (ho : ObjsExt d d') : CkOk d' ck :=
  (FsBackend.loadResult_frame h ho).2

theorem DSWF.empty : DSWF DS.empty := by
  refine ⟨?_, ?_, ?_, ?_, ?_, ?_, ?_, ?_, ?_, ?_⟩ <;> simp [DS.empty, alookup_nil]

theorem DSWF.output {d : DS} (h : DSWF d) (k : K) (c : Content)
    (hmem : ∀ fn arg, k = .memento fn arg → ∃ m ck, c = .mrec m ck ∧ CkOk d ck)
    (hmeta : ∀ fn arg mk wd, k = .mdat fn arg mk wd →
      (wd = false → ∃ b, c = .raw b) ∧ (alookup d.links (.memento fn arg)).isSome)
    (hcontent : ∀ hh, k = .content hh → c = .blob hh ∧ ∀ v, alookup d.objs (.content hh, v) = none)
    (hblob : ∀ b, c = .blob b → b + 1 < 1000000) :
    DSWF (d.output k c).1 := by
  have hext := ObjsExt.output h k c
  refine ⟨?_, ?_, ?_, ?_, ?_, ?_, ?_, ?_, ?_, ?_⟩
  · intro p hp
    show p.1.2 < d.next + 1
    rcases List.mem_cons.mp hp with rfl | hp
    · exact Nat.lt_succ_self _
    · exact Nat.lt_succ_of_lt (h.objFresh p hp)
  · intro p hp
    show p.2 < d.next + 1
    rcases mem_aset hp with rfl | ⟨hp, _⟩
    · exact Nat.lt_succ_self _
    · exact Nat.lt_succ_of_lt (h.linkFresh p hp)
  · show (List.map (·.1) (((k, d.next), c) :: d.objs)).Nodup
    rw [List.map_cons, List.nodup_cons]
    refine ⟨?_, h.objNodup⟩
    intro hx
    obtain ⟨p, hp, hpe⟩ := List.mem_map.mp hx
    have := h.objFresh p hp
    rw [hpe] at this; simp at this
  · exact keys_aset_nodup _ _ h.linkNodup
  · intro fn arg v hl
    rw [DS.alookup_links_output] at hl
    by_cases e : K.memento fn arg = k
    · rw [if_pos e] at hl; cases hl
      obtain ⟨m, ck, rfl, hck⟩ := hmem fn arg e.symm
      exact ⟨m, ck, by rw [DS.alookup_objs_output, e]; simp, hck.ext hext⟩
    · rw [if_neg e] at hl
      obtain ⟨m, ck, ho, hck⟩ := h.mementoOk fn arg v hl
      exact ⟨m, ck, hext _ _ ho, hck.ext hext⟩
  · intro fn arg mk v hl
    rw [DS.alookup_links_output] at hl
    by_cases e : K.mdat fn arg mk false = k
    · rw [if_pos e] at hl; cases hl
      obtain ⟨b, rfl⟩ := (hmeta fn arg mk false e.symm).1 rfl
      exact ⟨b, by rw [DS.alookup_objs_output, e]; simp⟩
    · rw [if_neg e] at hl
      obtain ⟨b, ho⟩ := h.metaOk fn arg mk v hl
      exact ⟨b, hext _ _ ho⟩
  · intro fn arg mk wd v hl
    rw [DS.alookup_links_output] at hl ⊢
    have hold : (alookup d.links (.memento fn arg)).isSome = true := by
      by_cases e : K.mdat fn arg mk wd = k
      · exact (hmeta fn arg mk wd e.symm).2
      · rw [if_neg e] at hl; exact h.metaHasMemento fn arg mk wd v hl
    split
    · rfl
    · exact hold
  · intro hh v c' ho
    rw [DS.alookup_objs_output] at ho
    by_cases e : (k, d.next) = (K.content hh, v)
    · rw [if_pos e] at ho; cases ho
      cases e
      exact (hcontent hh rfl).1
    · rw [if_neg e] at ho; exact h.contentOk hh v c' ho
  · intro hh v ho
    rw [DS.alookup_objs_output] at ho
    rw [DS.alookup_links_output]
    by_cases e : (k, d.next) = (K.content hh, v)
    · cases e; simp
    · rw [if_neg e] at ho
      by_cases e2 : K.content hh = k
      · have := (hcontent hh e2.symm).2 v
        rw [this] at ho; cases ho
      · rw [if_neg e2]; exact h.contentLinked hh v ho
  · intro kv b ho
    rw [DS.alookup_objs_output] at ho
    by_cases e : (k, d.next) = kv
    · rw [if_pos e] at ho; cases ho; exact hblob b rfl
    · rw [if_neg e] at ho; exact h.blobSmall kv b ho

theorem DSWF.deleteLink_override {d : DS} (h : DSWF d) (o : Nat) : DSWF (d.deleteLink (.override o)) := by
  have hl : ∀ k, k ≠ K.override o →
      alookup (d.deleteLink (.override o)).links k = alookup d.links k := by
    intro k hk; rw [DS.alookup_links_deleteLink, if_neg hk]
  refine ⟨h.objFresh, ?_, h.objNodup, ?_, ?_, ?_, ?_, h.contentOk, ?_, h.blobSmall⟩
  · intro p hp; exact h.linkFresh p (List.mem_filter.mp hp).1
  · exact keys_filter_nodup _ h.linkNodup
  · intro fn arg v hlk
    rw [hl _ (by simp)] at hlk
    exact h.mementoOk fn arg v hlk
  · intro fn arg mk v hlk
    rw [hl _ (by simp)] at hlk
    exact h.metaOk fn arg mk v hlk
  · intro fn arg mk wd v hlk
    rw [hl _ (by simp)] at hlk ⊢
    exact h.metaHasMemento fn arg mk wd v hlk
  · intro hh v ho
    rw [hl _ (by simp)]
    exact h.contentLinked hh v ho

theorem DSWF.deleteWhere {d : DS} (h : DSWF d) (sel : K → Bool)
    (h1 : ∀ fn arg mk wd, sel (.memento fn arg) = true → sel (.mdat fn arg mk wd) = true)
    (h2 : (∀ k, sel k = true → k.isMetaArea = true) ∨ (∀ k, sel k = true)) :
    DSWF (d.deleteWhere sel) := by
  refine ⟨?_, ?_, ?_, ?_, ?_, ?_, ?_, ?_, ?_, ?_⟩
  · intro p hp; exact h.objFresh p (List.mem_filter.mp hp).1
  · intro p hp; exact h.linkFresh p (List.mem_filter.mp hp).1
  · exact keys_filter_nodup _ h.objNodup
  · exact keys_filter_nodup _ h.linkNodup
  · intro fn arg v hl
    rw [DS.alookup_links_deleteWhere] at hl
    cases hs : sel (.memento fn arg) with
    | true => rw [hs] at hl; simp at hl
    | false =>
      rw [hs] at hl; simp only [Bool.false_eq_true, if_false] at hl
      obtain ⟨m, ck, ho, hck⟩ := h.mementoOk fn arg v hl
      refine ⟨m, ck, by rw [DS.alookup_objs_deleteWhere, hs]; simpa using ho, ?_⟩
      rcases hck with rfl | ⟨k, ver, b, rfl, hk, hb⟩
      · exact Or.inl rfl
      · refine Or.inr ⟨k, ver, b, rfl, hk, ?_⟩
        rw [DS.alookup_objs_deleteWhere]
        have : sel k = false := by
          rcases h2 with h2 | h2
          · cases hsk : sel k with
            | false => rfl
            | true => have := h2 k hsk; rw [hk] at this; cases this
          · have := h2 (.memento fn arg); rw [hs] at this; cases this
        rw [this]; simpa using hb
  · intro fn arg mk v hl
    rw [DS.alookup_links_deleteWhere] at hl
    cases hs : sel (.mdat fn arg mk false) with
    | true => rw [hs] at hl; simp at hl
    | false =>
      rw [hs] at hl; simp only [Bool.false_eq_true, if_false] at hl
      obtain ⟨b, ho⟩ := h.metaOk fn arg mk v hl
      exact ⟨b, by rw [DS.alookup_objs_deleteWhere, hs]; simpa using ho⟩
  · intro fn arg mk wd v hl
    rw [DS.alookup_links_deleteWhere] at hl ⊢
    cases hs : sel (.mdat fn arg mk wd) with
    | true => rw [hs] at hl; simp at hl
    | false =>
      rw [hs] at hl; simp only [Bool.false_eq_true, if_false] at hl
      have : sel (.memento fn arg) = false := by
        cases hsm : sel (.memento fn arg) with
        | false => rfl
        | true => have := h1 fn arg mk wd hsm; rw [hs] at this; cases this
      rw [this]; simpa using h.metaHasMemento fn arg mk wd v hl
  · intro hh v c ho
    rw [DS.alookup_objs_deleteWhere] at ho
    split at ho
    · cases ho
    · exact h.contentOk hh v c ho
  · intro hh v ho
    rw [DS.alookup_objs_deleteWhere] at ho
    rw [DS.alookup_links_deleteWhere]
    split at ho
    · cases ho
    · rename_i hs; rw [if_neg hs]; exact h.contentLinked hh v ho
  · intro kv b ho
    obtain ⟨k, v⟩ := kv
    rw [DS.alookup_objs_deleteWhere] at ho
    split at ho
    · cases ho
    · exact h.blobSmall _ b ho

end Memento.Store
