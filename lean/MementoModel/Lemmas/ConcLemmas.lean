import MementoModel.Model.Conc
import MementoModel.Lemmas.CacheLemmas

/-! The inductive invariant of the concurrent-callers transition system. -/
namespace Memento.Conc

structure Inv (memo0 : K → Bool) (s : St) : Prop where
  holds : ∀ t, inCrit (s.pc t) = true → s.holder (s.key t) = some t
  held  : ∀ k t, s.holder k = some t → inCrit (s.pc t) = true ∧ s.key t = k
  mono  : ∀ k, memo0 k = true → s.memo k = true
  exec_init : ∀ k, memo0 k = true → s.execs k = 0
  exec_le : ∀ k, s.execs k ≤ 1
  exec_st : ∀ k, memo0 k = false → s.memo k = true → s.execs k = 1
  comp  : ∀ t, s.pc t = .executed → s.memo (s.key t) = false ∧ s.execs (s.key t) = 1
  missd : ∀ t, s.pc t = .missed → s.memo (s.key t) = false ∧ s.execs (s.key t) = 0
  stord : ∀ t, s.pc t = .stored → s.memo (s.key t) = true
  nost  : ∀ k, s.memo k = false → s.execs k = 1 → (s.holder k).isSome = true ∧ ∀ t, s.holder k = some t → s.pc t = .executed
  compl : ∀ k, s.completed k = true → s.memo k = true
  cache : Cache.Inv s.cache

theorem inv_init (memo0 : K → Bool) (b : Nat) : Inv memo0 (init memo0 b) := by
  constructor <;> simp [init, inCrit, Cache.inv_init]

theorem step_inv (memo0 : K → Bool) (s s' : St) (e : Ev) (h : Inv memo0 s) (hs : step s e = some s') :
    Inv memo0 s' := by
  obtain ⟨h1, h2, h3, h4, h5, h6, h7, h8, h9, h10, h11, h12⟩ := h
  cases e with
  | start t k =>
    simp only [step] at hs
    split at hs
    · cases hs; constructor <;> grind [upd, inCrit]
    · cases hs
  | pre t hit =>
    simp only [step] at hs
    split at hs
    · cases hs; constructor <;> grind [upd, inCrit]
    · cases hs
  | acq t =>
    simp only [step] at hs
    split at hs
    · cases hs; constructor <;> grind [upd, inCrit]
    · cases hs
  | lookup t hit =>
    simp only [step] at hs
    split at hs
    · cases hs; constructor <;> grind [upd, inCrit]
    · cases hs
  | exec t =>
    simp only [step] at hs
    split at hs
    · cases hs; constructor <;> grind [upd, inCrit]
    · cases hs
  | memoize t =>
    simp only [step] at hs
    split at hs
    · cases hs; constructor <;> grind [upd, inCrit]
    · cases hs
  | rel t =>
    simp only [step] at hs
    split at hs
    · cases hs; constructor <;> grind [upd, inCrit]
    · cases hs
  | cacheOp t op =>
    simp only [step] at hs
    cases hs
    exact ⟨h1, h2, h3, h4, h5, h6, h7, h8, h9, h10, h11, Cache.inv_step op h12⟩

theorem run_inv (memo0 : K → Bool) : ∀ (es : List Ev) (s s' : St), Inv memo0 s → run s es = some s' → Inv memo0 s' := by
  intro es
  induction es with
  | nil => intro s s' h hr; simp only [run, Option.some.injEq] at hr; subst hr; exact h
  | cons e es ih =>
    intro s s' h hr
    simp only [run] at hr
    cases hst : step s e with
    | none => simp [hst] at hr
    | some s1 =>
      simp only [hst] at hr
      exact ih s1 s' (step_inv memo0 s s1 e h hst) hr

end Memento.Conc
