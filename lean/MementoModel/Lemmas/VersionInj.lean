import MementoModel.Lemmas.VersionSort

/-! Equal versions ⇒ equal closures (for tracked programs, injective fixed-width hash). -/
namespace Memento.Version

/-- the functions of the closure of `f`: `f` itself and every memento / in-package plain function reached -/
def FnTarget (P : Prog) (f g : Name) : Prop := g = f ∨ (ReachN P f g ∧ expands P g = true)

/-- the program class of C01: `f` is automatically versioned and everything named in the closure is a memento
    function (automatically or explicitly versioned), a plain function of the package, a variable of a
    supported type, or a name the modules do not define (a builtin such as `len`: an `UndefinedSymbol` rule) -/
structure Tracked (P : Prog) (f : Name) : Prop where
  root : ∃ tok refs, lookup P f = some (.memento none tok refs)
  refs : ∀ p r, FnTarget P f p → RefersTo P p r →
    (∃ e tok refs, lookup P r = some (.memento e tok refs)) ∨
    (∃ tok refs, lookup P r = some (.plain true tok refs)) ∨ (∃ v, lookup P r = some (.var (some v))) ∨
    lookup P r = none

/-- rules for undefined names contribute no digest and the digest of a variable does not cover its name (remark R2), so
    the theorem needs: a name that is undefined in one edition is not a *variable* in the other (it may become a function:
    function digests cover their names) -/
def UndefVarStable (P P' : Prog) : Prop :=
  ∀ r, (lookup P r = none → ∀ v, lookup P' r ≠ some (.var (some v))) ∧
       (lookup P' r = none → ∀ v, lookup P r ≠ some (.var (some v)))

theorem UndefVarStable.symm {P P' : Prog} (h : UndefVarStable P P') : UndefVarStable P' P :=
  fun r => ⟨(h r).2, (h r).1⟩

theorem UndefVarStable.refl (P : Prog) : UndefVarStable P P := by
  intro r
  constructor <;> intro h v e <;> rw [h] at e <;> cases e

/-- the user's side of an explicit version: a function that carries the same explicit version string in two
    editions has the same definition in both (whoever edits an explicitly versioned function changes the string) -/
def Disciplined (P P' : Prog) : Prop :=
  ∀ g e tok refs tok' refs', lookup P g = some (.memento (some e) tok refs) →
    lookup P' g = some (.memento (some e) tok' refs') → tok = tok' ∧ refs = refs'

theorem Disciplined.symm {P P' : Prog} (h : Disciplined P P') : Disciplined P' P := by
  intro g e tok refs tok' refs' h1 h2
  obtain ⟨a, b⟩ := h g e tok' refs' tok refs h2 h1
  exact ⟨a.symm, b.symm⟩

theorem Disciplined.refl (P : Prog) : Disciplined P P := by
  intro g e tok refs tok' refs' h1 h2
  rw [h1] at h2; cases h2; exact ⟨rfl, rfl⟩

theorem reachN_last {P : Prog} {f g : Name} (h : ReachN P f g) : ∃ p, FnTarget P f p ∧ RefersTo P p g := by
  cases h with
  | direct href => exact ⟨f, Or.inl rfl, href⟩
  | @step p _ hp he href => exact ⟨p, Or.inr ⟨hp, he⟩, href⟩

theorem fnTarget_step {P : Prog} {f p r : Name} (hp : FnTarget P f p) (href : RefersTo P p r)
    (he : expands P r = true) : FnTarget P f r := by
  refine Or.inr ⟨?_, he⟩
  rcases hp with rfl | ⟨hp, hep⟩
  · exact ReachN.direct href
  · exact ReachN.step hp hep href

theorem fnTarget_cases {P : Prog} {f g : Name} (hT : Tracked P f) (h : FnTarget P f g) :
    (∃ e tok refs, lookup P g = some (.memento e tok refs)) ∨ (∃ tok refs, lookup P g = some (.plain true tok refs)) := by
  rcases h with rfl | ⟨hr, he⟩
  · obtain ⟨tok, refs, h⟩ := hT.root
    exact Or.inl ⟨none, tok, refs, h⟩
  · obtain ⟨p, hp, href⟩ := reachN_last hr
    rcases hT.refs p g hp href with h | h | ⟨v, hv⟩ | hn
    · exact Or.inl h
    · exact Or.inr h
    · simp [expands, hv] at he
    · simp [expands, hn] at he

/-- what a rule's hash is the digest of -/
def nodeSer (P : Prog) (x : Node) : Option Ser :=
  match x.kind, lookup P x.target with
  | .mfn, some (.memento none tok refs) => some (.code true x.target tok refs)
  | .mfn, some (.memento (some e) _ _) => some (.explicit x.target e)
  | .fn, some (.plain _ tok refs) => some (.code false x.target tok refs)
  | .gvar, some (.var (some v)) => some (.value v)
  | _, _ => none

theorem fnTarget_node {P : Prog} {f g : Name} (h : FnTarget P f g) :
    ∃ x ∈ rules P id f, x.target = g ∧ (x.kind = .mfn ∨ x.kind = .fn) := by
  rcases h with rfl | ⟨hr, he⟩
  · exact ⟨rootNode g, (mem_rules_nodeOK ordOK_id).mpr (Or.inl rfl), rfl, Or.inl rfl⟩
  · obtain ⟨x, hx, ht, hk⟩ := reachN_node ordOK_id hr he
    exact ⟨x, (mem_rules_iff ordOK_id).mpr hx, ht, hk⟩

theorem node_fnTarget {P : Prog} {f : Name} {x : Node} (hx : x ∈ rules P id f) (hk : x.kind = .mfn ∨ x.kind = .fn) :
    FnTarget P f x.target := by
  rcases (mem_rules_nodeOK ordOK_id).mp hx with rfl | ⟨p, hp, href, hmk⟩
  · exact Or.inl rfl
  · exact fnTarget_step hp href (mkNode_kind_fn hmk hk)

/-- in a tracked program every collected rule either has a digest, and it is the digest of `nodeSer`, or is the rule of an
    undefined name (no digest) -/
theorem tracked_node {P : Prog} {f : Name} (H : Ser → List Char) (hT : Tracked P f) {x : Node}
    (hx : x ∈ rules P id f) :
    (∃ s, nodeSer P x = some s ∧ ruleHash H P x = some (H s)) ∨
    (x.kind = .undef ∧ ruleHash H P x = none ∧ lookup P x.target = none) := by
  rcases (mem_rules_nodeOK ordOK_id).mp hx with rfl | ⟨p, hp, href, hmk⟩
  · obtain ⟨tok, refs, hl⟩ := hT.root
    exact Or.inl ⟨.code true f tok refs, by simp [nodeSer, rootNode, hl], by simp [ruleHash, rootNode, hl]⟩
  · obtain ⟨k, par, t⟩ := x
    simp only at href hmk
    rcases hT.refs p t hp href with ⟨e, tok, refs, hl⟩ | ⟨tok, refs, hl⟩ | ⟨v, hl⟩ | hl
    · have : mkNode P p t = some ⟨.mfn, some p, t⟩ := by simp [mkNode, hl]
      rw [this] at hmk; cases hmk
      cases e with
      | none => exact Or.inl ⟨.code true t tok refs, by simp [nodeSer, hl], by simp [ruleHash, hl]⟩
      | some e => exact Or.inl ⟨.explicit t e, by simp [nodeSer, hl], by simp [ruleHash, hl]⟩
    · have : mkNode P p t = some ⟨.fn, some p, t⟩ := by simp [mkNode, hl]
      rw [this] at hmk; cases hmk
      exact Or.inl ⟨.code false t tok refs, by simp [nodeSer, hl], by simp [ruleHash, hl]⟩
    · have : mkNode P p t = some ⟨.gvar, some p, t⟩ := by simp [mkNode, hl]
      rw [this] at hmk; cases hmk
      exact Or.inl ⟨.value v, by simp [nodeSer, hl], by simp [ruleHash, hl]⟩
    · have : mkNode P p t = some ⟨.undef, some p, t⟩ := by simp [mkNode, hl]
      rw [this] at hmk; cases hmk
      exact Or.inr ⟨rfl, by simp [ruleHash], hl⟩

/-- a rule with a digest: the digest is that of `nodeSer` -/
theorem tracked_node_some {P : Prog} {f : Name} (H : Ser → List Char) (hT : Tracked P f) {x : Node}
    (hx : x ∈ rules P id f) {h : List Char} (hr : ruleHash H P x = some h) :
    ∃ s, nodeSer P x = some s ∧ h = H s := by
  rcases tracked_node H hT hx with ⟨s, hs, hr'⟩ | ⟨_, hn, _⟩
  · rw [hr'] at hr; cases hr; exact ⟨s, hs, rfl⟩
  · rw [hn] at hr; cases hr

/-- a rule with a `nodeSer` has the digest of it -/
theorem tracked_node_ser {P : Prog} {f : Name} (H : Ser → List Char) (hT : Tracked P f) {x : Node}
    (hx : x ∈ rules P id f) {s : Ser} (hs : nodeSer P x = some s) : ruleHash H P x = some (H s) := by
  rcases tracked_node H hT hx with ⟨s', hs', hr'⟩ | ⟨hk, _, _⟩
  · rw [hs] at hs'; cases hs'; exact hr'
  · unfold nodeSer at hs; rw [hk] at hs; simp at hs

/-- the list of rule digests in key order -/
def hashList (H : Ser → List Char) (P : Prog) (f : Name) : List (List Char) :=
  (sortedRules P id f).filterMap (ruleHash H P)

theorem versionInput_eq (H : Ser → List Char) (P : Prog) (f : Name) :
    versionInput H P id f = (hashList H P f).flatten := rfl

theorem mem_hashList {H : Ser → List Char} {P : Prog} {f : Name} {s : List Char} :
    s ∈ hashList H P f ↔ ∃ x ∈ rules P id f, ruleHash H P x = some s := by
  unfold hashList
  simp only [List.mem_filterMap, mem_sortedRules]

theorem flatten_inj_uniform {k : Nat} (hk : 0 < k) : ∀ (l l' : List (List Char)),
    (∀ s ∈ l, s.length = k) → (∀ s ∈ l', s.length = k) → l.flatten = l'.flatten → l = l' := by
  intro l
  induction l with
  | nil =>
    intro l' _ h' h
    cases l' with
    | nil => rfl
    | cons s t =>
      have := h' s List.mem_cons_self
      have hlen := congrArg List.length h
      simp only [List.flatten_cons, List.flatten_nil, List.length_append, List.length_nil] at hlen
      omega
  | cons a t ih =>
    intro l' h1 h' h
    cases l' with
    | nil =>
      have := h1 a List.mem_cons_self
      have hlen := congrArg List.length h
      simp only [List.flatten_cons, List.flatten_nil, List.length_append, List.length_nil] at hlen
      omega
    | cons b u =>
      simp only [List.flatten_cons] at h
      have hab : a.length = b.length := by
        rw [h1 a List.mem_cons_self, h' b List.mem_cons_self]
      obtain ⟨e1, e2⟩ := List.append_inj h hab
      subst e1
      rw [ih u (fun s hs => h1 s (List.mem_cons_of_mem _ hs)) (fun s hs => h' s (List.mem_cons_of_mem _ hs)) e2]

theorem hashList_width {H : Ser → List Char} (hw : ∀ s, (H s).length = 16) {P : Prog} {f : Name}
    (hT : Tracked P f) : ∀ s ∈ hashList H P f, s.length = 16 := by
  intro s hs
  obtain ⟨x, hx, hr⟩ := mem_hashList.mp hs
  obtain ⟨ser, _, rfl⟩ := tracked_node_some H hT hx hr
  exact hw ser

/-- every digested object of `P`'s closure is a digested object of `P'`'s -/
theorem transfer {H : Ser → List Char} (hinj : Function.Injective H) {P P' : Prog} {f : Name}
    (hT : Tracked P f) (hT' : Tracked P' f) (hh : hashList H P f = hashList H P' f)
    {x : Node} (hx : x ∈ rules P id f) {s : Ser} (hs : nodeSer P x = some s) :
    ∃ x' ∈ rules P' id f, nodeSer P' x' = some s := by
  have hr := tracked_node_ser H hT hx hs
  have : H s ∈ hashList H P' f := hh ▸ mem_hashList.mpr ⟨x, hx, hr⟩
  obtain ⟨x', hx', hr'⟩ := mem_hashList.mp this
  obtain ⟨s', hs', he⟩ := tracked_node_some H hT' hx' hr'
  have : s' = s := (hinj he).symm
  exact ⟨x', hx', this ▸ hs'⟩

theorem nodeSer_code {P : Prog} {x : Node} {salted : Bool} {g : Name} {tok : Tok} {refs : List Name}
    (h : nodeSer P x = some (.code salted g tok refs)) :
    x.target = g ∧ ((salted = true ∧ x.kind = .mfn ∧ lookup P g = some (.memento none tok refs)) ∨
      (salted = false ∧ x.kind = .fn ∧ ∃ b, lookup P g = some (.plain b tok refs))) := by
  unfold nodeSer at h
  split at h
  · rename_i hk hl
    simp only [Option.some.injEq, Ser.code.injEq] at h
    obtain ⟨h1, h2, h3, h4⟩ := h
    subst h2 h3 h4
    exact ⟨rfl, Or.inl ⟨h1.symm, hk, hl⟩⟩
  · simp at h
  · rename_i b _ _ hk hl
    simp only [Option.some.injEq, Ser.code.injEq] at h
    obtain ⟨h1, h2, h3, h4⟩ := h
    subst h2 h3 h4
    exact ⟨rfl, Or.inr ⟨h1.symm, hk, b, hl⟩⟩
  · simp at h
  · simp at h

theorem nodeSer_explicit {P : Prog} {x : Node} {g : Name} {e : List Char}
    (h : nodeSer P x = some (.explicit g e)) :
    x.target = g ∧ x.kind = .mfn ∧ ∃ tok refs, lookup P g = some (.memento (some e) tok refs) := by
  unfold nodeSer at h
  split at h
  · simp at h
  · rename_i e' tok refs hk hl
    simp only [Option.some.injEq, Ser.explicit.injEq] at h
    obtain ⟨h1, h2⟩ := h
    subst h1 h2
    exact ⟨rfl, hk, tok, refs, hl⟩
  · simp at h
  · simp at h
  · simp at h

/-- a rule whose target is a memento function is a memento rule -/
theorem node_kind_of_memento {P : Prog} {f : Name} {x : Node} (hx : x ∈ rules P id f)
    (hk : x.kind = .mfn ∨ x.kind = .fn) {e : Option (List Char)} {tok : Tok} {refs : List Name}
    (hl : lookup P x.target = some (.memento e tok refs)) : x.kind = .mfn := by
  rcases hk with hk | hk
  · exact hk
  · rcases (mem_rules_nodeOK ordOK_id).mp hx with rfl | ⟨p, _, _, hmk⟩
    · simp [rootNode] at hk
    · have := mkNode_fn_of hmk hk
      simp [isPlainPkg, hl] at this

/-- functions of the closure of `P` are functions of the closure of `P'`, with the same definition -/
theorem fn_agree {H : Ser → List Char} (hinj : Function.Injective H) {P P' : Prog} {f : Name}
    (hT : Tracked P f) (hT' : Tracked P' f) (hd : Disciplined P P') (hh : hashList H P f = hashList H P' f)
    {g : Name} (hg : FnTarget P f g) : FnTarget P' f g ∧ lookup P' g = lookup P g := by
  obtain ⟨x, hx, ht, hk⟩ := fnTarget_node hg
  rcases fnTarget_cases hT hg with ⟨e, tok, refs, hl⟩ | ⟨tok, refs, hl⟩
  · have hk' : x.kind = .mfn := node_kind_of_memento hx hk (ht ▸ hl)
    cases e with
    | none =>
      have hs : nodeSer P x = some (.code true g tok refs) := by
        unfold nodeSer; rw [hk', ht, hl]
      obtain ⟨x', hx', hs'⟩ := transfer hinj hT hT' hh hx hs
      obtain ⟨ht', hc⟩ := nodeSer_code hs'
      rcases hc with ⟨_, hk2, hl2⟩ | ⟨h0, _⟩
      · exact ⟨ht' ▸ node_fnTarget hx' (Or.inl hk2), hl2.trans hl.symm⟩
      · cases h0
    | some e =>
      have hs : nodeSer P x = some (.explicit g e) := by
        unfold nodeSer; rw [hk', ht, hl]
      obtain ⟨x', hx', hs'⟩ := transfer hinj hT hT' hh hx hs
      obtain ⟨ht', hk2, tok', refs', hl2⟩ := nodeSer_explicit hs'
      obtain ⟨e1, e2⟩ := hd g e tok refs tok' refs' hl hl2
      subst e1 e2
      exact ⟨ht' ▸ node_fnTarget hx' (Or.inl hk2), hl2.trans hl.symm⟩
  · have hk' : x.kind = .fn := by
      rcases hk with hk | hk
      · rcases (mem_rules_nodeOK ordOK_id).mp hx with rfl | ⟨p, _, _, hmk⟩
        · simp only [rootNode] at ht; subst ht
          obtain ⟨t2, r2, h2⟩ := hT.root
          rw [h2] at hl; cases hl
        · have := mkNode_mfn_of hmk hk
          rw [ht] at this
          simp [isMemento, hl] at this
      · exact hk
    have hs : nodeSer P x = some (.code false g tok refs) := by
      unfold nodeSer; rw [hk', ht, hl]
    obtain ⟨x', hx', hs'⟩ := transfer hinj hT hT' hh hx hs
    obtain ⟨ht', hc⟩ := nodeSer_code hs'
    rcases hc with ⟨h0, _⟩ | ⟨_, hk2, b, hl2⟩
    · cases h0
    · have hft : FnTarget P' f g := ht' ▸ node_fnTarget hx' (Or.inr hk2)
      refine ⟨hft, ?_⟩
      rcases fnTarget_cases hT' hft with ⟨e3, t3, r3, h3⟩ | ⟨t3, r3, h3⟩
      · rw [h3] at hl2; cases hl2
      · rw [h3] at hl2; cases hl2; exact h3.trans hl.symm


/-- both programs are tracked, explicit versions are used with discipline, and the digests in key order are the same -/
structure Agree (H : Ser → List Char) (P P' : Prog) (f : Name) : Prop where
  inj : Function.Injective H
  t : Tracked P f
  t' : Tracked P' f
  disc : Disciplined P P'
  uv : UndefVarStable P P'
  hh : hashList H P f = hashList H P' f

theorem Agree.symm {H : Ser → List Char} {P P' : Prog} {f : Name} (h : Agree H P P' f) : Agree H P' P f :=
  ⟨h.inj, h.t', h.t, h.disc.symm, h.uv.symm, h.hh.symm⟩

theorem Agree.fn {H : Ser → List Char} {P P' : Prog} {f g : Name} (h : Agree H P P' f) (hg : FnTarget P f g) :
    FnTarget P' f g ∧ lookup P' g = lookup P g := fn_agree h.inj h.t h.t' h.disc h.hh hg

theorem mkNode_lookup_congr {P P' : Prog} {r : Name} (h : lookup P' r = lookup P r) (p : Name) :
    mkNode P' p r = mkNode P p r := by
  unfold mkNode; rw [h]

/-- a name referred to from the closure is classified the same way in both programs -/
theorem Agree.mkNode_eq {H : Ser → List Char} {P P' : Prog} {f p r : Name} (h : Agree H P P' f)
    (hp : FnTarget P f p) (href : RefersTo P p r) : mkNode P' p r = mkNode P p r := by
  obtain ⟨hp', hlp⟩ := h.fn hp
  have href' : RefersTo P' p r := by
    obtain ⟨d, hd, hr⟩ := href
    exact ⟨d, hlp.trans hd, hr⟩
  rcases h.t.refs p r hp href with ⟨e, tok, refs, hl⟩ | ⟨tok, refs, hl⟩ | ⟨v, hl⟩ | hl
  · exact mkNode_lookup_congr (h.fn (fnTarget_step hp href (by simp [expands, hl]))).2 p
  · exact mkNode_lookup_congr (h.fn (fnTarget_step hp href (by simp [expands, hl]))).2 p
  · rcases h.t'.refs p r hp' href' with ⟨e', tok, refs, hl'⟩ | ⟨tok, refs, hl'⟩ | ⟨v', hl'⟩ | hl'
    · have := (h.symm.fn (fnTarget_step hp' href' (by simp [expands, hl']))).2
      rw [hl, hl'] at this; cases this
    · have := (h.symm.fn (fnTarget_step hp' href' (by simp [expands, hl']))).2
      rw [hl, hl'] at this; cases this
    · simp [mkNode, hl, hl']
    · exact absurd hl ((h.uv r).2 hl' v)
  · rcases h.t'.refs p r hp' href' with ⟨e', tok, refs, hl'⟩ | ⟨tok, refs, hl'⟩ | ⟨v', hl'⟩ | hl'
    · have := (h.symm.fn (fnTarget_step hp' href' (by simp [expands, hl']))).2
      rw [hl, hl'] at this; cases this
    · have := (h.symm.fn (fnTarget_step hp' href' (by simp [expands, hl']))).2
      rw [hl, hl'] at this; cases this
    · exact absurd hl' ((h.uv r).1 hl v')
    · simp [mkNode, hl, hl']

theorem Agree.rules_sub {H : Ser → List Char} {P P' : Prog} {f : Name} (h : Agree H P P' f) {x : Node}
    (hx : x ∈ rules P id f) : x ∈ rules P' id f := by
  rw [mem_rules_nodeOK ordOK_id] at hx ⊢
  rcases hx with h0 | ⟨p, hp, href, hmk⟩
  · exact Or.inl h0
  · have hp0 : FnTarget P f p := hp
    obtain ⟨hp', hlp⟩ := h.fn hp0
    refine Or.inr ⟨p, hp', ?_, (h.mkNode_eq hp0 href).trans hmk⟩
    obtain ⟨d, hd, hr⟩ := href
    exact ⟨d, hlp.trans hd, hr⟩

theorem Agree.sortedRules_eq {H : Ser → List Char} {P P' : Prog} {f : Name} (h : Agree H P P' f) :
    sortedRules P id f = sortedRules P' id f :=
  sortedRules_congr (fun _ => ⟨h.rules_sub, h.symm.rules_sub⟩)

theorem filterMap_pointwise {α β : Type} {f g : α → Option β} : ∀ {l : List α},
    (∀ x ∈ l, (f x).isSome = (g x).isSome) → l.filterMap f = l.filterMap g →
    ∀ x ∈ l, f x = g x := by
  intro l
  induction l with
  | nil => intro _ _ x hx; cases hx
  | cons a t ih =>
    intro hfg h x hx
    have ha := hfg a List.mem_cons_self
    cases hfa : f a with
    | none =>
      have hga : g a = none := by
        cases hg : g a with
        | none => rfl
        | some b => rw [hfa, hg] at ha; cases ha
      simp only [List.filterMap_cons, hfa, hga] at h
      rcases List.mem_cons.mp hx with rfl | hx
      · rw [hfa, hga]
      · exact ih (fun y hy => hfg y (List.mem_cons_of_mem _ hy)) h x hx
    | some fa =>
      cases hga : g a with
      | none => rw [hfa, hga] at ha; cases ha
      | some ga =>
        simp only [List.filterMap_cons, hfa, hga, List.cons.injEq] at h
        rcases List.mem_cons.mp hx with rfl | hx
        · rw [hfa, hga, h.1]
        · exact ih (fun y hy => hfg y (List.mem_cons_of_mem _ hy)) h.2 x hx

/-- a rule has a digest unless it is the rule of an undefined name — in either program -/
theorem tracked_isSome {P : Prog} {f : Name} (H : Ser → List Char) (hT : Tracked P f) {x : Node}
    (hx : x ∈ rules P id f) : (ruleHash H P x).isSome = !(x.kind == .undef) := by
  rcases tracked_node H hT hx with ⟨s, hs, hr⟩ | ⟨hk, hn, _⟩
  · rw [hr]
    have : x.kind ≠ .undef := by
      intro hk; unfold nodeSer at hs; rw [hk] at hs; simp at hs
    simp [this]
  · rw [hn, hk]; rfl

/-- rule by rule, the two programs give the same digest -/
theorem Agree.ruleHash_eq {H : Ser → List Char} {P P' : Prog} {f : Name} (h : Agree H P P' f) {x : Node}
    (hx : x ∈ rules P id f) : ruleHash H P x = ruleHash H P' x := by
  have hh := h.hh
  unfold hashList at hh
  rw [← h.sortedRules_eq] at hh
  refine filterMap_pointwise ?_ hh x (mem_sortedRules.mpr hx)
  intro y hy
  rw [tracked_isSome H h.t (mem_sortedRules.mp hy), tracked_isSome H h.t' (h.rules_sub (mem_sortedRules.mp hy))]

/-- **closures agree**: every name of the closure is bound to the same definition in both programs -/
theorem Agree.lookup_eq {H : Ser → List Char} {P P' : Prog} {f p r : Name} (h : Agree H P P' f)
    (hp : FnTarget P f p) (href : RefersTo P p r) : lookup P' r = lookup P r := by
  rcases h.t.refs p r hp href with ⟨e0, tok, refs, hl⟩ | ⟨tok, refs, hl⟩ | ⟨v, hl⟩ | hl
  rotate_right
  · -- undefined in `P`: the rule is an `undef` rule in both programs, which only an undefined name gives
    have hmk := h.mkNode_eq hp href
    have : mkNode P p r = some ⟨.undef, some p, r⟩ := by simp [mkNode, hl]
    rw [this] at hmk
    rw [hl]
    unfold mkNode at hmk
    split at hmk
    · assumption
    · cases hmk
    · split at hmk <;> cases hmk
    · cases hmk
    · cases hmk
  · exact (h.fn (fnTarget_step hp href (by simp [expands, hl]))).2
  · exact (h.fn (fnTarget_step hp href (by simp [expands, hl]))).2
  · have hx : (⟨.gvar, some p, r⟩ : Node) ∈ rules P id f :=
      (mem_rules_nodeOK ordOK_id).mpr (Or.inr ⟨p, hp, href, by simp [mkNode, hl]⟩)
    have e := h.ruleHash_eq hx
    have hmk := h.mkNode_eq hp href
    have hl' : ∃ v', lookup P' r = some (.var (some v')) := by
      have : mkNode P p r = some ⟨.gvar, some p, r⟩ := by simp [mkNode, hl]
      rw [this] at hmk
      unfold mkNode at hmk
      split at hmk
      · cases hmk
      · cases hmk
      · split at hmk <;> cases hmk
      · rename_i v' hv; exact ⟨v', hv⟩
      · cases hmk
    obtain ⟨v', hv'⟩ := hl'
    simp only [ruleHash, hl, hv', Option.some.injEq] at e
    have := h.inj e
    cases this
    rw [hl, hv']

/-! ### meaning -/

/-- the value a definition computes, as a term over its code token, its argument and what it refers to:
    every feature of the definition and of everything beneath it is observable in the result -/
inductive Res
  | node (name : Name) (tok : Tok) (arg : Nat) (kids : List Res)
  | val (v : Tok)
  | undefined
  | untracked
  | fuel

def eval (P : Prog) : Nat → Name → Nat → Res
  | 0, _, _ => .fuel
  | k+1, n, a =>
    match lookup P n with
    | none => .undefined
    | some (.var (some v)) => .val v
    | some (.var none) => .untracked
    | some (.memento _ tok refs) => .node n tok a (refs.map (fun r => eval P k r a))
    | some (.plain _ tok refs) => .node n tok a (refs.map (fun r => eval P k r a))

/-- names of the closure: its functions and everything they name -/
def InClos (P : Prog) (f n : Name) : Prop := FnTarget P f n ∨ ∃ p, FnTarget P f p ∧ RefersTo P p n

theorem Agree.lookup_clos {H : Ser → List Char} {P P' : Prog} {f n : Name} (h : Agree H P P' f)
    (hn : InClos P f n) : lookup P' n = lookup P n := by
  rcases hn with hn | ⟨p, hp, href⟩
  · exact (h.fn hn).2
  · exact h.lookup_eq hp href

theorem inClos_fn {P : Prog} {f n : Name} (hT : Tracked P f) (hn : InClos P f n) (he : ∃ e tok refs,
    lookup P n = some (.memento e tok refs) ∨ ∃ b, lookup P n = some (.plain b tok refs)) : FnTarget P f n := by
  rcases hn with hn | ⟨p, hp, href⟩
  · exact hn
  · obtain ⟨e, tok, refs, hl⟩ := he
    rcases hT.refs p n hp href with ⟨e2, t2, r2, h2⟩ | ⟨t2, r2, h2⟩ | ⟨v, h2⟩ | h2
    · exact fnTarget_step hp href (by simp [expands, h2])
    · exact fnTarget_step hp href (by simp [expands, h2])
    · rcases hl with hl | ⟨b, hl⟩ <;> (rw [h2] at hl; cases hl)
    · rcases hl with hl | ⟨b, hl⟩ <;> (rw [h2] at hl; cases hl)

theorem Agree.eval_eq {H : Ser → List Char} {P P' : Prog} {f : Name} (h : Agree H P P' f) (a : Nat) :
    ∀ k n, InClos P f n → eval P k n a = eval P' k n a := by
  intro k
  induction k with
  | zero => intro n _; rfl
  | succ k ih =>
    intro n hn
    have hl := h.lookup_clos hn
    unfold eval
    rw [hl]
    cases hd : lookup P n with
    | none => rfl
    | some d =>
      cases d with
      | var v => cases v <;> rfl
      | memento e tok refs =>
        have hf : FnTarget P f n := inClos_fn h.t hn ⟨e, tok, refs, Or.inl hd⟩
        simp only
        congr 1
        apply List.map_congr_left
        intro r hr
        exact ih r (Or.inr ⟨n, hf, ⟨_, hd, hr⟩⟩)
      | plain b tok refs =>
        have hf : FnTarget P f n := inClos_fn h.t hn ⟨none, tok, refs, Or.inr ⟨b, hd⟩⟩
        simp only
        congr 1
        apply List.map_congr_left
        intro r hr
        exact ih r (Or.inr ⟨n, hf, ⟨_, hd, hr⟩⟩)

end Memento.Version
