import MementoModel.Model.Store

/-! Association-list lemmas (`alookup` / `aset` / `adel`), `filterMap` over keyed lists, `sortDedup`. -/
set_option linter.unusedSimpArgs false
set_option linter.unusedSectionVars false
namespace Memento.Store

section alist
variable {α β : Type} [DecidableEq α]

/-- "key is not `a`", with the `BEq` instance that `aset` / `adel` use -/
def nekey (a : α) : α → Bool := fun x => !(x == a)

omit [DecidableEq α] in
theorem nekey_iff [DecidableEq α] (a x : α) : nekey a x = true ↔ x ≠ a := by simp [nekey]

omit [DecidableEq α] in
theorem nekey_congr {α' : Type} [DecidableEq α] [DecidableEq α'] {a x : α} {b y : α'} (h : x = a ↔ y = b) :
    nekey a x = nekey b y := by
  by_cases e : x = a
  · have e' := h.mp e
    have h1 : (x == a) = true := by simpa using e
    have h2 : (y == b) = true := by simpa using e'
    simp only [nekey, h1, h2]
  · have e' : ¬ y = b := fun hh => e (h.mpr hh)
    have h1 : (x == a) = false := by simpa using e
    have h2 : (y == b) = false := by simpa using e'
    simp only [nekey, h1, h2]

theorem adel_eq (l : List (α × β)) (a : α) : adel l a = l.filter (fun p => nekey a p.1) := rfl

theorem aset_eq (l : List (α × β)) (a : α) (b : β) : aset l a b = (a, b) :: l.filter (fun p => nekey a p.1) := rfl

theorem alookup_nil (a : α) : alookup ([] : List (α × β)) a = none := rfl

theorem alookup_cons (p : α × β) (l : List (α × β)) (a : α) :
    alookup (p :: l) a = if p.1 = a then some p.2 else alookup l a := by
  unfold alookup
  by_cases h : p.1 = a
  · simp [h]
  · simp [List.find?_cons, h]

theorem alookup_mem {l : List (α × β)} {a : α} {b : β} (h : alookup l a = some b) : (a, b) ∈ l := by
  induction l with
  | nil => simp [alookup] at h
  | cons p l ih =>
    rw [alookup_cons] at h
    by_cases hk : p.1 = a
    · simp only [hk, if_true, Option.some.injEq] at h
      subst h; subst hk; exact List.mem_cons_self
    · simp only [hk, if_false] at h
      exact List.mem_cons_of_mem _ (ih h)

theorem alookup_isSome_of_mem {l : List (α × β)} {p : α × β} (h : p ∈ l) : ∃ b, alookup l p.1 = some b := by
  induction l with
  | nil => cases h
  | cons q l ih =>
    rw [alookup_cons]
    by_cases hk : q.1 = p.1
    · exact ⟨q.2, by simp [hk]⟩
    · rcases List.mem_cons.mp h with h | h
      · subst h; exact absurd rfl hk
      · simp only [hk, if_false]; exact ih h

theorem alookup_none_of_not_mem {l : List (α × β)} {a : α} (h : ∀ p ∈ l, p.1 ≠ a) : alookup l a = none := by
  cases hl : alookup l a with
  | none => rfl
  | some b => exact absurd rfl (h _ (alookup_mem hl))

/-- lookup in a list filtered by a predicate on keys -/
theorem alookup_filter (l : List (α × β)) (f : α → Bool) (a : α) :
    alookup (l.filter (fun p => f p.1)) a = if f a then alookup l a else none := by
  induction l with
  | nil => simp [alookup_nil]
  | cons p l ih =>
    by_cases hf : f p.1 = true
    · rw [List.filter_cons, if_pos hf, alookup_cons, alookup_cons, ih]
      by_cases e : p.1 = a
      · subst e; simp [hf]
      · simp [e]
    · rw [List.filter_cons, if_neg hf, alookup_cons, ih]
      by_cases e : p.1 = a
      · subst e; simp [hf]
      · simp [e]

theorem alookup_aset (l : List (α × β)) (a : α) (b : β) (a' : α) :
    alookup (aset l a b) a' = if a' = a then some b else alookup l a' := by
  unfold aset
  rw [alookup_cons, alookup_filter l (fun x => !(x == a)) a']
  by_cases e : a' = a
  · subst e; simp
  · have e' : ¬ a = a' := fun x => e x.symm
    simp [e, e']

theorem alookup_adel (l : List (α × β)) (a a' : α) :
    alookup (adel l a) a' = if a' = a then none else alookup l a' := by
  unfold adel
  rw [alookup_filter l (fun x => !(x == a)) a']
  by_cases e : a' = a
  · subst e; simp
  · simp [e]

theorem alookup_map_val {γ : Type} (l : List (α × β)) (g : α → β → γ) (a : α) :
    alookup (l.map (fun p => (p.1, g p.1 p.2))) a = (alookup l a).map (g a) := by
  induction l with
  | nil => rfl
  | cons p l ih =>
    simp only [List.map_cons, alookup_cons, ih]
    by_cases e : p.1 = a
    · subst e; simp
    · simp [e]

theorem keys_aset_nodup {l : List (α × β)} (a : α) (b : β) (h : (l.map (·.1)).Nodup) :
    ((aset l a b).map (·.1)).Nodup := by
  unfold aset
  simp only [List.map_cons, List.nodup_cons]
  refine ⟨?_, ?_⟩
  · intro hx
    obtain ⟨p, hp, hpe⟩ := List.mem_map.mp hx
    have := (List.mem_filter.mp hp).2
    simp at this; exact this hpe
  · exact h.sublist (List.Sublist.map _ List.filter_sublist)

theorem keys_filter_nodup {l : List (α × β)} (f : α × β → Bool) (h : (l.map (·.1)).Nodup) :
    ((l.filter f).map (·.1)).Nodup :=
  h.sublist (List.Sublist.map _ List.filter_sublist)

theorem mem_aset {l : List (α × β)} {a : α} {b : β} {p : α × β} (h : p ∈ aset l a b) :
    p = (a, b) ∨ (p ∈ l ∧ p.1 ≠ a) := by
  unfold aset at h
  rcases List.mem_cons.mp h with h | h
  · exact Or.inl h
  · have := List.mem_filter.mp h
    exact Or.inr ⟨this.1, by simpa using this.2⟩

end alist

/-! ### `filterMap` of a function of the key -/
section fm
variable {α β γ δ : Type}

theorem filterMap_congr' {α' β' : Type} {f g : α' → Option β'} {l : List α'} (h : ∀ x ∈ l, f x = g x) :
    l.filterMap f = l.filterMap g := by
  induction l with
  | nil => rfl
  | cons a l ih =>
    rw [List.filterMap_cons, List.filterMap_cons, h a List.mem_cons_self,
      ih (fun x hx => h x (List.mem_cons_of_mem _ hx))]

/-- filtering out keys on which `F` vanishes does not change the `filterMap` -/
theorem filterMap_filter_of_none (l : List (α × β)) (F : α → Option γ) (S : α → Bool)
    (h : ∀ p ∈ l, S p.1 = false → F p.1 = none) :
    (l.filter (fun p => S p.1)).filterMap (fun p => F p.1) = l.filterMap (fun p => F p.1) := by
  induction l with
  | nil => rfl
  | cons p l ih =>
    have ih' := ih (fun q hq => h q (List.mem_cons_of_mem _ hq))
    by_cases hs : S p.1 = true
    · rw [List.filter_cons, if_pos hs, List.filterMap_cons, List.filterMap_cons, ih']
    · have := h p List.mem_cons_self (by simpa using hs)
      rw [List.filter_cons, if_neg hs, List.filterMap_cons, this, ih']

/-- everything `F` keeps is filtered out -/
theorem filterMap_filter_eq_nil (l : List (α × β)) (F : α → Option γ) (S : α → Bool)
    (h : ∀ p ∈ l, S p.1 = true → F p.1 = none) :
    (l.filter (fun p => S p.1)).filterMap (fun p => F p.1) = [] := by
  induction l with
  | nil => rfl
  | cons p l ih =>
    have ih' := ih (fun q hq => h q (List.mem_cons_of_mem _ hq))
    by_cases hs : S p.1 = true
    · have := h p List.mem_cons_self hs
      rw [List.filter_cons, if_pos hs, List.filterMap_cons, this, ih']
    · rw [List.filter_cons, if_neg hs, ih']

/-- a key filter on the image corresponds to a key filter on the source -/
theorem filter_filterMap_key (l : List (α × β)) (F : α → Option (γ × δ)) (P : γ → Bool) (S : α → Bool)
    (h : ∀ p ∈ l, ∀ q, F p.1 = some q → P q.1 = S p.1) :
    (l.filterMap (fun p => F p.1)).filter (fun q => P q.1)
      = (l.filter (fun p => S p.1)).filterMap (fun p => F p.1) := by
  induction l with
  | nil => rfl
  | cons p l ih =>
    have ih' := ih (fun q hq => h q (List.mem_cons_of_mem _ hq))
    cases hF : F p.1 with
    | none =>
      by_cases hs : S p.1 = true
      · rw [List.filter_cons, if_pos hs, List.filterMap_cons, List.filterMap_cons, hF, ih']
      · rw [List.filter_cons, if_neg hs, List.filterMap_cons, hF, ih']
    | some q =>
      have hq := h p List.mem_cons_self q hF
      by_cases hs : S p.1 = true
      · rw [List.filter_cons (xs := l), if_pos hs, List.filterMap_cons, List.filterMap_cons, hF]
        simp only
        rw [List.filter_cons, if_pos (hq.trans hs), ih']
      · rw [List.filter_cons (xs := l), if_neg hs, List.filterMap_cons, hF]
        simp only
        rw [List.filter_cons, if_neg (by rw [hq]; exact hs), ih']

theorem filterMap_filter_ite (l : List (α × β)) (F : α → Option γ) (S : α → Bool) :
    (l.filter (fun p => S p.1)).filterMap (fun p => F p.1)
      = l.filterMap (fun p => (fun k => if S k = true then F k else none) p.1) := by
  induction l with
  | nil => rfl
  | cons p l ih =>
    by_cases hs : S p.1 = true
    · rw [List.filter_cons, if_pos hs, List.filterMap_cons, List.filterMap_cons, ih]; simp [hs]
    · rw [List.filter_cons, if_neg hs, List.filterMap_cons, ih]; simp [hs]

/-- `filterMap` over `aset`: the new head, then the rest without the key -/
theorem filterMap_aset [DecidableEq α] (l : List (α × β)) (F : α → Option γ) (a : α) (b : β) :
    (aset l a b).filterMap (fun p => F p.1) =
      (match F a with | some q => [q] | none => []) ++
        (l.filter (fun p => nekey a p.1)).filterMap (fun p => F p.1) := by
  rw [aset_eq, List.filterMap_cons]
  cases F a <;> rfl

variable [DecidableEq α] [DecidableEq γ]

/-- looking up a key of the image = applying `F` to the corresponding source key -/
theorem alookup_filterMap_key (l : List (α × β)) (F : α → Option (γ × δ)) (a : α) (c : γ)
    (hF : ∀ a' q, F a' = some q → (q.1 = c ↔ a' = a))
    (hnone : (∀ p ∈ l, p.1 ≠ a) → F a = none) :
    alookup (l.filterMap (fun p => F p.1)) c = (F a).map (·.2) := by
  induction l with
  | nil => simp [alookup_nil, hnone (by simp)]
  | cons p l ih =>
    by_cases e : p.1 = a
    · cases hFa : F a with
      | none =>
        have := ih (fun _ => hFa)
        simp only [List.filterMap_cons, e, hFa, Option.map_none] at this ⊢
        exact this
      | some q =>
        have hq := (hF a q hFa).mpr rfl
        simp [List.filterMap_cons, e, hFa, alookup_cons, hq]
    · have ih' := ih (fun hh => hnone (fun q hq => by
        rcases List.mem_cons.mp hq with rfl | hq
        · exact e
        · exact hh q hq))
      cases hFp : F p.1 with
      | none => simp only [List.filterMap_cons, hFp]; exact ih'
      | some q =>
        have hq : ¬ q.1 = c := fun hc => e ((hF _ q hFp).mp hc)
        simp only [List.filterMap_cons, hFp, alookup_cons, hq, if_false]; exact ih'

end fm

/-! ### `sortDedup` depends only on membership -/

theorem mem_insertNat (x y : Nat) (l : List Nat) : y ∈ insertNat x l ↔ y = x ∨ y ∈ l := by
  induction l with
  | nil => simp [insertNat]
  | cons z l ih =>
    unfold insertNat
    split
    · simp
    · split
      · rename_i h; subst h; simp
      · simp only [List.mem_cons, ih]
        constructor
        · rintro (a | a | a)
          · exact Or.inr (Or.inl a)
          · exact Or.inl a
          · exact Or.inr (Or.inr a)
        · rintro (a | a | a)
          · exact Or.inr (Or.inl a)
          · exact Or.inl a
          · exact Or.inr (Or.inr a)

theorem sorted_insertNat (x : Nat) (l : List Nat) (h : l.Pairwise (· < ·)) :
    (insertNat x l).Pairwise (· < ·) := by
  induction l with
  | nil => simp [insertNat]
  | cons z l ih =>
    unfold insertNat
    have hz := (List.pairwise_cons.mp h)
    split
    · rename_i hxz
      refine List.pairwise_cons.mpr ⟨?_, h⟩
      intro a ha
      rcases List.mem_cons.mp ha with rfl | ha
      · exact hxz
      · have := hz.1 a ha; omega
    · split
      · exact h
      · rename_i h1 h2
        refine List.pairwise_cons.mpr ⟨?_, ih hz.2⟩
        intro a ha
        rcases (mem_insertNat x a l).mp ha with rfl | ha
        · omega
        · exact hz.1 a ha

theorem mem_sortDedup (y : Nat) (l : List Nat) : y ∈ sortDedup l ↔ y ∈ l := by
  induction l with
  | nil => simp [sortDedup]
  | cons x l ih =>
    have : sortDedup (x :: l) = insertNat x (sortDedup l) := rfl
    rw [this, mem_insertNat, ih]; simp

theorem sorted_sortDedup (l : List Nat) : (sortDedup l).Pairwise (· < ·) := by
  induction l with
  | nil => simp [sortDedup]
  | cons x l ih =>
    have : sortDedup (x :: l) = insertNat x (sortDedup l) := rfl
    rw [this]; exact sorted_insertNat x _ ih

theorem sorted_ext : ∀ (l1 l2 : List Nat), l1.Pairwise (· < ·) → l2.Pairwise (· < ·) →
    (∀ x, x ∈ l1 ↔ x ∈ l2) → l1 = l2 := by
  intro l1
  induction l1 with
  | nil =>
    intro l2 _ _ h
    cases l2 with
    | nil => rfl
    | cons b l2 => exact absurd ((h b).mpr List.mem_cons_self) (by simp)
  | cons a l1 ih =>
    intro l2 h1 h2 h
    cases l2 with
    | nil => exact absurd ((h a).mp List.mem_cons_self) (by simp)
    | cons b l2 =>
      have p1 := List.pairwise_cons.mp h1
      have p2 := List.pairwise_cons.mp h2
      have hab : a = b := by
        have ha := (h a).mp List.mem_cons_self
        have hb := (h b).mpr List.mem_cons_self
        rcases List.mem_cons.mp ha with e | ha
        · exact e
        · rcases List.mem_cons.mp hb with e | hb
          · exact e.symm
          · have := p1.1 b hb; have := p2.1 a ha; omega
      subst hab
      congr 1
      apply ih l2 p1.2 p2.2
      intro x
      constructor
      · intro hx
        rcases List.mem_cons.mp ((h x).mp (List.mem_cons_of_mem _ hx)) with e | hx'
        · have := p1.1 x hx; omega
        · exact hx'
      · intro hx
        rcases List.mem_cons.mp ((h x).mpr (List.mem_cons_of_mem _ hx)) with e | hx'
        · have := p2.1 x hx; omega
        · exact hx'

theorem sortDedup_congr {l1 l2 : List Nat} (h : ∀ x, x ∈ l1 ↔ x ∈ l2) : sortDedup l1 = sortDedup l2 :=
  sorted_ext _ _ (sorted_sortDedup l1) (sorted_sortDedup l2)
    (fun x => by rw [mem_sortDedup, mem_sortDedup]; exact h x)

end Memento.Store
