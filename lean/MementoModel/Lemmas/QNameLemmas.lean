import MementoModel.Model.QName

/-! Helper lemmas for `Props/C12.lean` (character-level facts about the name grammar). Core only. -/
namespace Memento.QName

/-! ### `takeWhile` / `dropWhile` across a stop character -/

theorem takeWhile_stop {p : Char → Bool} : ∀ (a : Str) (c : Char) (r : Str),
    (∀ x ∈ a, p x = true) → p c = false →
    (a ++ c :: r).takeWhile p = a ∧ (a ++ c :: r).dropWhile p = c :: r
  | [], c, r, _, hc => by simp [hc]
  | x :: a, c, r, ha, hc => by
    have hx : p x = true := ha x (by simp)
    have ih := takeWhile_stop a c r (fun y hy => ha y (by simp [hy])) hc
    simp [hx, ih.1, ih.2]

theorem takeWhile_all {p : Char → Bool} : ∀ (a : Str),
    (∀ x ∈ a, p x = true) → a.takeWhile p = a ∧ a.dropWhile p = []
  | [], _ => by simp
  | x :: a, ha => by
    have hx : p x = true := ha x (by simp)
    have ih := takeWhile_all a (fun y hy => ha y (by simp [hy]))
    simp [hx, ih.1, ih.2]

theorem isModCh_of {m : Str} (h1 : ':' ∉ m) (h2 : '#' ∉ m) : ∀ x ∈ m, isModCh x = true := by
  intro x hx
  have a : x ≠ ':' := fun e => h1 (e ▸ hx)
  have b : x ≠ '#' := fun e => h2 (e ▸ hx)
  simp [isModCh, a, b]

theorem notHash_of {f : Str} (h : '#' ∉ f) : ∀ x ∈ f, notHash x = true := by
  intro x hx
  have a : x ≠ '#' := fun e => h (e ▸ hx)
  simp [notHash, a]

theorem notNl_of {v : Str} (h : '\n' ∉ v) : ∀ x ∈ v, notNl x = true := by
  intro x hx
  have a : x ≠ '\n' := fun e => h (e ▸ hx)
  simp [notNl, a]

/-- admissible version: no newline (`.` of the regular expression stops there) -/
def VerOk : Option Str → Prop
  | none => True
  | some v => '\n' ∉ v

theorem parseVer_suffix (v : Option Str) (hv : VerOk v) : parseVer (verSuffix v) = v := by
  cases v with
  | none => simp [verSuffix, parseVer]
  | some v =>
    have := (takeWhile_all (p := notNl) v (notNl_of hv)).1
    simp [verSuffix, parseVer, this]

theorem function_span (f : Str) (v : Option Str) (hf : '#' ∉ f) :
    (f ++ verSuffix v).takeWhile notHash = f ∧ (f ++ verSuffix v).dropWhile notHash = verSuffix v := by
  cases v with
  | none =>
    simpa [verSuffix] using takeWhile_all (p := notHash) f (notHash_of hf)
  | some v =>
    simpa [verSuffix] using takeWhile_stop (p := notHash) f '#' v (notHash_of hf) (by simp [notHash])

/-- the tail of the pattern recovers module, function and version -/
theorem parseRest_build (m f : Str) (v : Option Str) (hm1 : ':' ∉ m) (hm2 : '#' ∉ m) (hf : '#' ∉ f)
    (hv : VerOk v) : parseRest (m ++ ':' :: (f ++ verSuffix v)) = some (m, f, v) := by
  have h := takeWhile_stop (p := isModCh) m ':' (f ++ verSuffix v) (isModCh_of hm1 hm2) (by simp [isModCh])
  have g := function_span f v hf
  simp [parseRest, h.1, h.2, g.1, g.2, parseVer_suffix v hv]

/-! ### `"::"` -/

theorem hasDC_cons_cons (a b : Char) (r : Str) :
    hasDC (a :: b :: r) = (decide (a = ':' ∧ b = ':') || hasDC (b :: r)) := by
  by_cases h : a = ':' ∧ b = ':' <;> simp [hasDC, stripDC, h]

theorem hasDC_single (a : Char) : hasDC [a] = false := by simp [hasDC, stripDC]

theorem stripDC_none_of (a b : Char) (r : Str) (h : ¬ (a = ':' ∧ b = ':')) : stripDC (a :: b :: r) = none := by
  simp [stripDC, h]

/-- a string without `:` followed by `:` contains `::` only if the rest starts with `:` or contains it -/
theorem hasDC_module_prefix : ∀ (m : Str) (f : Str), ':' ∉ m → hasDC (m ++ ':' :: f) = hasDC (':' :: f)
  | [], _, _ => rfl
  | [x], f, h => by
    have hx : x ≠ ':' := fun e => h (by simp [e])
    show hasDC (x :: ':' :: f) = _
    rw [hasDC_cons_cons]; simp [hx]
  | x :: y :: m, f, h => by
    have hx : x ≠ ':' := fun e => h (by simp [e])
    have ih := hasDC_module_prefix (y :: m) f (fun hm => h (by simp at hm ⊢; simp [hm]))
    show hasDC (x :: y :: (m ++ ':' :: f)) = _
    rw [hasDC_cons_cons]; simp only [hx, false_and, decide_false, Bool.false_or]
    exact ih

theorem parseCl_skip (c : Char) (r : Str) (h : stripDC (c :: r) = none) :
    parseCl (c :: r) = if c = '#' then none else (parseCl r).map (fun x => (c :: x.1, x.2)) := by
  rw [parseCl]; simp [h]

theorem parseCl_here (r : Str) (p : Str × Str × Option Str) (h : parseRest r = some p) :
    parseCl (':' :: ':' :: r) = some ([], p) := by
  rw [parseCl]; simp [stripDC, h]

/-- the cluster search finds nothing in a string without `::` (optionally followed by `#…`) -/
theorem parseCl_none : ∀ (s t : Str), hasDC s = false → (t = [] ∨ ∃ v, t = '#' :: v) → parseCl (s ++ t) = none
  | [], t, _, ht => by
    rcases ht with rfl | ⟨v, rfl⟩
    · rfl
    · show parseCl ('#' :: v) = none
      rw [parseCl_skip _ _ (by cases v <;> simp [stripDC])]; simp
  | [a], t, _, ht => by
    have ih : parseCl t = none := parseCl_none [] t (by simp [hasDC]) ht
    show parseCl (a :: t) = none
    have hs : stripDC (a :: t) = none := by
      rcases ht with rfl | ⟨v, rfl⟩
      · rfl
      · exact stripDC_none_of _ _ _ (by simp)
    rw [parseCl_skip _ _ hs, ih]; simp
  | a :: b :: s, t, hs, ht => by
    rw [hasDC_cons_cons] at hs
    simp only [Bool.or_eq_false_iff, decide_eq_false_iff_not] at hs
    have ih : parseCl (b :: (s ++ t)) = none := parseCl_none (b :: s) t hs.2 ht
    show parseCl (a :: b :: (s ++ t)) = none
    rw [parseCl_skip _ _ (stripDC_none_of _ _ _ hs.1), ih]; simp

/-- the cluster search returns exactly the prefix before the first `::`, provided the prefix has no
    `#`, no `::`, and does not end in `:` (stated as: `c ++ ":"` has no `::`), and the rest parses -/
theorem parseCl_cluster : ∀ (c rest : Str) (p : Str × Str × Option Str),
    '#' ∉ c → hasDC (c ++ [':']) = false → parseRest rest = some p →
    parseCl (c ++ ':' :: ':' :: rest) = some (c, p)
  | [], rest, p, _, _, hp => parseCl_here rest p hp
  | [a], rest, p, hc, hd, hp => by
    have ha : a ≠ '#' := fun e => hc (by simp [e])
    have hd' : ¬ (a = ':' ∧ ':' = ':') := by
      have := hd; simp only [List.cons_append, List.nil_append] at this
      rw [hasDC_cons_cons] at this
      simp only [Bool.or_eq_false_iff, decide_eq_false_iff_not] at this
      intro h; exact this.1 ⟨h.1, trivial⟩
    show parseCl (a :: ':' :: ':' :: rest) = _
    rw [parseCl_skip _ _ (stripDC_none_of _ _ _ hd'), parseCl_here rest p hp]; simp [ha]
  | a :: b :: c, rest, p, hc, hd, hp => by
    have ha : a ≠ '#' := fun e => hc (by simp [e])
    have hd0 : hasDC (a :: b :: (c ++ [':'])) = false := hd
    rw [hasDC_cons_cons] at hd0
    simp only [Bool.or_eq_false_iff, decide_eq_false_iff_not] at hd0
    have ih : parseCl (b :: (c ++ ':' :: ':' :: rest)) = some (b :: c, p) :=
      parseCl_cluster (b :: c) rest p (fun h => hc (by simp at h ⊢; simp [h])) hd0.2 hp
    show parseCl (a :: b :: (c ++ ':' :: ':' :: rest)) = _
    rw [parseCl_skip _ _ (stripDC_none_of _ _ _ hd0.1), ih]; simp [ha]

/-! ### Admissible name parts -/

/-- admissible cluster name: no `#`, no `::`, does not end in `:` -/
structure AdmCluster (c : Str) : Prop where
  noHash  : '#' ∉ c
  noDC    : hasDC c = false
  noTrail : c.getLast? ≠ some ':'

/-- admissible module name: no `:`, no `#` -/
structure AdmModule (m : Str) : Prop where
  noColon : ':' ∉ m
  noHash  : '#' ∉ m

/-- admissible function name: no `#`, no `::`, does not start with `:` -/
structure AdmFunction (f : Str) : Prop where
  noHash : '#' ∉ f
  noDC   : hasDC f = false
  noLead : f.head? ≠ some ':'

/-- admissible parts of a qualified name; the version is arbitrary (may contain `:`, `::`, `#`)
    except for a newline -/
structure Adm (c : Option Str) (m f : Str) (v : Option Str) : Prop where
  cluster  : ∀ x, c = some x → AdmCluster x
  module   : AdmModule m
  function : AdmFunction f
  version  : VerOk v

theorem AdmCluster.colon {c : Str} (h : AdmCluster c) : hasDC (c ++ [':']) = false := by
  have h1 := h.noDC; have h2 := h.noTrail; clear h
  induction c with
  | nil => simp [hasDC, stripDC]
  | cons a c ih =>
    cases c with
    | nil =>
      have ha : a ≠ ':' := by intro e; apply h2; simp [e]
      show hasDC (a :: ':' :: []) = false
      rw [hasDC_cons_cons]; simp [ha, hasDC_single]
    | cons b c =>
      rw [hasDC_cons_cons] at h1
      simp only [Bool.or_eq_false_iff, decide_eq_false_iff_not] at h1
      rw [List.getLast?_cons_cons] at h2
      have := ih h1.2 h2
      show hasDC (a :: b :: (c ++ [':'])) = false
      rw [hasDC_cons_cons]
      simp only [Bool.or_eq_false_iff, decide_eq_false_iff_not]
      exact ⟨h1.1, this⟩

theorem AdmFunction.colon {f : Str} (h : AdmFunction f) : hasDC (':' :: f) = false := by
  cases f with
  | nil => exact hasDC_single _
  | cons b r =>
    have hb : b ≠ ':' := by intro e; apply h.noLead; simp [e]
    rw [hasDC_cons_cons]; simp [hb, h.noDC]

theorem Adm.base {c m f v} (h : Adm c m f v) : hasDC (m ++ ':' :: f) = false := by
  rw [hasDC_module_prefix m f h.module.noColon]; exact h.function.colon

theorem hasDC_prefix : ∀ (c r : Str), hasDC (c ++ ':' :: ':' :: r) = true
  | [], r => by simp [hasDC, stripDC]
  | a :: c, r => by
    have := hasDC_prefix c r
    show hasDC (a :: (c ++ ':' :: ':' :: r)) = true
    simp [hasDC, this]

/-! ### The round trip -/

theorem build_none (m f : Str) (v : Option Str) : build none m f v = m ++ ':' :: (f ++ verSuffix v) := by
  simp [build, qualify]

theorem build_some (c m f : Str) (v : Option Str) (h : hasDC (m ++ ':' :: f) = false) :
    build (some c) m f v = c ++ ':' :: ':' :: (m ++ ':' :: (f ++ verSuffix v)) := by
  simp [build, qualify, h]

theorem parse_build_core (c : Option Str) (m f : Str) (v : Option Str) (h : Adm c m f v) :
    parse (build c m f v) = some ⟨c, m, f, v⟩ := by
  have hr := parseRest_build m f v h.module.noColon h.module.noHash h.function.noHash h.version
  cases c with
  | none =>
    rw [build_none]
    have hn : parseCl (m ++ ':' :: (f ++ verSuffix v)) = none := by
      have := parseCl_none (m ++ ':' :: f) (verSuffix v) h.base
        (by cases v <;> simp [verSuffix])
      simpa [List.append_assoc] using this
    simp [parse, hn, hr]
  | some c =>
    rw [build_some c m f v h.base]
    have hc := h.cluster c rfl
    have := parseCl_cluster c _ _ hc.noHash hc.colon hr
    simp [parse, this]

theorem realName_eq_build (c : Option Str) (m q ver : Str) (h : hasDC (m ++ ':' :: q) = false) :
    realName c m q ver = build c m q (some ver) := by
  cases c with
  | none => simp [realName, build, qnwv, qualify]
  | some c =>
    have := hasDC_prefix c (m ++ ':' :: q)
    simp [realName, build, qnwv, qualify, h, this]

/-! ### File names -/

theorem unquote_cons_ne (c : Char) (r : Str) (h : c ≠ '%') : unquote (c :: r) = c :: unquote r := by
  match r with
  | [] => simp [unquote]
  | [a] => simp [unquote]
  | a :: b :: r => simp [unquote, h]

theorem unquote_colon (r : Str) : unquote ('%' :: '3' :: 'A' :: r) = ':' :: unquote r := by
  have h3 : hexv '3' = some 3 := by decide
  have hA : hexv 'A' = some 10 := by decide
  rw [unquote]; simp [h3, hA]

theorem unquote_escape_core : ∀ (s : Str), '%' ∉ s → unquote (escape s) = s
  | [], _ => by simp [escape, unquote]
  | c :: r, h => by
    have hc : c ≠ '%' := fun e => h (by simp [e])
    have ih := unquote_escape_core r (fun hr => h (by simp [hr]))
    by_cases hcol : c = ':'
    · subst hcol; simp [escape, unquote_colon, ih]
    · simp [escape, hcol, unquote_cons_ne _ _ hc, ih]

theorem escape_no_colon : ∀ (s : Str), ':' ∉ escape s
  | [] => by simp [escape]
  | c :: r => by
    have ih := escape_no_colon r
    by_cases hcol : c = ':'
    · subst hcol; simp [escape, ih]
    · simp [escape, hcol, ih]; exact fun e => hcol e.symm

theorem stripLink_append (k : Str) : stripLink (k ++ dotLink) = k := by
  simp [stripLink, dotLink]

/-! ### Resolution -/

theorem findFunction_ok_iff (cb : CodeBase) (m f : Str) (v : Option Str) (x : Found) :
    findFunction cb m f v = .ok x ↔
      m ≠ [] ∧ m.head? ≠ some '.' ∧ hasLocals f = false ∧
      ∃ attrs, lookupModule cb m = some attrs ∧
        lookupAttr attrs f = some (.mfn x.cluster x.module x.qualname x.version x.params) ∧
        (v = none ∨ v = some x.version) := by
  obtain ⟨xc, xm, xq, xv, xp⟩ := x
  cases m with
  | nil => simp [findFunction]
  | cons c0 m =>
    by_cases hdot : c0 = '.'
    · simp [findFunction, hdot]
    · cases hm : lookupModule cb (c0 :: m) with
      | none => simp [findFunction, hdot, hm]
      | some attrs =>
        cases hl : hasLocals f with
        | true => simp [findFunction, hdot, hm, hl]
        | false =>
          cases ha : lookupAttr attrs f with
          | none => simp [findFunction, hdot, hm, hl, ha]
          | some o =>
            cases o with
            | value => simp [findFunction, hdot, hm, hl, ha]
            | plain => simp [findFunction, hdot, hm, hl, ha]
            | mfn c m' q ver ps =>
              cases v with
              | none =>
                simp [findFunction, hdot, hm, hl, ha]
              | some v' =>
                by_cases hv : ver = v'
                · subst hv
                  simp [findFunction, hdot, hm, hl, ha]
                  intro _ _ _ h _; exact h
                · simp [findFunction, hdot, hm, hl, ha, hv]
                  rintro rfl rfl rfl rfl _; exact fun e => hv e.symm

theorem findFunction_relative_iff (cb : CodeBase) (m f : Str) (v : Option Str) :
    findFunction cb m f v = .error .relativeImport ↔ m.head? = some '.' := by
  cases m with
  | nil => simp [findFunction]
  | cons c0 m =>
    by_cases hdot : c0 = '.'
    · simp [findFunction, hdot]
    · simp only [findFunction, hdot, if_false, List.head?_cons, Option.some.injEq]
      split
      · simp
      · split
        · simp
        · split <;> try simp
          split <;> try simp
          split <;> simp

/-- the shape of `resolve` on a name built from admissible parts -/
theorem resolve_build_found (cb : CodeBase) (c : Option Str) (m f : Str) (v : Option Str) (h : Adm c m f v)
    (pn : Option (List Str)) (fd : Found) (hf : findFunction cb m f v = .ok fd) :
    resolve cb (build c m f v) false pn =
      .ok ⟨false, qualify (qnwv fd.cluster fd.module fd.qualname) c (some (v.getD fd.version)),
           pickCluster c fd.cluster, fd.params⟩ := by
  simp [resolve, parse_build_core c m f v h, hf]

theorem resolve_build_relative (cb : CodeBase) (c : Option Str) (m f : Str) (v : Option Str) (h : Adm c m f v)
    (pn : Option (List Str)) (hf : findFunction cb m f v = .error .relativeImport) :
    resolve cb (build c m f v) false pn = .error .typeError := by
  simp [resolve, parse_build_core c m f v h, hf]

theorem resolve_build_notfound (cb : CodeBase) (c : Option Str) (m f : Str) (v : Option Str) (h : Adm c m f v)
    (pn : Option (List Str)) (e : FindErr) (hf : findFunction cb m f v = .error e) (he : e ≠ .relativeImport) :
    resolve cb (build c m f v) false pn = .ok ⟨true, build c m f v, c, pn.getD []⟩ := by
  cases e <;> simp_all [resolve, parse_build_core c m f v h]

theorem resolve_build_ext (cb : CodeBase) (c : Option Str) (m f : Str) (v : Option Str) (h : Adm c m f v)
    (pn : Option (List Str)) :
    resolve cb (build c m f v) true pn = .ok ⟨true, build c m f v, c, pn.getD []⟩ := by
  simp [resolve, parse_build_core c m f v h]

theorem mapAll_ok (g : StoredCall → Except Err Ref) : ∀ (qs : List StoredCall),
    (∀ q ∈ qs, ∃ r, g q = .ok r) →
    ∃ rs, mapAll g qs = .ok rs ∧ rs.length = qs.length ∧
      ∀ i (hi : i < qs.length) (hj : i < rs.length), g qs[i] = .ok rs[i]
  | [], _ => ⟨[], rfl, rfl, fun i hi => absurd hi (by simp)⟩
  | q :: qs, h => by
    obtain ⟨r, hr⟩ := h q (by simp)
    obtain ⟨rs, h1, h2, h3⟩ := mapAll_ok g qs (fun q' hq' => h q' (by simp [hq']))
    refine ⟨r :: rs, by simp [mapAll, hr, h1], by simp [h2], ?_⟩
    intro i hi hj
    cases i with
    | zero => simpa using hr
    | succ i => simpa using h3 i (by simpa using hi) (by simpa using hj)

theorem mapAll_mem (g : StoredCall → Except Err Ref) : ∀ (qs : List StoredCall) (rs : List Ref) (q : StoredCall) (r : Ref),
    mapAll g qs = .ok rs → q ∈ qs → g q = .ok r → r ∈ rs
  | [], _, _, _, _, hq, _ => by simp at hq
  | q0 :: qs, rs, q, r, h, hq, hr => by
    simp only [mapAll] at h
    cases h0 : g q0 with
    | error e => simp [h0] at h
    | ok x =>
      cases h1 : mapAll g qs with
      | error e => simp [h0, h1] at h
      | ok xs =>
        simp only [h0, h1, Except.ok.injEq] at h
        subst h
        rcases List.mem_cons.mp hq with rfl | hq'
        · rw [hr] at h0; cases h0; simp
        · exact List.mem_cons_of_mem _ (mapAll_mem g qs xs q r h1 hq' hr)

/-! ### Every parse result can be rebuilt into a parsable name (the external stub never fails) -/

theorem mem_takeWhile_imp {p : Char → Bool} : ∀ {l : Str} {x : Char}, x ∈ l.takeWhile p → p x = true
  | [], _, h => by simp at h
  | a :: l, x, h => by
    by_cases ha : p a = true
    · simp only [List.takeWhile, ha, List.mem_cons] at h
      rcases h with rfl | h
      · exact ha
      · exact mem_takeWhile_imp h
    · simp [List.takeWhile, ha] at h

theorem parseVer_ok (s : Str) : VerOk (parseVer s) := by
  cases s with
  | nil => simp [parseVer, VerOk]
  | cons c v =>
    by_cases h : c = '#'
    · simp only [parseVer, h, if_true, VerOk]
      intro hm
      have := mem_takeWhile_imp hm
      simp [notNl] at this
    · simp [parseVer, h, VerOk]

theorem parseRest_parts (s : Str) (m f : Str) (v : Option Str) (h : parseRest s = some (m, f, v)) :
    ':' ∉ m ∧ '#' ∉ m ∧ '#' ∉ f ∧ VerOk v := by
  unfold parseRest at h
  split at h
  · simp at h
  · rename_i c r hd
    by_cases hc : c = ':'
    · simp only [hc, if_true, Option.some.injEq, Prod.mk.injEq] at h
      obtain ⟨rfl, rfl, rfl⟩ := h
      refine ⟨?_, ?_, ?_, parseVer_ok _⟩
      · intro hm; have := mem_takeWhile_imp hm; simp [isModCh] at this
      · intro hm; have := mem_takeWhile_imp hm; simp [isModCh] at this
      · intro hm; have := mem_takeWhile_imp hm; simp [notHash] at this
    · simp [hc] at h

theorem parseCl_parts : ∀ (s : Str) (c m f : Str) (v : Option Str), parseCl s = some (c, m, f, v) →
    '#' ∉ c ∧ ':' ∉ m ∧ '#' ∉ m ∧ '#' ∉ f ∧ VerOk v
  | [], _, _, _, _, h => by simp [parseCl] at h
  | a :: r, c, m, f, v, h => by
    rw [parseCl] at h
    split at h
    · rename_i p hp
      simp only [Option.some.injEq, Prod.mk.injEq] at h
      obtain ⟨rfl, rfl⟩ := h
      cases hs : stripDC (a :: r) with
      | none => simp [hs] at hp
      | some rest =>
        simp only [hs, Option.bind_some] at hp
        exact ⟨by simp, parseRest_parts rest m f v hp⟩
    · by_cases ha : a = '#'
      · simp [ha] at h
      · simp only [ha, if_false, Option.map_eq_some_iff] at h
        obtain ⟨⟨c', m', f', v'⟩, hx, he⟩ := h
        simp only [Prod.mk.injEq] at he
        obtain ⟨rfl, rfl, rfl, rfl⟩ := he
        have ih := parseCl_parts r c' m' f' v' hx
        refine ⟨?_, ih.2⟩
        intro hm
        rcases List.mem_cons.mp hm with e | e
        · exact ha e.symm
        · exact ih.1 e

/-- the cluster search succeeds on `c ++ "::" ++ rest` whenever `c` has no `#` and `rest` parses
    (possibly with a different split than `c`) -/
theorem parseCl_isSome : ∀ (c rest : Str), '#' ∉ c → (parseRest rest).isSome = true →
    (parseCl (c ++ ':' :: ':' :: rest)).isSome = true
  | [], rest, _, hp => by
    obtain ⟨p, hp'⟩ := Option.isSome_iff_exists.mp hp
    show (parseCl (':' :: ':' :: rest)).isSome = true
    rw [parseCl_here rest p hp']; rfl
  | a :: c, rest, hc, hp => by
    have ha : a ≠ '#' := fun e => hc (by simp [e])
    have ih := parseCl_isSome c rest (fun h => hc (by simp [h])) hp
    show (parseCl (a :: (c ++ ':' :: ':' :: rest))).isSome = true
    rw [parseCl]
    split
    · rfl
    · simp only [ha, if_false, Option.isSome_map]; exact ih

theorem parse_isSome_of_parseRest (s : Str) (h : (parseRest s).isSome = true) : (parse s).isSome = true := by
  unfold parse
  split
  · rfl
  · obtain ⟨⟨m, f, v⟩, hp⟩ := Option.isSome_iff_exists.mp h
    simp [hp]

theorem parse_isSome_of_parseCl (s : Str) (h : (parseCl s).isSome = true) : (parse s).isSome = true := by
  obtain ⟨⟨c, m, f, v⟩, hp⟩ := Option.isSome_iff_exists.mp h
  simp [parse, hp]

theorem parse_parts (s : Str) (p : Parts) (h : parse s = some p) :
    (∀ c, p.cluster = some c → '#' ∉ c) ∧ ':' ∉ p.module ∧ '#' ∉ p.module ∧ '#' ∉ p.function ∧ VerOk p.version := by
  unfold parse at h
  split at h
  · rename_i c m f v hc
    simp only [Option.some.injEq] at h; subst h
    have := parseCl_parts s c m f v hc
    exact ⟨fun c' e => (by cases e; exact this.1), this.2⟩
  · split at h
    · rename_i m f v hr
      simp only [Option.some.injEq] at h; subst h
      exact ⟨fun c' e => (by cases e), parseRest_parts s m f v hr⟩
    · simp at h

theorem rebuild_parses (s : Str) (p : Parts) (h : parse s = some p) :
    (parse (build p.cluster p.module p.function p.version)).isSome = true := by
  obtain ⟨h1, h2, h3, h4, h5⟩ := parse_parts s p h
  have hr := parseRest_build p.module p.function p.version h2 h3 h4 h5
  have hbase : (parse (p.module ++ ':' :: (p.function ++ verSuffix p.version))).isSome = true :=
    parse_isSome_of_parseRest _ (by simp [hr])
  cases hc : p.cluster with
  | none => rw [build_none]; exact hbase
  | some c =>
    cases hd : hasDC (p.module ++ ':' :: p.function) with
    | true =>
      have : build (some c) p.module p.function p.version = p.module ++ ':' :: (p.function ++ verSuffix p.version) := by
        simp [build, qualify, hd]
      rw [this]; exact hbase
    | false =>
      rw [build_some c _ _ _ hd]
      exact parse_isSome_of_parseCl _ (parseCl_isSome c _ (h1 c hc) (by simp [hr]))

/-! ### Stored names the property theorems range over -/

/-- stored names: built from admissible parts, with a module name that is not a relative import (`.x`) -/
def AdmName (q : Str) : Prop :=
  ∃ c m f v, Adm c m f v ∧ m.head? ≠ some '.' ∧ q = build c m f v

/-- a stored call as `encode_fn_reference_with_args` writes it: admissible name, the parameter names
    of the function at storing time, and no more positional arguments than those names -/
def AdmCall (s : StoredCall) : Prop :=
  AdmName s.qn ∧ ∃ ps, s.params = some ps ∧ s.nargs ≤ ps.length

/-- *the version pins the signature*: whatever memento function of the code base the stored name
    resolves to (same module, function and version) still takes at least as many parameters as
    positional arguments were stored. Automatic versions guarantee this (the version is a hash of
    the code, signature included); for explicit version strings it is the user's contract. -/
def SigOk (cb : CodeBase) (s : StoredCall) : Prop :=
  ∀ p fd, parse s.qn = some p → findFunction cb p.module p.function p.version = .ok fd → s.nargs ≤ fd.params.length

/-- a stored memento all of whose references are admissible -/
def AdmStored (cb : CodeBase) (s : Stored) : Prop :=
  (AdmCall s.own ∧ SigOk cb s.own) ∧ (∀ q ∈ s.invocations, AdmCall q ∧ SigOk cb q) ∧ ∀ q ∈ s.deps, AdmName q.qn

/-- all entries of a metadata store are admissible -/
def AdmStore (cb : CodeBase) (st : MetaStore) : Prop := ∀ e ∈ st, AdmStored cb e.2.2

theorem find_mem : ∀ (st : MetaStore) (qn hh : Str) (s : Stored), st.find qn hh = some s → (qn, hh, s) ∈ st
  | [], _, _, _, h => by simp [MetaStore.find] at h
  | (q, a, s0) :: r, qn, hh, s, h => by
    by_cases hc : q = qn ∧ a = hh
    · simp only [MetaStore.find, hc, and_self, if_true, Option.some.injEq] at h
      subst h; obtain ⟨rfl, rfl⟩ := hc; simp
    · simp only [MetaStore.find, hc, if_false] at h
      exact List.mem_cons_of_mem _ (find_mem r qn hh s h)

end Memento.QName
