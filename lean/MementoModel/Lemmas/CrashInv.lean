import MementoModel.Model.Crash
import MementoModel.Lemmas.StoreInv

/-! The crash-closed invariant of the object store and the soundness notion of C08
    (definitions only, like `StoreInv.lean`; lemmas in `CrashLemmas.lean`; restated field by field
    in `Props/C08.lean`, theorem `crashWF_iff`). -/
namespace Memento.Store
open Memento

/-- the invariant that survives crashes (weaker than `DSWF`: orphan and torn version files may exist,
    and a content link may dangle) -/
structure CrashWF (d : DS) : Prop where
  objFresh   : ∀ p ∈ d.objs, p.1.2 < d.next
  linkFresh  : ∀ p ∈ d.links, p.2 < d.next
  /-- a memento link always names a complete memento document whose content key (if any) names a
      complete blob in the data area -/
  mementoOk  : ∀ fn arg v, alookup d.links (.memento fn arg) = some v →
      ∃ m ck, alookup d.objs (.memento fn arg, v) = some (.mrec m ck) ∧
        (ck = none ∨ ∃ k ver b, ck = some (k, ver) ∧ k.isMetaArea = false ∧ alookup d.objs (k, ver) = some (.blob b))
  /-- the version file a content link names, if it exists, is a complete blob holding the bytes of
      its key (`exists_nonversioned` is what dedup consults: link *and* file) -/
  contentOk  : ∀ h v c, alookup d.links (.content h) = some v → alookup d.objs (.content h, v) = some c →
      c = .blob h

/-- what the functions compute: the blob a correct memento of the call names (`none` = null result) -/
abbrev Sem := Fn → Arg → Option Bytes

/-- every result the store would serve is the right one -/
def Sound (F : Sem) (d : DS) : Prop :=
  ∀ fn arg v, callOutcome d fn arg = .served v → v = F fn arg

/-- the request memoizes the right result -/
def Request.correct (F : Sem) (r : Request) : Prop := r.blobs.getLast? = F r.fn r.arg

end Memento.Store
