import MementoModel.Lemmas.StoreCache

/-! Per-operation refinement lemmas for the storage backends (used by `Props/C05.lean`). -/
set_option linter.unusedSimpArgs false
set_option linter.unusedVariables false
namespace Memento.Store
open Memento

/-! ## Memory backend -/
namespace MemBackend

/-- the entry the abstraction builds for a memento-table row -/
def absEntry (r : List ((Fn × Arg) × Option Bytes)) (p : (Fn × Arg) × Nat) : (Fn × Arg) × Entry :=
  (p.1, ⟨p.2, (alookup r p.1).getD none⟩)

theorem abs_eq (s : MemBackend) : abs s = ⟨s.mementos.map (absEntry s.result), s.metadata⟩ := rfl

theorem alookup_abs_entries (m : List ((Fn × Arg) × Nat)) (r) (k : Fn × Arg) :
    alookup (m.map (absEntry r)) k = (alookup m k).map (fun x => ⟨x, (alookup r k).getD none⟩) :=
  alookup_map_val m (fun k x => (⟨x, (alookup r k).getD none⟩ : Entry)) k

theorem map_absEntry_congr {m : List ((Fn × Arg) × Nat)} {r r' : List ((Fn × Arg) × Option Bytes)}
    (h : ∀ p ∈ m, alookup r' p.1 = alookup r p.1) : m.map (absEntry r') = m.map (absEntry r) := by
  apply List.map_congr_left
  intro p hp
  simp only [absEntry, h p hp]

theorem filter_map_absEntry (m : List ((Fn × Arg) × Nat)) (r) (f : Fn × Arg → Bool) :
    (m.map (absEntry r)).filter (fun p => f p.1) = (m.filter (fun p => f p.1)).map (absEntry r) := by
  rw [List.filter_map]; rfl

/-- filtering both tables by key commutes with the abstraction -/
theorem map_absEntry_filter (m : List ((Fn × Arg) × Nat)) (r : List ((Fn × Arg) × Option Bytes))
    (f : Fn × Arg → Bool) :
    (m.filter (fun p => f p.1)).map (absEntry (r.filter (fun p => f p.1)))
      = (m.map (absEntry r)).filter (fun p => f p.1) := by
  rw [filter_map_absEntry]
  apply map_absEntry_congr
  intro p hp
  have := (List.mem_filter.mp hp).2
  rw [alookup_filter r f, if_pos this]

end MemBackend

/-! ## Filesystem backend -/

/-- one step refines the dictionary: same answer, abstraction commutes, invariant preserved -/
def Refines (s : FsBackend) (op : Op) : Prop :=
  (FsBackend.step s op).2 = (Spec.step (FsBackend.abs s) op).2 ∧
  FsBackend.abs (FsBackend.step s op).1 = (Spec.step (FsBackend.abs s) op).1 ∧
  WF (FsBackend.step s op).1

open FsBackend

theorem abs_lookup_mem (d : DS) (fn : Fn) (arg : Arg) :
    (alookup (absDS d).entries (fn, arg)).map (·.mem) = (readMemento d fn arg).map (·.1) := by
  rw [alookup_abs_entries]
  unfold storeEntry
  cases readMemento d fn arg with
  | none => rfl
  | some p => obtain ⟨m, ck⟩ := p; rfl

theorem abs_lookup_val (d : DS) (fn : Fn) (arg : Arg) :
    (alookup (absDS d).entries (fn, arg)).map (·.val) =
      (readMemento d fn arg).map (fun x => (loadResult d x.2).getD none) := by
  rw [alookup_abs_entries]
  unfold storeEntry
  cases readMemento d fn arg with
  | none => rfl
  | some p => obtain ⟨m, ck⟩ := p; rfl

theorem abs_lookup_isSome (d : DS) (fn : Fn) (arg : Arg) :
    (alookup (absDS d).entries (fn, arg)).isSome = (readMemento d fn arg).isSome := by
  rw [alookup_abs_entries]
  unfold storeEntry
  cases readMemento d fn arg with
  | none => rfl
  | some p => obtain ⟨m, ck⟩ := p; rfl

theorem step_memoize (s : FsBackend) (hw : s.readOnly = false) (fn arg ov mem val size wr) :
    step s (.memoize fn arg ov mem val size wr) =
      ({ cachePut s fn arg mem val size wr true with
          ds := ((codecStore s.ds ov val).1.output (.memento fn arg) (.mrec mem (codecStore s.ds ov val).2)).1,
          heap := aset s.heap mem ⟨fn, arg, (codecStore s.ds ov val).2⟩ }, .unit) := by
  obtain ⟨f1, f2, f3⟩ := cachePut_fields s fn arg mem val size wr true 0
  simp only [step, hw, Bool.false_eq_true, if_false, f1, f2]

theorem fs_memoize {s : FsBackend} (h : WF s) (fn arg ov mem val size wr)
    (hadm : FsBackend.admissible s (.memoize fn arg ov mem val size wr)) :
    Refines s (.memoize fn arg ov mem val size wr) := by
  obtain ⟨hheap, hfresh, hval⟩ := hadm
  obtain ⟨f1, f2, f3⟩ := cachePut_fields s fn arg mem val size wr true 0
  rcases hc : codecStore s.ds ov val with ⟨d1, ck⟩
  obtain ⟨hwf, hread, hstore, habs⟩ := memoize_ds h.ds fn arg ov mem val hval hc
  unfold Refines
  rw [step_memoize s h.writable, hc]
  refine ⟨rfl, habs, ?_⟩
  generalize hd2 : (d1.output (.memento fn arg) (.mrec mem ck)).1 = d2 at hwf hread hstore
  simp only
  have hne : ∀ {m'} {mi : MInfo}, alookup s.heap m' = some mi → m' ≠ mem := by
    intro m' mi hm e; rw [e, hheap] at hm; cases hm
  refine ⟨hwf, f3.trans h.writable, ?_, ?_, ?_⟩
  · intro m' mi hm' fn' arg' ck' hr'
    simp only [alookup_aset] at hm'
    simp only at hr'
    rw [hread] at hr'
    by_cases e : (fn', arg') = (fn, arg)
    · rw [if_pos e] at hr'
      cases hr'; cases e
      simp only [if_true, Option.some.injEq] at hm'
      subst hm'
      exact ⟨rfl, rfl, rfl⟩
    · rw [if_neg e] at hr'
      rw [if_neg (hfresh _ _ _ _ hr')] at hm'
      exact h.heapOk m' mi hm' fn' arg' ck' hr'
  · intro fn1 arg1 fn2 arg2 m ck1 ck2 hr1 hr2
    simp only at hr1 hr2
    rw [hread] at hr1 hr2
    by_cases e1 : (fn1, arg1) = (fn, arg)
    · by_cases e2 : (fn2, arg2) = (fn, arg)
      · cases e1; cases e2; exact ⟨rfl, rfl⟩
      · rw [if_pos e1] at hr1; rw [if_neg e2] at hr2
        cases hr1
        exact absurd rfl (hfresh _ _ _ _ hr2)
    · by_cases e2 : (fn2, arg2) = (fn, arg)
      · rw [if_neg e1] at hr1; rw [if_pos e2] at hr2
        cases hr2
        exact absurd rfl (hfresh _ _ _ _ hr1)
      · rw [if_neg e1] at hr1; rw [if_neg e2] at hr2
        exact h.memUnique _ _ _ _ _ _ _ hr1 hr2
  · intro c' hc'
    cases hcache : s.cache with
    | none => simp only [cachePut, hcache] at hc'; cases hc'
    | some c =>
      simp only [cachePut, hcache, Option.some.injEq] at hc'
      subst hc'
      have hco := h.cacheOk c hcache
      have hkne : ∀ k' : Cache.Key, k' ≠ ckey fn arg → ¬ (k'.fn, k'.arg) = (fn, arg) := by
        intro k' hk e
        apply hk
        cases k'; simp only [ckey]; cases e; rfl
      apply coherent_put
      · exact hco.inv
      · intro k' e hke hk
        refine (hco.entryOk k' e hke).transfer ?_ ?_
        · show storeEntry d2 k'.fn k'.arg = _
          rw [hstore, if_neg (hkne k' hk)]
        · intro mi hmi
          show alookup (aset s.heap mem _) e.mem = _
          rw [alookup_aset, if_neg (hne hmi)]; exact hmi
      · intro k' v' hkv hk
        refine (hco.refOk k' v' hkv).transfer ?_
        show storeEntry d2 k'.fn k'.arg = _
        rw [hstore, if_neg (hkne k' (hk rfl))]
      · refine ⟨ck, val, ?_, ?_, fun _ => objBytes_objId val 0 hval⟩
        · show storeEntry d2 fn arg = _
          rw [hstore, if_pos rfl]
        · show alookup (aset s.heap mem _) mem = _
          rw [alookup_aset, if_pos rfl]; rfl
      · intro _
        refine ⟨mem, ck, ?_⟩
        show storeEntry d2 fn arg = _
        rw [hstore, if_pos rfl, objBytes_objId val 0 hval]

theorem fs_getm {s : FsBackend} (h : WF s) (ks : List (Fn × Arg)) : Refines s (.getm ks) := by
  obtain ⟨a, b, c⟩ := getMementos_spec h ks
  unfold Refines
  simp only [step, Spec.step]
  rcases hg : getMementos s ks with ⟨s', ms⟩
  rw [hg] at a b c
  simp only at a b c ⊢
  refine ⟨?_, by rw [abs_eq, abs_eq, b], a⟩
  rw [c]
  congr 1
  apply List.map_congr_left
  intro k _
  rw [abs_eq, ← abs_lookup_mem]

theorem fs_lookread {s : FsBackend} (h : WF s) (fn : Fn) (arg : Arg) : Refines s (.lookread fn arg) := by
  obtain ⟨g1, g2, g3, g4⟩ := getMemento_spec h fn arg
  unfold Refines
  simp only [step, Spec.step]
  rcases hg : getMemento s fn arg with ⟨s1, om⟩
  rw [hg] at g1 g2 g3 g4
  simp only at g1 g2 g3 g4
  cases om with
  | none =>
    simp only
    refine ⟨?_, by rw [abs_eq, abs_eq, g2], g1⟩
    rw [abs_eq, abs_lookup_val]
    cases hr : readMemento s.ds fn arg with
    | none => rfl
    | some p => rw [hr] at g3; cases g3
  | some m =>
    obtain ⟨ck, hr, hheap⟩ := g4 m rfl
    simp only
    generalize sizeOf s1 _ = sz
    generalize wrOf s1 _ = w
    obtain ⟨r1, r2, r3, r4⟩ := readResult_spec g1 sz w hheap (g2 ▸ hr)
    rcases hrr : readResult s1 m sz w with ⟨s2, ov⟩
    rw [hrr] at r1 r2 r3
    simp only at r1 r2 r3
    rw [g2] at r3 r4
    cases ov with
    | none => rw [← r3] at r4; cases r4
    | some v =>
      simp only
      refine ⟨?_, by rw [abs_eq, abs_eq, r2, g2], r1⟩
      rw [abs_eq, abs_lookup_val, hr]
      simp only [Option.map_some, ← r3, Option.getD_some]

theorem fs_ismem {s : FsBackend} (h : WF s) (fn : Fn) (arg : Arg) : Refines s (.ismem fn arg) := by
  obtain ⟨a, b, c⟩ := isMemoized_spec h fn arg
  unfold Refines
  simp only [step, Spec.step]
  rcases hg : isMemoized s fn arg with ⟨s', r⟩
  rw [hg] at a b c
  simp only at a b c ⊢
  exact ⟨by rw [c, abs_eq, abs_lookup_isSome], by rw [abs_eq, abs_eq, b], a⟩

theorem Spec.mk_congr {a a' : List ((Fn × Arg) × Entry)} {b b' : List ((Fn × Arg × MKey) × Bytes)}
    (h1 : a = a') (h2 : b = b') : Spec.mk a b = Spec.mk a' b' := by rw [h1, h2]

/-- the common shape of the three forgets -/
theorem step_forget_wf {s : FsBackend} (h : WF s) (sel : K → Bool) (f : Cache.State → Cache.State)
    (h1 : ∀ fn arg mk wd, sel (.memento fn arg) = true → sel (.mdat fn arg mk wd) = true)
    (h2 : (∀ k, sel k = true → k.isMetaArea = true) ∨ (∀ k, sel k = true))
    (hf : ∀ c, Cache.Inv c → Cache.Inv (Cache.prune (f c)) ∧
      (∀ p ∈ (f c).cache, p ∈ c.cache ∧ sel (.memento p.1.fn p.1.arg) = false) ∧
      (∀ p ∈ (f c).refs, p ∈ c.refs ∧ sel (.memento p.1.fn p.1.arg) = false)) :
    WF { mapCache s f with ds := (mapCache s f).ds.deleteWhere sel } ∧
    abs { mapCache s f with ds := (mapCache s f).ds.deleteWhere sel } =
      ⟨(abs s).entries.filter (fun q => (fun c : Fn × Arg => !sel (.memento c.1 c.2)) q.1),
       (abs s).mdata.filter (fun q => (fun c : Fn × Arg × MKey => !sel (.mdat c.1 c.2.1 c.2.2 false)) q.1)⟩ :=
  ⟨forget_wf h sel f h1 h2 hf, abs_deleteWhere h.ds sel h2⟩

theorem fs_fcall {s : FsBackend} (h : WF s) (fn : Fn) (arg : Arg) : Refines s (.fcall fn arg) := by
  obtain ⟨a, b⟩ := step_forget_wf h (fun k => k.call? == some (fn, arg))
    (fun c => Cache.forgetCall c (ckey fn arg))
    (by intro fn' arg' mk wd hs; simpa [K.call?] using hs)
    (Or.inl (by intro k hk; cases k <;> first | rfl | simp [K.call?] at hk))
    (by
      intro c hc
      refine ⟨Cache.prune_stepRaw_inv (.fcall (ckey fn arg)) hc, ?_, ?_⟩
      · intro p hp
        obtain ⟨x, y⟩ := Cache.mem_forgetCall.1 p hp
        refine ⟨x, ?_⟩
        simp only [K.call?, beq_eq_false_iff_ne, ne_eq, Option.some.injEq]
        intro e; apply y
        cases hp1 : p.1; rw [hp1] at e; simp only at e; cases e; rfl
      · intro p hp
        obtain ⟨x, y⟩ := Cache.mem_forgetCall.2 p hp
        refine ⟨x, ?_⟩
        simp only [K.call?, beq_eq_false_iff_ne, ne_eq, Option.some.injEq]
        intro e; apply y
        cases hp1 : p.1; rw [hp1] at e; simp only at e; cases e; rfl)
  unfold Refines
  simp only [step, h.writable, Bool.false_eq_true, if_false, Spec.step]
  refine ⟨trivial, ?_, a⟩
  rw [b]
  apply Spec.mk_congr
  · rw [adel_eq]
    apply List.filter_congr
    intro q _
    obtain ⟨⟨f, a⟩, en⟩ := q
    by_cases e : (f, a) = (fn, arg)
    · cases e; simp [K.call?, nekey]
    · have e' : ¬ (f = fn ∧ a = arg) := by
        intro ⟨x, y⟩; apply e; rw [x, y]
      have e2 : ((f, a) == (fn, arg)) = false := by simpa using e
      simp [K.call?, nekey, e, e', e2]
  · apply List.filter_congr
    intro q _
    obtain ⟨⟨f, a, k⟩, bb⟩ := q
    simp only [K.call?, Bool.not_eq_eq_eq_not, Bool.not_not]
    rw [Bool.eq_iff_iff]
    simp

theorem fs_ffn {s : FsBackend} (h : WF s) (fn : Fn) : Refines s (.ffn fn) := by
  obtain ⟨a, b⟩ := step_forget_wf h (fun k => k.fn? == some fn)
    (fun c => Cache.forgetFunction c fn)
    (by intro fn' arg' mk wd hs; simpa [K.fn?] using hs)
    (Or.inl (by intro k hk; cases k <;> first | rfl | simp [K.fn?] at hk))
    (by
      intro c hc
      refine ⟨Cache.prune_stepRaw_inv (.ffn fn) hc, ?_, ?_⟩
      · intro p hp
        obtain ⟨x, y⟩ := Cache.mem_forgetFunction.1 p hp
        exact ⟨x, by simpa [K.fn?] using y⟩
      · intro p hp
        obtain ⟨x, y⟩ := Cache.mem_forgetFunction.2 p hp
        exact ⟨x, by simpa [K.fn?] using y⟩)
  unfold Refines
  simp only [step, h.writable, Bool.false_eq_true, if_false, Spec.step]
  refine ⟨trivial, ?_, a⟩
  rw [b]
  apply Spec.mk_congr
  · apply List.filter_congr
    intro q _
    simp [K.fn?]
  · apply List.filter_congr
    intro q _
    simp [K.fn?]

theorem fs_fall {s : FsBackend} (h : WF s) : Refines s .fall := by
  obtain ⟨a, b⟩ := step_forget_wf h (fun k => if s.separate then k.isMetaArea else true)
    Cache.forgetEverything
    (by intro fn' arg' mk wd hs; cases s.separate <;> rfl)
    (by
      cases s.separate with
      | true => exact Or.inl (fun k hk => by simpa using hk)
      | false => exact Or.inr (fun k => rfl))
    (by
      intro c hc
      refine ⟨Cache.prune_stepRaw_inv .fall hc, ?_, ?_⟩
      · intro p hp; cases hp
      · intro p hp; cases hp)
  unfold Refines
  simp only [step, h.writable, Bool.false_eq_true, if_false, Spec.step]
  refine ⟨trivial, ?_, a⟩
  rw [b]
  unfold Spec.empty
  apply Spec.mk_congr
  · apply List.filter_eq_nil_iff.mpr
    intro q _
    cases s.separate <;> simp [K.isMetaArea]
  · apply List.filter_eq_nil_iff.mpr
    intro q _
    cases s.separate <;> simp [K.isMetaArea]

theorem fs_lsf {s : FsBackend} (h : WF s) : Refines s .lsf := by
  unfold Refines
  simp only [step, Spec.step]
  exact ⟨by rw [abs_eq, lsf_eq h.ds], trivial, h⟩

theorem fs_lsm {s : FsBackend} (h : WF s) (fn : Fn) : Refines s (.lsm fn) := by
  unfold Refines
  simp only [step, Spec.step]
  refine ⟨?_, trivial, h⟩
  rw [abs_eq]
  congr 2
  exact lsm_eq s.ds fn s.ds.links

theorem fs_wmeta {s : FsBackend} (h : WF s) (fn : Fn) (arg : Arg) (mk : MKey) (b : Bytes)
    (hadm : FsBackend.admissible s (.wmeta fn arg mk b)) : Refines s (.wmeta fn arg mk b) := by
  obtain ⟨hwf, hread, hstore, habs⟩ := wmeta_ds h.ds fn arg mk b hadm
  unfold Refines
  simp only [step, h.writable, Bool.false_eq_true, if_false, Spec.step]
  refine ⟨trivial, habs, ?_⟩
  refine ⟨hwf, by first | rfl | exact h.writable, ?_, ?_, ?_⟩
  · intro m mi hm fn' arg' ck hr
    simp only at hr; rw [hread] at hr
    exact h.heapOk m mi hm fn' arg' ck hr
  · intro fn1 arg1 fn2 arg2 m ck1 ck2 hr1 hr2
    simp only at hr1 hr2; rw [hread] at hr1 hr2
    exact h.memUnique _ _ _ _ _ _ _ hr1 hr2
  · intro c hc
    have hco := h.cacheOk c hc
    exact ⟨fun k e hke => (hco.entryOk k e hke).transfer (hstore _ _) (fun _ x => x),
      fun k v hkv => (hco.refOk k v hkv).transfer (hstore _ _), hco.inv⟩

theorem fs_rmeta {s : FsBackend} (h : WF s) (fn : Fn) (arg : Arg) (mk : MKey) : Refines s (.rmeta fn arg mk) := by
  unfold Refines
  have hsp : (Spec.step (abs s) (.rmeta fn arg mk)) =
      (abs s, .bytes (match s.ds.inputNV (.mdat fn arg mk false) with
        | some (.raw b) => some b
        | _ => none)) := by
    simp only [Spec.step, abs_eq]
    rw [alookup_abs_mdata]
    rfl
  rw [hsp]
  simp only [step]
  unfold DS.existsNV DS.inputNV
  cases hl : alookup s.ds.links (.mdat fn arg mk false) with
  | none => exact ⟨rfl, rfl, h⟩
  | some v =>
    simp only
    cases ho : alookup s.ds.objs (.mdat fn arg mk false, v) with
    | none => exact ⟨rfl, rfl, h⟩
    | some c =>
      obtain ⟨b, hb⟩ := h.ds.metaOk fn arg mk v hl
      rw [ho] at hb; cases hb
      exact ⟨rfl, rfl, h⟩

theorem fs_hold {s : FsBackend} (h : WF s) (b : Bytes) : Refines s (.hold b) := by
  obtain ⟨a, c⟩ := mapCache_wf h (fun c => Cache.hold c (b + 1))
    (fun c hc => ⟨Cache.prune_stepRaw_inv (.hold (b + 1)) hc, fun _ x => x, fun _ x => x⟩)
  exact ⟨rfl, by rw [abs_eq, abs_eq]; exact congrArg absDS c, a⟩

theorem fs_drop {s : FsBackend} (h : WF s) (b : Bytes) : Refines s (.drop b) := by
  obtain ⟨a, c⟩ := mapCache_wf h (fun c => Cache.drop c (b + 1))
    (fun c hc => ⟨Cache.prune_stepRaw_inv (.drop (b + 1)) hc, fun _ x => x, fun _ x => x⟩)
  exact ⟨rfl, by rw [abs_eq, abs_eq]; exact congrArg absDS c, a⟩

theorem fs_refines {s : FsBackend} (h : WF s) (op : Op) (hadm : FsBackend.admissible s op) : Refines s op := by
  cases op with
  | memoize fn arg ov mem val size wr => exact fs_memoize h fn arg ov mem val size wr hadm
  | getm ks => exact fs_getm h ks
  | lookread fn arg => exact fs_lookread h fn arg
  | ismem fn arg => exact fs_ismem h fn arg
  | fcall fn arg => exact fs_fcall h fn arg
  | ffn fn => exact fs_ffn h fn
  | fall => exact fs_fall h
  | lsf => exact fs_lsf h
  | lsm fn => exact fs_lsm h fn
  | wmeta fn arg k b => exact fs_wmeta h fn arg k b hadm
  | rmeta fn arg k => exact fs_rmeta h fn arg k
  | hold b => exact fs_hold h b
  | drop b => exact fs_drop h b

theorem wf_init (separate : Bool) (budget : Option Nat) : WF (FsBackend.init separate budget false) := by
  refine ⟨DSWF.empty, rfl, ?_, ?_, ?_⟩
  · intro m mi hm; cases hm
  · intro fn arg fn' arg' m ck ck' hr; cases hr
  · intro c hc
    cases budget with
    | none => cases hc
    | some b =>
      simp only [FsBackend.init, Option.map_some, Option.some.injEq] at hc
      subst hc
      exact ⟨fun k e hke => (by cases hke), fun k v hkv => (by cases hkv), Cache.inv_init b⟩

theorem abs_init (separate : Bool) (budget : Option Nat) :
    FsBackend.abs (FsBackend.init separate budget false) = Spec.empty := rfl

/-! ### a decidable sufficient condition for admissibility (for non-vacuity checks) -/

def FsBackend.admissibleB (s : FsBackend) : Op → Bool
  | .memoize _ _ _ mem val _ _ =>
    (alookup s.heap mem).isNone &&
    s.ds.objs.all (fun p => match p.2 with | .mrec m _ => m != mem | _ => true) &&
    (match val with | some b => decide (b + 1 < 1000000) | none => true)
  | .wmeta fn arg _ _ => (FsBackend.readMemento s.ds fn arg).isSome
  | _ => true

theorem FsBackend.admissible_of_B {s : FsBackend} {op : Op} (h : FsBackend.admissibleB s op = true) :
    FsBackend.admissible s op := by
  cases op with
  | memoize fn arg ov mem val size wr =>
    simp only [FsBackend.admissibleB, Bool.and_eq_true] at h
    obtain ⟨⟨h1, h2⟩, h3⟩ := h
    refine ⟨by simpa using h1, ?_, ?_⟩
    · intro fn' arg' m ck hr
      obtain ⟨v, _, ho⟩ := (readMemento_eq s.ds fn' arg' m ck).mp hr
      have := List.all_eq_true.mp h2 _ (alookup_mem ho)
      simpa using this
    · intro b hb; subst hb; simpa using h3
  | wmeta fn arg k b => exact h
  | _ => trivial

end Memento.Store
