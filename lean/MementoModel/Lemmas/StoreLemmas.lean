import MementoModel.Lemmas.StoreInv

/-! Helper lemmas for the storage refinement proofs. -/
namespace Memento.Store

end Memento.Store
