import MementoModel.Model.Json

/-!
Lemmas about the normalized-JSON token serialisation (`Model/Json.lean`):

* `insertKV` / `sortKV`: permutation, commutation with key-preserving maps, sortedness under distinct
  keys, invariance under permutations of lists with distinct keys;
* `serC`: the serialisation *without* sorting; it is prefix-free, hence injective (`serC_injective`).

Core-only.
-/
namespace Memento.Json

/-! ### `insertKV`, `sortKV` -/
section sort
variable {β γ : Type}

/-- strictly sorted by key -/
def KSorted (l : List (String × β)) : Prop := l.Pairwise (fun p q => p.1 < q.1)

theorem str_lt_of_not_lt_of_ne {a b : String} (h : ¬ a < b) (hne : a ≠ b) : b < a := by
  have hle : b ≤ a := String.not_lt.mp h
  apply Classical.byContradiction
  intro hn
  exact hne (String.le_antisymm (String.not_lt.mp hn) hle)

theorem sortKV_nil : sortKV ([] : List (String × β)) = [] := rfl

theorem sortKV_cons (p : String × β) (l : List (String × β)) :
    sortKV (p :: l) = insertKV p.1 p.2 (sortKV l) := rfl

theorem insertKV_perm (k : String) (v : β) (l : List (String × β)) :
    (insertKV k v l).Perm ((k, v) :: l) := by
  induction l with
  | nil => exact List.Perm.refl _
  | cons p l ih =>
    obtain ⟨k', v'⟩ := p
    unfold insertKV
    by_cases h : k < k'
    · simp only [h, if_true]; exact List.Perm.refl _
    · simp only [h, if_false]
      exact ((List.Perm.cons _ ih).trans (List.Perm.swap _ _ _))

theorem sortKV_perm (l : List (String × β)) : (sortKV l).Perm l := by
  induction l with
  | nil => exact List.Perm.refl _
  | cons p l ih =>
    rw [sortKV_cons]
    exact (insertKV_perm _ _ _).trans (List.Perm.cons _ ih)

theorem mem_sortKV {l : List (String × β)} {p : String × β} : p ∈ sortKV l ↔ p ∈ l :=
  (sortKV_perm l).mem_iff

theorem insertKV_map (f : β → γ) (k : String) (v : β) (l : List (String × β)) :
    insertKV k (f v) (l.map (fun p => (p.1, f p.2))) = (insertKV k v l).map (fun p => (p.1, f p.2)) := by
  induction l with
  | nil => rfl
  | cons p l ih =>
    obtain ⟨k', v'⟩ := p
    simp only [List.map_cons, insertKV]
    by_cases h : k < k'
    · simp only [h, if_true, List.map_cons]
    · simp only [h, if_false, List.map_cons, ih]

/-- sorting commutes with maps that keep the keys -/
theorem sortKV_map (f : β → γ) (l : List (String × β)) :
    sortKV (l.map (fun p => (p.1, f p.2))) = (sortKV l).map (fun p => (p.1, f p.2)) := by
  induction l with
  | nil => rfl
  | cons p l ih =>
    rw [List.map_cons, sortKV_cons, sortKV_cons, ih]
    exact insertKV_map f p.1 p.2 (sortKV l)

theorem insertKV_sorted (k : String) (v : β) (l : List (String × β)) (hs : KSorted l)
    (hk : ∀ p ∈ l, p.1 ≠ k) : KSorted (insertKV k v l) := by
  induction l with
  | nil => exact List.pairwise_singleton _ _
  | cons p l ih =>
    obtain ⟨k', v'⟩ := p
    have hs' := List.pairwise_cons.mp hs
    unfold insertKV
    by_cases h : k < k'
    · simp only [h, if_true]
      refine List.pairwise_cons.mpr ⟨?_, hs⟩
      intro q hq
      rcases List.mem_cons.mp hq with rfl | hq
      · exact h
      · exact String.lt_trans h (hs'.1 q hq)
    · simp only [h, if_false]
      have hne : k ≠ k' := fun e => hk (k', v') List.mem_cons_self e.symm
      have hlt : k' < k := str_lt_of_not_lt_of_ne h hne
      refine List.pairwise_cons.mpr ⟨?_, ih hs'.2 (fun p hp => hk p (List.mem_cons_of_mem _ hp))⟩
      intro q hq
      rcases List.mem_cons.mp ((insertKV_perm k v l).mem_iff.mp hq) with rfl | hq
      · exact hlt
      · exact hs'.1 q hq

theorem sortKV_sorted (l : List (String × β)) (hn : (l.map (·.1)).Nodup) : KSorted (sortKV l) := by
  induction l with
  | nil => exact List.Pairwise.nil
  | cons p l ih =>
    rw [List.map_cons, List.nodup_cons] at hn
    rw [sortKV_cons]
    refine insertKV_sorted _ _ _ (ih hn.2) ?_
    intro q hq e
    exact hn.1 (e ▸ List.mem_map_of_mem (mem_sortKV.mp hq))

theorem insertKV_of_lt (k : String) (v : β) (l : List (String × β)) (h : ∀ p ∈ l, k < p.1) :
    insertKV k v l = (k, v) :: l := by
  cases l with
  | nil => rfl
  | cons p l =>
    obtain ⟨k', v'⟩ := p
    have : k < k' := h (k', v') List.mem_cons_self
    simp only [insertKV, this, if_true]

/-- a strictly sorted list is a fixed point of `sortKV` -/
theorem sortKV_eq_of_sorted (l : List (String × β)) (hs : KSorted l) : sortKV l = l := by
  induction l with
  | nil => rfl
  | cons p l ih =>
    have hs' := List.pairwise_cons.mp hs
    rw [sortKV_cons, ih hs'.2]
    exact insertKV_of_lt _ _ _ hs'.1

theorem KSorted.eq_of_perm {l l' : List (String × β)} (hs : KSorted l) (hs' : KSorted l')
    (hp : l.Perm l') : l = l' :=
  List.Perm.eq_of_pairwise (le := fun (p q : String × β) => p.1 < q.1)
    (fun _ _ _ _ h1 h2 => absurd h2 (String.lt_asymm h1)) hs hs' hp

/-- member order is irrelevant when the keys are distinct -/
theorem sortKV_eq_of_perm {l l' : List (String × β)} (hp : l.Perm l') (hn : (l.map (·.1)).Nodup) :
    sortKV l = sortKV l' := by
  have hn' : (l'.map (·.1)).Nodup := (hp.map _).nodup_iff.mp hn
  exact (sortKV_sorted l hn).eq_of_perm (sortKV_sorted l' hn')
    ((sortKV_perm l).trans (hp.trans (sortKV_perm l').symm))

theorem sortKV_idem (l : List (String × β)) (hn : (l.map (·.1)).Nodup) : sortKV (sortKV l) = sortKV l :=
  sortKV_eq_of_sorted _ (sortKV_sorted l hn)

theorem map_fst_map_snd (f : β → γ) (l : List (String × β)) :
    (l.map (fun p => (p.1, f p.2))).map (·.1) = l.map (·.1) := by
  simp [List.map_map, Function.comp_def]

end sort

/-! ### serialisation without sorting -/

mutual
  /-- like `ser`, but object members are rendered in the order in which they are stored -/
  def serC : JVal → List Tok
    | .null => [.prim .null]
    | .bool b => [.prim (.bool b)]
    | .num t => [.prim (.num t)]
    | .str s => [.prim (.str s)]
    | .arr l => .lb :: serCL l ++ [.rb]
    | .obj o => .lc :: serKVs (serCO o) ++ [.rc]
  def serCL : JList → List Tok
    | .nil => []
    | .cons v .nil => serC v
    | .cons v l => serC v ++ .comma :: serCL l
  def serCO : JObj → List (String × List Tok)
    | .nil => []
    | .cons k v o => (k, serC v) :: serCO o
end

/-- what follows an array element: nothing, or a comma and the other elements -/
def sepL : JList → List Tok
  | .nil => []
  | .cons v l => .comma :: serCL (.cons v l)

/-- what follows an object member -/
def sepO : JObj → List Tok
  | .nil => []
  | .cons k v o => .comma :: serKVs (serCO (.cons k v o))

theorem serCL_cons (v : JVal) (l : JList) : serCL (.cons v l) = serC v ++ sepL l := by
  cases l with
  | nil => simp [serCL, sepL]
  | cons v' l' => simp [serCL, sepL]

theorem serKVs_cons (k : String) (ts : List Tok) (rest : List (String × List Tok)) :
    serKVs ((k, ts) :: rest) =
      .prim (.str k) :: .colon :: ts ++ (match rest with | [] => [] | _ :: _ => .comma :: serKVs rest) := by
  cases rest with
  | nil => simp [serKVs]
  | cons p r => simp [serKVs]

theorem serKVs_serCO_cons (k : String) (v : JVal) (o : JObj) :
    serKVs (serCO (.cons k v o)) = .prim (.str k) :: .colon :: serC v ++ sepO o := by
  rw [serCO, serKVs_cons]
  cases o with
  | nil => simp [serCO, sepO]
  | cons k' v' o' => simp [serCO, sepO]

/-- tokens that can start a value -/
def Tok.starts : Tok → Bool
  | .lb | .lc | .prim _ => true
  | _ => false

theorem serC_head (v : JVal) : ∃ t ts, serC v = t :: ts ∧ t.starts = true := by
  cases v <;> simp [serC, Tok.starts]

mutual
  /-- the grammar is prefix-free: a value's token list determines where it ends -/
  theorem serC_pf : ∀ (v v' : JVal) (r r' : List Tok), serC v ++ r = serC v' ++ r' → v = v' ∧ r = r'
    | .null, v', r, r', h => by
      cases v' <;> simp [serC] at h ⊢ <;> exact h
    | .bool b, v', r, r', h => by
      cases v' <;> simp [serC] at h ⊢ <;> exact h
    | .num t, v', r, r', h => by
      cases v' <;> simp [serC] at h ⊢ <;> exact h
    | .str s, v', r, r', h => by
      cases v' <;> simp [serC] at h ⊢ <;> exact h
    | .arr l, v', r, r', h => by
      cases v' with
      | arr l' =>
        simp only [serC, List.cons_append, List.append_assoc, List.cons.injEq, true_and,
          List.nil_append] at h
        have := serCL_pf l l' r r' h
        simp [this.1, this.2]
      | _ => simp [serC] at h
    | .obj o, v', r, r', h => by
      cases v' with
      | obj o' =>
        simp only [serC, List.cons_append, List.append_assoc, List.cons.injEq, true_and,
          List.nil_append] at h
        have := serCO_pf o o' r r' h
        simp [this.1, this.2]
      | _ => simp [serC] at h
  theorem serCL_pf : ∀ (l l' : JList) (r r' : List Tok),
      serCL l ++ .rb :: r = serCL l' ++ .rb :: r' → l = l' ∧ r = r'
    | .nil, l', r, r', h => by
      cases l' with
      | nil => simpa [serCL] using h
      | cons v' l1' =>
        obtain ⟨t, ts, e, st⟩ := serC_head v'
        rw [serCL_cons, e] at h
        simp only [serCL, List.nil_append, List.cons_append, List.cons.injEq] at h
        rw [← h.1] at st; simp [Tok.starts] at st
    | .cons v l1, l', r, r', h => by
      cases l' with
      | nil =>
        obtain ⟨t, ts, e, st⟩ := serC_head v
        rw [serCL_cons, e] at h
        simp only [serCL, List.nil_append, List.cons_append, List.cons.injEq] at h
        rw [h.1] at st; simp [Tok.starts] at st
      | cons v' l1' =>
        rw [serCL_cons, serCL_cons, List.append_assoc, List.append_assoc] at h
        have h1 := serC_pf v v' _ _ h
        have h2 := sepL_pf l1 l1' r r' h1.2
        simp [h1.1, h2.1, h2.2]
  theorem sepL_pf : ∀ (l l' : JList) (r r' : List Tok),
      sepL l ++ .rb :: r = sepL l' ++ .rb :: r' → l = l' ∧ r = r'
    | .nil, l', r, r', h => by
      cases l' with
      | nil => simpa [sepL] using h
      | cons v' l1' => simp [sepL] at h
    | .cons v l1, l', r, r', h => by
      cases l' with
      | nil => simp [sepL] at h
      | cons v' l1' =>
        simp only [sepL, List.cons_append, List.cons.injEq, true_and] at h
        rw [serCL_cons, serCL_cons, List.append_assoc, List.append_assoc] at h
        have h1 := serC_pf v v' _ _ h
        have h2 := sepL_pf l1 l1' r r' h1.2
        simp [h1.1, h2.1, h2.2]
  theorem serCO_pf : ∀ (o o' : JObj) (r r' : List Tok),
      serKVs (serCO o) ++ .rc :: r = serKVs (serCO o') ++ .rc :: r' → o = o' ∧ r = r'
    | .nil, o', r, r', h => by
      cases o' with
      | nil => simpa [serCO, serKVs] using h
      | cons k' v' o1' =>
        rw [serKVs_serCO_cons] at h
        simp [serCO, serKVs] at h
    | .cons k v o1, o', r, r', h => by
      cases o' with
      | nil =>
        rw [serKVs_serCO_cons] at h
        simp [serCO, serKVs] at h
      | cons k' v' o1' =>
        rw [serKVs_serCO_cons, serKVs_serCO_cons] at h
        simp only [List.cons_append, List.cons.injEq, Tok.prim.injEq, Prim.str.injEq, true_and,
          List.append_assoc] at h
        have h1 := serC_pf v v' _ _ h.2
        have h2 := sepO_pf o1 o1' r r' h1.2
        simp [h.1, h1.1, h2.1, h2.2]
  theorem sepO_pf : ∀ (o o' : JObj) (r r' : List Tok),
      sepO o ++ .rc :: r = sepO o' ++ .rc :: r' → o = o' ∧ r = r'
    | .nil, o', r, r', h => by
      cases o' with
      | nil => simpa [sepO] using h
      | cons k' v' o1' => simp [sepO] at h
    | .cons k v o1, o', r, r', h => by
      cases o' with
      | nil => simp [sepO] at h
      | cons k' v' o1' =>
        simp only [sepO, List.cons_append, List.cons.injEq, true_and] at h
        rw [serKVs_serCO_cons, serKVs_serCO_cons] at h
        simp only [List.cons_append, List.cons.injEq, Tok.prim.injEq, Prim.str.injEq, true_and,
          List.append_assoc] at h
        have h1 := serC_pf v v' _ _ h.2
        have h2 := sepO_pf o1 o1' r r' h1.2
        simp [h.1, h1.1, h2.1, h2.2]
end

/-- the unsorted serialisation is injective: the token grammar is unambiguous -/
theorem serC_injective {v w : JVal} (h : serC v = serC w) : v = w := by
  have := serC_pf v w [] [] (by simp [h])
  exact this.1

end Memento.Json
