import MementoModel.Lemmas.StoreLemmas
import MementoModel.Lemmas.StoreRO

/-! Lemmas for C07: what each backend operation does to the *data area* (content / override keys)
    of the object store. -/
set_option linter.unusedSimpArgs false
set_option linter.unusedVariables false
namespace Memento.Store
open Memento

/-- a keyed list without duplicate keys has at most one entry per key -/
theorem filter_key_length_le_one {α β : Type} [DecidableEq α] (l : List (α × β)) (P : α → Bool)
    (hn : (l.map (·.1)).Nodup) (hP : ∀ p ∈ l, ∀ q ∈ l, P p.1 = true → P q.1 = true → p.1 = q.1) :
    (l.filter (fun p => P p.1)).length ≤ 1 := by
  induction l with
  | nil => simp
  | cons a l ih =>
    have hn' := List.nodup_cons.mp (show (a.1 :: l.map (·.1)).Nodup from hn)
    have ih' := ih hn'.2 (fun p hp q hq => hP p (List.mem_cons_of_mem _ hp) q (List.mem_cons_of_mem _ hq))
    by_cases ha : P a.1 = true
    · rw [List.filter_cons, if_pos ha]
      have : l.filter (fun p => P p.1) = [] := by
        apply List.filter_eq_nil_iff.mpr
        intro q hq hPq
        have := hP a List.mem_cons_self q (List.mem_cons_of_mem _ hq) ha hPq
        exact hn'.1 (this ▸ List.mem_map.mpr ⟨q, hq, rfl⟩)
      rw [this]; simp
    · rw [List.filter_cons, if_neg ha]; exact ih'

/-- C07 on the invariant: a content key never has two version files -/
theorem DSWF.content_unique {d : DS} (h : DSWF d) (hh : Bytes) :
    (d.objs.filter (fun p => p.1.1 == K.content hh)).length ≤ 1 := by
  apply filter_key_length_le_one d.objs (fun kv => kv.1 == K.content hh) h.objNodup
  intro p hp q hq hPp hPq
  have e1 : p.1.1 = K.content hh := by simpa using hPp
  have e2 : q.1.1 = K.content hh := by simpa using hPq
  obtain ⟨c1, h1⟩ := alookup_isSome_of_mem hp
  obtain ⟨c2, h2⟩ := alookup_isSome_of_mem hq
  have hp1 : p.1 = (K.content hh, p.1.2) := by rw [← e1]
  have hq1 : q.1 = (K.content hh, q.1.2) := by rw [← e2]
  rw [hp1] at h1; rw [hq1] at h2
  have l1 := h.contentLinked hh p.1.2 (by rw [h1]; rfl)
  have l2 := h.contentLinked hh q.1.2 (by rw [h2]; rfl)
  rw [l1] at l2
  rw [hp1, hq1]
  have : p.1.2 = q.1.2 := by injection l2
  rw [this]

/-- the version files outside the metadata area -/
def DS.dataObjs (d : DS) : List ((K × Ver) × Content) := d.objs.filter (fun p => !p.1.1.isMetaArea)

theorem DS.dataObjs_deleteWhere (d : DS) (sel : K → Bool) (hsel : ∀ k, sel k = true → k.isMetaArea = true) :
    (d.deleteWhere sel).dataObjs = d.dataObjs := by
  show (d.objs.filter (fun p => !(sel p.1.1))).filter (fun p => !p.1.1.isMetaArea) = _
  rw [List.filter_filter]
  apply List.filter_congr
  intro p _
  cases hs : sel p.1.1 with
  | false => simp
  | true => simp [hsel _ hs]

theorem DS.dataObjs_output_meta (d : DS) (k : K) (c : Content) (hk : k.isMetaArea = true) :
    (d.output k c).1.dataObjs = d.dataObjs := by
  show (((k, d.next), c) :: d.objs).filter (fun p => !p.1.1.isMetaArea) = _
  rw [List.filter_cons]
  simp [hk, DS.dataObjs]

theorem DS.inputV_deleteWhere (d : DS) (sel : K → Bool) (k : K) (v : Ver) (hk : sel k = false) :
    (d.deleteWhere sel).inputV k v = d.inputV k v := by
  unfold DS.inputV
  rw [DS.alookup_objs_deleteWhere, hk]; simp

namespace FsBackend

/-- `codec.store` of bytes that already have a linked content object changes nothing -/
theorem codecStore_existing (d : DS) (b : Bytes) (hex : d.existsNV (.content b) = true) :
    (codecStore d none (some b)).1 = d := by
  simp only [codecStore, hex, if_true]
  cases d.getVersioned (.content b) <;> rfl

/-- the selectors of the three forgets, as `step` uses them -/
theorem step_forget_ds (s : FsBackend) (hw : s.readOnly = false) :
    (∀ fn arg, (step s (.fcall fn arg)).1.ds = s.ds.deleteWhere (fun k => k.call? == some (fn, arg))) ∧
    (∀ fn, (step s (.ffn fn)).1.ds = s.ds.deleteWhere (fun k => k.fn? == some fn)) ∧
    (step s .fall).1.ds = s.ds.deleteWhere (fun k => if s.separate then k.isMetaArea else true) := by
  refine ⟨?_, ?_, ?_⟩ <;> intros <;> simp only [step, hw, Bool.false_eq_true, if_false] <;> rfl

theorem call_sel_meta (fn : Fn) (arg : Arg) (k : K) (h : (k.call? == some (fn, arg)) = true) : k.isMetaArea = true := by
  cases k <;> first | rfl | simp [K.call?] at h

theorem fn_sel_meta (fn : Fn) (k : K) (h : (k.fn? == some fn) = true) : k.isMetaArea = true := by
  cases k <;> first | rfl | simp [K.fn?] at h

/-- the store of the next state is the old one with objects added, for every non-forgetting op -/
theorem step_objsExt {s : FsBackend} (h : WF s) (op : Op) (hadm : FsBackend.admissible s op)
    (hop : match op with | .fcall .. | .ffn .. | .fall => False | _ => True) :
    ObjsExt s.ds (step s op).1.ds := by
  cases op with
  | memoize fn arg ov mem val sz wr =>
    rw [step_memoize s h.writable]
    obtain ⟨hstep, _, _⟩ := codecStore_post h.ds ov val hadm.2.2
    exact hstep.ext.trans (ObjsExt.output hstep.wf _ _)
  | getm ks => rw [(step_same s _ (by rfl)).1]; exact ObjsExt.refl _
  | lookread fn arg => rw [(step_same s _ (by rfl)).1]; exact ObjsExt.refl _
  | ismem fn arg => rw [(step_same s _ (by rfl)).1]; exact ObjsExt.refl _
  | fcall fn arg => cases hop
  | ffn fn => cases hop
  | fall => cases hop
  | lsf => rw [(step_same s _ (by rfl)).1]; exact ObjsExt.refl _
  | lsm fn => rw [(step_same s _ (by rfl)).1]; exact ObjsExt.refl _
  | wmeta fn arg k b =>
    simp only [step, h.writable, Bool.false_eq_true, if_false]
    exact ObjsExt.output h.ds _ _
  | rmeta fn arg k => rw [(step_same s _ (by rfl)).1]; exact ObjsExt.refl _
  | hold b => rw [(step_same s _ (by rfl)).1]; exact ObjsExt.refl _
  | drop b => rw [(step_same s _ (by rfl)).1]; exact ObjsExt.refl _

end FsBackend

end Memento.Store
