import MementoModel.Lemmas.CacheLemmas
import MementoModel.Model.Store

/-! When there is room, a `put` drops nothing: other resident entries stay exactly as they are.
    Used for the backend-level clause of C06 ("more recently used ones keep being served without touching the
    underlying store"): the memento-only entries that `get_mementos` writes for cache misses must leave every resident
    value resident while there is room for them. -/
namespace Memento.Cache

theorem lookup_remove_ne (c : List (Key × Entry)) {k k' : Key} (h : k ≠ k') : lookup (remove c k') k = lookup c k := by
  induction c with
  | nil => rfl
  | cons p c ih =>
    unfold remove at ih ⊢
    rw [List.filter_cons]
    by_cases hp : p.1 = k'
    · have : (!(p.1 == k')) = false := by simp [hp]
      rw [this]; simp only [Bool.false_eq_true, if_false]
      rw [ih, lookup_cons]
      have : p.1 ≠ k := fun e => h (e.symm.trans hp)
      simp [this]
    · have : (!(p.1 == k')) = true := by simp [hp]
      rw [this]; simp only [if_true]
      rw [lookup_cons, lookup_cons, ih]

theorem lookup_append_ne (c : List (Key × Entry)) {k k' : Key} (e' : Entry) (h : k ≠ k') :
    lookup (c ++ [(k', e')]) k = lookup c k := by
  induction c with
  | nil =>
    simp only [List.nil_append]
    rw [lookup_cons]
    have : k' ≠ k := fun e => h e.symm
    simp [this, lookup]
  | cons p c ih =>
    simp only [List.cons_append]
    rw [lookup_cons, lookup_cons, ih]

theorem evict_lookup_ne (s : State) {k k' : Key} (h : k ≠ k') : lookup (evict s k').cache k = lookup s.cache k := by
  rw [evict_cache]; exact lookup_remove_ne _ h

theorem makeRoom_noop (size n : Nat) (s : State) (h : s.usage + size ≤ s.budget) : makeRoom size n s = s := by
  cases n with
  | zero => rfl
  | succ n =>
    unfold makeRoom
    cases hl : s.lru with
    | nil => rfl
    | cons k rest =>
      simp only
      rw [if_neg (by omega)]

/-- with room for `size` more bytes, `putCore` of another key leaves the entry of `k` untouched -/
theorem putCore_lookup_ne_room (s : State) {k k' : Key} (m v size : Nat) (hr : Bool) (h : k ≠ k')
    (hroom : s.usage + size ≤ s.budget) :
    lookup (putCore s k' m v size hr).cache k = lookup s.cache k ∧
    (putCore s k' m v size hr).usage ≤ s.usage + size ∧ (putCore s k' m v size hr).budget = s.budget := by
  have h1 : (evict s k').usage + size ≤ (evict s k').budget := by
    have := evict_usage_le s k'; rw [evict_budget]; omega
  unfold putCore touchStamp
  simp only [makeRoom_noop size _ (evict s k') h1]
  refine ⟨?_, ?_, evict_budget s k'⟩
  · rw [lookup_append_ne _ _ h, evict_lookup_ne s h]
  · have := evict_usage_le s k'; omega

theorem putRef_cache' (s : State) (k v w) : (putRef s k v w).cache = s.cache := by
  unfold putRef; split <;> rfl

theorem putRef_usage (s : State) (k v w) : (putRef s k v w).usage = s.usage := by
  unfold putRef; split <;> rfl

/-- with room, `put` of another key (any flags) leaves the entry of `k` untouched and adds at most `size` -/
theorem put_lookup_ne_room (s : State) {k k' : Key} (m v size : Nat) (w hr : Bool) (vc : Option Nat) (h : k ≠ k')
    (hroom : s.usage + size ≤ s.budget) :
    lookup (put s k' m v size w hr vc).cache k = lookup s.cache k ∧
    (put s k' m v size w hr vc).usage ≤ s.usage + size ∧ (put s k' m v size w hr vc).budget = s.budget := by
  unfold put
  generalize hs0 : (if hr = true then putRef s k' v w else s) = s0
  have hc0 : s0.cache = s.cache := by subst hs0; split; exact putRef_cache' _ _ _ _; rfl
  have hu0 : s0.usage = s.usage := by subst hs0; split; exact putRef_usage _ _ _ _; rfl
  have hb0 : s0.budget = s.budget := by subst hs0; split; exact putRef_budget _ _ _ _; rfl
  unfold putSized
  split
  · refine ⟨by rw [evict_lookup_ne s0 h, hc0], ?_, by rw [evict_budget, hb0]⟩
    have := evict_usage_le s0 k'; omega
  · split
    · rename_i v'
      have := putCore_lookup_ne_room (putRef s0 k' v' w) m v' size hr h
        (by rw [putRef_usage, putRef_budget]; omega)
      rw [putRef_cache', putRef_usage, putRef_budget] at this
      rw [hc0, hu0, hb0] at this; exact this
    · have := putCore_lookup_ne_room s0 m v size hr h (by omega)
      rw [hc0, hu0, hb0] at this; exact this

end Memento.Cache

namespace Memento.Store.FsBackend
open Memento

/-- `get_mementos` phase 2 under the room hypothesis: whatever the list of (key, cache answer) pairs, as long as the
    keys that are fetched from the store differ from `k` and there is room for a memento-only entry (16 bytes) for each
    of them, the entry of `k` is left exactly as it is. -/
theorem mergeMementos_keeps (k : Cache.Key) (e : Cache.Entry) :
    ∀ (l : List ((Fn × Arg) × Option Nat)) (s : FsBackend) (c : Cache.State), s.cache = some c →
      Cache.lookup c.cache k = some e →
      (∀ p ∈ l, p.2 = none → ckey p.1.1 p.1.2 ≠ k) →
      c.usage + 16 * l.length ≤ c.budget →
      ∃ c', (mergeMementos s l).1.cache = some c' ∧ Cache.lookup c'.cache k = some e := by
  intro l
  induction l with
  | nil => intro s c hc he _ _; exact ⟨c, hc, he⟩
  | cons p l ih =>
    intro s c hc he hne hroom
    obtain ⟨⟨fn, arg⟩, cached⟩ := p
    have hlen : (((fn, arg), cached) :: l).length = l.length + 1 := rfl
    rw [hlen] at hroom
    have hne' : ∀ p ∈ l, p.2 = none → ckey p.1.1 p.1.2 ≠ k := fun p hp => hne p (List.mem_cons_of_mem _ hp)
    cases cached with
    | some m =>
      simp only [mergeMementos]
      exact ih s c hc he hne' (by omega)
    | none =>
      simp only [mergeMementos]
      have hk : ckey fn arg ≠ k := hne _ List.mem_cons_self rfl
      unfold fetchMemento
      cases hr : readMemento s.ds fn arg with
      | none => simp only; exact ih s c hc he hne' (by omega)
      | some mc =>
        obtain ⟨m, ck⟩ := mc
        simp only
        have hput := Cache.put_lookup_ne_room c (k := k) (k' := ckey fn arg) m (objId none 0) 16 false false none
          (fun h => hk h.symm) (by omega)
        refine ih _ (Cache.prune (Cache.put c (ckey fn arg) m (objId none 0) 16 false false none)) ?_ ?_ hne' ?_
        · simp only [cachePut, hc]
        · show Cache.lookup (Cache.put c (ckey fn arg) m (objId none 0) 16 false false none).cache k = some e
          rw [hput.1]; exact he
        · show (Cache.put c (ckey fn arg) m (objId none 0) 16 false false none).usage + 16 * l.length
              ≤ (Cache.put c (ckey fn arg) m (objId none 0) 16 false false none).budget
          rw [hput.2.2]; have := hput.2.1; omega

theorem cacheLookup_none_ne {s : FsBackend} {c : Cache.State} (hc : s.cache = some c) {k : Cache.Key} {e : Cache.Entry}
    (he : Cache.lookup c.cache k = some e) {fn : Fn} {arg : Arg} (h : cacheLookup s fn arg = none) : ckey fn arg ≠ k := by
  intro hk
  unfold cacheLookup at h
  rw [hc] at h
  simp only [hk, he, Option.map_some] at h
  exact absurd h (by simp)

end Memento.Store.FsBackend
