import MementoModel.Model.RunnerProg

/-! Definitions shared by the runner property files (C02, C10, C15, C16). -/
namespace Memento.Runner

/-- two outcomes that differ at most by an opaque exception having been replayed -/
def Outcome.sim (o o' : Outcome) : Prop := replay o = replay o'

/-- pointwise relation of two outcome lists -/
def simList : List Outcome → List Outcome → Prop
  | [], [] => True
  | o :: os, o' :: os' => Outcome.sim o o' ∧ simList os os'
  | _, _ => False

/-- bodies related up to replay of the outcomes they observe and return: a handler cannot tell an
    opaque exception (`clsOpaque`) from its replayed form (`clsMemento`) -/
inductive BSim : Body → Body → Prop
  | ret {o o'} : Outcome.sim o o' → BSim (.ret o) (.ret o')
  | call {fn arg ctx fl k k'} : (∀ o o', Outcome.sim o o' → BSim (k o) (k' o')) →
      BSim (.call fn arg ctx fl k) (.call fn arg ctx fl k')
  | batch {fn args ctx fl k k'} :
      (∀ r r', (match r, r' with
                | .error e, .error e' => Outcome.sim e e'
                | .ok os, .ok os' => simList os os'
                | _, _ => False) → BSim (k r) (k' r')) →
      BSim (.batch fn args ctx fl k) (.batch fn args ctx fl k')
  | resource {h b b'} : BSim b b' → BSim (.resource h b) (.resource h b')

/-- every body of the program behaves the same on an exception and on its replayed form -/
def WellBehaved (P : Prog) : Prop := ∀ f a, BSim (P.body f a) (P.body f a)

/-- no nested call is made with `with_prevent_further_calls(True)` -/
inductive NoPreventB : Body → Prop
  | ret {o} : NoPreventB (.ret o)
  | call {fn arg ctx fl k} : fl.prevent = false → (∀ o, NoPreventB (k o)) → NoPreventB (.call fn arg ctx fl k)
  | batch {fn args ctx fl k} : fl.prevent = false → (∀ r, NoPreventB (k r)) → NoPreventB (.batch fn args ctx fl k)
  | resource {h b} : NoPreventB b → NoPreventB (.resource h b)

def NoPrevent (P : Prog) : Prop := ∀ f a, NoPreventB (P.body f a)

/-- records agree on everything the property talks about (dependencies as a set) -/
def Rec.same (r r' : Rec) : Prop :=
  r.key = r'.key ∧ Outcome.sim r.out r'.out ∧ r.invs = r'.invs ∧ r.res = r'.res ∧ (∀ f, f ∈ r.deps ↔ f ∈ r'.deps)

/-- every stored memento is what an un-memoized execution of its call produces
    (result and provenance) -/
def Sound (P : Prog) (s : St) : Prop :=
  s.enabled = true ∧ ∀ k r, s.get k = some r → ∃ n r', pureRec P n k = some r' ∧ Rec.same r r'

end Memento.Runner
