import MementoModel.Model.VersionCache
import MementoModel.Lemmas.VersionCong

/-! Coherence of the in-process version cache: the invariant, its preservation, and the key lemma
"no recorded rule changed ⇒ the recorded version is the fresh version". -/
namespace Memento.VersionCache
open Memento.Version

theorem lookup_progOf (sym : Sym) (n : Name) : lookup (progOf sym) n = (lookupB sym n).map (·.d) := by
  induction sym with
  | nil => rfl
  | cons p r ih =>
    obtain ⟨k, b⟩ := p
    simp only [progOf, List.map_cons, lookup, lookupB] at ih ⊢
    by_cases h : k = n
    · simp [h]
    · simp only [h, if_false]; exact ih

theorem lookupB_bind (sym : Sym) (n : Name) (b : Bound) (m : Name) :
    lookupB (bind sym n b) m = if n = m then some b else lookupB sym m := by
  unfold bind
  simp only [lookupB]
  by_cases h : n = m
  · simp [h]
  · simp only [h, if_false]
    induction sym with
    | nil => rfl
    | cons p r ih =>
      obtain ⟨k, c⟩ := p
      by_cases hk : k = n
      · subst hk
        have : ((k, c).1 != k) = false := by simp
        simp only [List.filter_cons, this, lookupB, h, if_false]
        exact ih
      · have : ((k, c).1 != n) = true := by simpa using hk
        simp only [List.filter_cons, this, if_true, lookupB]
        by_cases hm : k = m
        · simp [hm]
        · simp only [hm, if_false]; exact ih

theorem lookupB_mem {sym : Sym} {n : Name} {b : Bound} (h : lookupB sym n = some b) : (n, b) ∈ sym := by
  induction sym with
  | nil => simp [lookupB] at h
  | cons p r ih =>
    obtain ⟨k, c⟩ := p
    simp only [lookupB] at h
    by_cases hk : k = n
    · simp only [hk, if_true, Option.some.injEq] at h
      subst h; subst hk; exact List.mem_cons_self
    · simp only [hk, if_false] at h
      exact List.mem_cons_of_mem _ (ih h)

/-- stamps identify bindings -/
def StampInj (hist : List Bound) : Prop := ∀ b ∈ hist, ∀ b' ∈ hist, b.stamp = b'.stamp → b = b'

structure InstOK (H : Ser → List Char) (hist : List Bound) (inst : Inst) : Prop where
  ok : ∀ v, inst.cver = some v → ∃ sym0 : Sym,
        (∀ n b, lookupB sym0 n = some b → b ∈ hist) ∧
        (∃ b, lookupB sym0 inst.name = some b ∧ b.stamp = inst.stamp) ∧
        v = version H (progOf sym0) id inst.name ∧
        inst.snaps = (sortedRules (progOf sym0) id inst.name).map (mkSnap sym0) ∧
        inst.watch = watchOf sym0 inst.name
  nover : inst.cver = none → inst.snaps = []

theorem InstOK.mono {H : Ser → List Char} {hist hist' : List Bound} {inst : Inst} (h : InstOK H hist inst)
    (hsub : ∀ b ∈ hist, b ∈ hist') : InstOK H hist' inst := by
  refine ⟨?_, h.nover⟩
  intro v hv
  obtain ⟨sym0, h1, h2, h3, h4, h5⟩ := h.ok v hv
  exact ⟨sym0, fun n b hb => hsub b (h1 n b hb), h2, h3, h4, h5⟩

/-- definitions of the program class: those that get a hash rule, and functions of other packages (watched without a rule) -/
def watchable (d : Def) : Bool := d.trackable || isForeign d

structure Inv (H : Ser → List Char) (s : St) : Prop where
  inj : StampInj s.hist
  symHist : ∀ n b, lookupB s.sym n = some b → b ∈ s.hist
  below : ∀ b ∈ s.hist, b.stamp < s.next
  track : ∀ b ∈ s.hist, watchable b.d = true
  insts : ∀ inst ∈ s.insts, InstOK H s.hist inst

theorem inv_init (H : Ser → List Char) : Inv H {} := by
  refine ⟨?_, ?_, ?_, ?_, ?_⟩
  · intro b hb; cases hb
  · intro n b h; simp [lookupB] at h
  · intro b hb; cases hb
  · intro b hb; cases hb
  · intro i hi; cases hi

/-- a function the traversal descends into has a function rule -/
theorem mkNode_of_expands {P : Prog} {q r : Name} (h : expands P r = true) :
    ∃ x, mkNode P q r = some x ∧ x.target = r ∧ (x.kind = .mfn ∨ x.kind = .fn) := by
  unfold expands at h
  unfold mkNode
  cases hl : lookup P r with
  | none => simp [hl] at h
  | some d =>
    cases d with
    | memento e t rs => exact ⟨_, rfl, rfl, Or.inl rfl⟩
    | plain b t rs =>
      cases b with
      | true => exact ⟨_, rfl, rfl, Or.inr rfl⟩
      | false => simp [hl] at h
    | var v => simp [hl] at h

/-- every function of the closure is the target of one of the function rules -/
theorem mem_closureFns {P : Prog} {f p : Name} (hp : p = f ∨ (ReachN P f p ∧ expands P p = true)) :
    p ∈ closureFns P f := by
  unfold closureFns
  rcases hp with rfl | ⟨hr, he⟩
  · refine List.mem_map.mpr ⟨rootNode p, List.mem_filter.mpr ⟨?_, by simp [rootNode]⟩, rfl⟩
    exact (mem_rules_nodeOK ordOK_id).mpr (Or.inl rfl)
  · cases hr with
    | direct href =>
      obtain ⟨x, hx, ht, hk⟩ := mkNode_of_expands (q := f) he
      refine List.mem_map.mpr ⟨x, List.mem_filter.mpr ⟨?_, ?_⟩, ht⟩
      · exact (mem_rules_nodeOK ordOK_id).mpr (Or.inr ⟨f, Or.inl rfl, ht ▸ href, ht ▸ hx⟩)
      · rcases hk with hk | hk <;> simp [hk]
    | @step h _ hrh heh href =>
      obtain ⟨x, hx, ht, hk⟩ := mkNode_of_expands (q := h) he
      refine List.mem_map.mpr ⟨x, List.mem_filter.mpr ⟨?_, ?_⟩, ht⟩
      · exact (mem_rules_nodeOK ordOK_id).mpr (Or.inr ⟨h, Or.inr ⟨hrh, heh⟩, ht ▸ href, ht ▸ hx⟩)
      · rcases hk with hk | hk <;> simp [hk]

/-- **no watched symbol was re-bound ⇒ the current program binds every reference without a rule as the recorded one did** -/
theorem no_change_watch {hist : List Bound} (hinj : StampInj hist) (hW : ∀ b ∈ hist, watchable b.d = true)
    {sym sym0 : Sym} {f : Name}
    (hs : ∀ n b, lookupB sym n = some b → b ∈ hist) (h0 : ∀ n b, lookupB sym0 n = some b → b ∈ hist)
    (hnw : ∀ w ∈ watchOf sym0 f, watchChanged sym w = false) :
    WatchAgree (progOf sym) (progOf sym0) f := by
  intro p r hp href hmk
  rw [lookup_progOf, lookup_progOf]
  obtain ⟨d, hd, hr⟩ := href
  -- the reference resolves to a function of another package in the recorded program
  cases hb0 : lookupB sym0 r with
  | none =>
    have : lookup (progOf sym0) r = none := by rw [lookup_progOf, hb0]; rfl
    simp [mkNode, this] at hmk
  | some b0 =>
    have hl : lookup (progOf sym0) r = some b0.d := by rw [lookup_progOf, hb0]; rfl
    have hfor : isForeign b0.d = true := by
      have hw := hW b0 (h0 r b0 hb0)
      unfold mkNode at hmk
      rw [hl] at hmk
      cases hd0 : b0.d with
      | memento e t rs => simp [hd0] at hmk
      | plain b t rs =>
        cases b with
        | true => simp [hd0] at hmk
        | false => rfl
      | var v =>
        cases v with
        | some v => simp [hd0] at hmk
        | none => simp [watchable, Def.trackable, isForeign, hd0] at hw
    have hmem : (r, b0.stamp) ∈ watchOf sym0 f := by
      unfold watchOf
      refine List.mem_flatMap.mpr ⟨p, mem_closureFns hp, ?_⟩
      rw [hd]
      refine List.mem_filterMap.mpr ⟨r, hr, ?_⟩
      simp [hb0, hfor]
    have hnc := hnw _ hmem
    unfold watchChanged at hnc
    cases hb : lookupB sym r with
    | none => simp [hb] at hnc
    | some b =>
      simp only [hb, Bool.not_eq_false', beq_iff_eq] at hnc
      rw [hinj b (hs _ _ hb) b0 (h0 _ _ hb0) hnc]

/-- what a collected rule says about its target -/
theorem mkNode_cases {P : Prog} {p r : Name} {x : Node} (h : mkNode P p r = some x) :
    x.target = r ∧ x.parent = some p ∧
    ((x.kind = .undef ∧ lookup P r = none) ∨ (x.kind = .mfn ∧ ∃ e t rs, lookup P r = some (.memento e t rs)) ∨
     (x.kind = .fn ∧ ∃ t rs, lookup P r = some (.plain true t rs)) ∨ (x.kind = .gvar ∧ ∃ v, lookup P r = some (.var (some v)))) := by
  unfold mkNode at h
  split at h
  · rename_i hl; cases h; exact ⟨rfl, rfl, Or.inl ⟨rfl, hl⟩⟩
  · rename_i e t rs hl; cases h; exact ⟨rfl, rfl, Or.inr (Or.inl ⟨rfl, e, t, rs, hl⟩)⟩
  · rename_i b t rs hl
    split at h
    · rename_i hb; cases h; subst hb; exact ⟨rfl, rfl, Or.inr (Or.inr (Or.inl ⟨rfl, t, rs, hl⟩))⟩
    · cases h
  · rename_i v hl; cases h; exact ⟨rfl, rfl, Or.inr (Or.inr (Or.inr ⟨rfl, v, hl⟩))⟩
  · cases h

/-- **the key lemma**: if none of the rules an instance recorded reports a change against the current symbol
    table, the current program binds every name of the recorded closure as the recorded program did -/
theorem no_change_agree {hist : List Bound} (hinj : StampInj hist) {sym sym0 : Sym} {f : Name}
    (hs : ∀ n b, lookupB sym n = some b → b ∈ hist) (h0 : ∀ n b, lookupB sym0 n = some b → b ∈ hist)
    (hroot : ∃ b b0, lookupB sym f = some b ∧ lookupB sym0 f = some b0 ∧ b.stamp = b0.stamp)
    (hnc : ∀ x ∈ rules (progOf sym0) id f, didChange sym (mkSnap sym0 x) = false) :
    AgreeOn (progOf sym) (progOf sym0) f := by
  intro x hx
  have hd := hnc x hx
  rw [lookup_progOf, lookup_progOf]
  rcases (mem_rules_nodeOK ordOK_id).mp hx with rfl | ⟨p, _, _, hmk⟩
  · obtain ⟨b, b0, hb, hb0, hst⟩ := hroot
    simp only [rootNode]
    rw [hb, hb0, hinj b (hs _ _ hb) b0 (h0 _ _ hb0) hst]
  · obtain ⟨ht, hpar, hc⟩ := mkNode_cases hmk
    rw [lookup_progOf] at hc
    unfold didChange mkSnap at hd
    rcases hc with ⟨hk, hl⟩ | ⟨hk, e, t, rs, hl⟩ | ⟨hk, t, rs, hl⟩ | ⟨hk, v, hl⟩
    · -- undefined then: still undefined now
      cases hb0 : lookupB sym0 x.target with
      | some b0 => simp [hb0] at hl
      | none =>
        simp only [hb0, hk] at hd
        cases hb : lookupB sym x.target with
        | none => rfl
        | some b => simp [hb] at hd
    · cases hb0 : lookupB sym0 x.target with
      | none => simp [hb0] at hl
      | some b0 =>
        simp only [hb0, hk, hpar] at hd
        cases hb : lookupB sym x.target with
        | none => simp [hb] at hd
        | some b =>
          simp only [hb, Bool.not_eq_false', Bool.and_eq_true, beq_iff_eq, Option.some.injEq] at hd
          rw [hinj b (hs _ _ hb) b0 (h0 _ _ hb0) hd.2]
    · cases hb0 : lookupB sym0 x.target with
      | none => simp [hb0] at hl
      | some b0 =>
        simp only [hb0, hk] at hd
        cases hb : lookupB sym x.target with
        | none => simp [hb] at hd
        | some b =>
          simp only [hb, Bool.not_eq_false', beq_iff_eq, Option.some.injEq] at hd
          rw [hinj b (hs _ _ hb) b0 (h0 _ _ hb0) hd]
    · cases hb0 : lookupB sym0 x.target with
      | none => simp [hb0] at hl
      | some b0 =>
        simp only [hb0, Option.map_some, Option.some.injEq] at hl
        simp only [hb0, hk, hl] at hd
        cases hb : lookupB sym x.target with
        | none => simp [hb] at hd
        | some b =>
          obtain ⟨st, d⟩ := b
          cases d with
          | memento _ _ _ => simp [hb] at hd
          | plain _ _ _ => simp [hb] at hd
          | var w =>
            cases w with
            | none => simp [hb] at hd
            | some w =>
              simp only [hb, Bool.not_eq_false', beq_iff_eq, Option.some.injEq] at hd
              simp [hl, hd]


theorem inv_gen {H : Ser → List Char} {s : St} (h : Inv H s) (g : Nat) : Inv H { s with gen := g } :=
  ⟨h.inj, h.symHist, h.below, h.track, h.insts⟩

theorem mem_setInst {l : List Inst} {i : Nat} {x y : Inst} (h : y ∈ setInst l i x) : y = x ∨ y ∈ l := by
  unfold setInst at h
  rcases List.mem_or_eq_of_mem_set h with h | h
  · exact Or.inr h
  · exact Or.inl h

theorem inv_recompute {H : Ser → List Char} {s : St} (h : Inv H s) {i : Nat} {inst : Inst}
    (hroot : ∃ b, lookupB s.sym inst.name = some b ∧ b.stamp = inst.stamp) :
    Inv H (recompute H s i inst).1 := by
  unfold recompute
  refine ⟨h.inj, h.symHist, h.below, h.track, ?_⟩
  intro y hy
  rcases mem_setInst hy with rfl | hy
  · refine ⟨?_, ?_⟩
    · intro v hv
      simp only [Option.some.injEq] at hv
      exact ⟨s.sym, h.symHist, hroot, hv.symm, rfl, rfl⟩
    · intro hv; simp at hv
  · exact h.insts y hy

/-- **no recorded rule changed ⇒ the recorded version is the fresh version** -/
theorem no_change_version {H : Ser → List Char} {s : St} (hinv : Inv H s) {inst : Inst} (hmem : inst ∈ s.insts)
    (hlive : live s inst) {c : List Char} (hc : inst.cver = some c)
    (hnc : inst.snaps.any (didChange s.sym) = false) (hnw : inst.watch.any (watchChanged s.sym) = false) :
    version H (progOf s.sym) id inst.name = c := by
  obtain ⟨sym0, h0, ⟨b0, hb0, hst0⟩, hv, hsn, hwt⟩ := (hinv.insts inst hmem).ok c hc
  obtain ⟨b, hb, hst, _⟩ := hlive
  rw [hv]
  apply version_congr_watch H
  · apply no_change_watch hinv.inj hinv.track hinv.symHist h0
    intro w hw
    have := List.any_eq_false.mp hnw w (by rw [hwt]; exact hw)
    simpa using this
  apply no_change_agree hinv.inj hinv.symHist h0 ⟨b, b0, hb, hb0, hst.trans hst0.symm⟩
  intro x hx
  have hx' : mkSnap sym0 x ∈ inst.snaps := by
    rw [hsn]; exact List.mem_map.mpr ⟨x, mem_sortedRules.mpr hx, rfl⟩
  have := List.any_eq_false.mp hnc _ hx'
  simpa using this

theorem query_fresh {H : Ser → List Char} {s : St} (hinv : Inv H s) {i : Nat} {inst : Inst}
    (hi : s.insts[i]? = some inst) (hlive : live s inst) (hul : s.locked = false ∨ inst.cver = none) :
    (query H s i).2 = some (effectiveVersion H (progOf s.sym) id inst.name) := by
  have hlk0 : (s.locked && inst.cver.isSome) = false := by
    rcases hul with h | h
    · simp [h]
    · simp [h]
  have hmem : inst ∈ s.insts := List.mem_of_getElem? hi
  obtain ⟨b, hb, hst, hm⟩ := hlive
  have hlk : lookup (progOf s.sym) inst.name = some b.d := by rw [lookup_progOf, hb]; rfl
  unfold query
  simp only [hi, hb, hst, beq_self_eq_true, Bool.not_true, Bool.false_eq_true, if_false]
  obtain ⟨st, d⟩ := b
  cases d with
  | plain _ _ _ => simp [isMementoDef] at hm
  | var _ => simp [isMementoDef] at hm
  | memento e tok refs =>
    simp only at hlk
    cases e with
    | some e => simp [effectiveVersion, hlk]
    | none =>
      have hev : effectiveVersion H (progOf s.sym) id inst.name = version H (progOf s.sym) id inst.name := by
        simp [effectiveVersion, hlk]
      rw [hev]
      simp only [hlk0, Bool.false_eq_true, if_false]
      cases hc : cacheGet s.cache inst.name with
      | none => simp [recompute]
      | some gv =>
        obtain ⟨g, v⟩ := gv
        simp only
        split
        · rename_i hcond
          split
          · simp [recompute]
          · rename_i hany
            cases hcv : inst.cver with
            | none =>
              have := (hinv.insts inst hmem).nover hcv
              simp [this] at hcond
            | some c =>
              simp only
              have hboth : (inst.snaps.any (didChange s.sym) || inst.watch.any (watchChanged s.sym)) = false := by
                simpa using hany
              have hnc : inst.snaps.any (didChange s.sym) = false := (Bool.or_eq_false_iff.mp hboth).1
              have hnw : inst.watch.any (watchChanged s.sym) = false := (Bool.or_eq_false_iff.mp hboth).2
              rw [no_change_version hinv hmem ⟨⟨st, _⟩, hb, hst, hm⟩ hcv hnc hnw]
        · simp [recompute]

theorem inv_query {H : Ser → List Char} {s : St} (hinv : Inv H s) (i : Nat) : Inv H (query H s i).1 := by
  unfold query
  cases hi : s.insts[i]? with
  | none => exact hinv
  | some inst =>
    have hmem : inst ∈ s.insts := List.mem_of_getElem? hi
    simp only
    cases hb : lookupB s.sym inst.name with
    | none => exact hinv
    | some b =>
      simp only
      split
      · exact hinv
      · rename_i hst
        have hst' : b.stamp = inst.stamp := by simpa using hst
        have hroot : ∃ b, lookupB s.sym inst.name = some b ∧ b.stamp = inst.stamp := ⟨b, hb, hst'⟩
        split
        · exact hinv
        · split
          · exact hinv
          · cases hc : cacheGet s.cache inst.name with
            | none => exact inv_recompute hinv hroot
            | some gv =>
              obtain ⟨g, v⟩ := gv
              simp only
              split
              · rename_i hcond
                split
                · exact inv_recompute (inv_gen hinv _) hroot
                · cases hcv : inst.cver with
                  | none =>
                    have := (hinv.insts inst hmem).nover hcv
                    simp [this] at hcond
                  | some c => exact hinv
              · exact inv_recompute hinv hroot

theorem lookupB_hist_bind {s : St} {H : Ser → List Char} (hinv : Inv H s) (n : Name) (b : Bound) :
    ∀ m c, lookupB (bind s.sym n b) m = some c → c ∈ b :: s.hist := by
  intro m c hc
  rw [lookupB_bind] at hc
  by_cases h : n = m
  · simp only [h, if_true, Option.some.injEq] at hc
    subst hc; exact List.mem_cons_self
  · simp only [h, if_false] at hc
    exact List.mem_cons_of_mem _ (hinv.symHist m c hc)

theorem inv_define {H : Ser → List Char} {s : St} (hinv : Inv H s) (n : Name) (d : Def) (hd : watchable d = true)
    (extra : List Inst) (hextra : ∀ y ∈ extra, y.cver = none ∧ y.snaps = []) (g : Nat) :
    Inv H { s with sym := bind s.sym n ⟨s.next, d⟩, next := s.next + 1, hist := ⟨s.next, d⟩ :: s.hist, gen := g,
                   insts := s.insts ++ extra } := by
  refine ⟨?_, lookupB_hist_bind hinv n _, ?_, ?_, ?_⟩
  · intro b hb b' hb' hst
    rcases List.mem_cons.mp hb with rfl | hb <;> rcases List.mem_cons.mp hb' with rfl | hb'
    · rfl
    · have := hinv.below b' hb'; simp only at hst; omega
    · have := hinv.below b hb; simp only at hst; omega
    · exact hinv.inj b hb b' hb' hst
  · intro b hb
    rcases List.mem_cons.mp hb with rfl | hb
    · simp
    · have := hinv.below b hb; simp only; omega
  · intro b hb
    rcases List.mem_cons.mp hb with rfl | hb
    · exact hd
    · exact hinv.track b hb
  · intro y hy
    rcases List.mem_append.mp hy with hy | hy
    · exact (hinv.insts y hy).mono (fun b hb => List.mem_cons_of_mem _ hb)
    · obtain ⟨h1, h2⟩ := hextra y hy
      exact ⟨fun v hv => (by rw [h1] at hv; cases hv), fun _ => h2⟩

theorem inv_step {H : Ser → List Char} {s : St} (hinv : Inv H s) (e : Ev) : Inv H (step H s e).1 := by
  cases e with
  | defMemento n ex tok refs =>
    simp only [step]
    split
    · exact ⟨hinv.inj, hinv.symHist, hinv.below, hinv.track, hinv.insts⟩
    · have hdef := inv_define hinv n (.memento ex tok refs) rfl [⟨n, s.next, none, [], []⟩]
        (fun y hy => by rcases List.mem_singleton.mp hy with rfl; exact ⟨rfl, rfl⟩) (s.gen + 1)
      cases ex with
      | some e => exact hdef
      | none =>
        refine inv_recompute hdef ⟨⟨s.next, .memento none tok refs⟩, ?_, rfl⟩
        show lookupB (bind s.sym n ⟨s.next, .memento none tok refs⟩) n = _
        rw [lookupB_bind]; simp
  | defPlain n tok refs =>
    have := inv_define hinv n (.plain true tok refs) rfl [] (fun y hy => by cases hy) s.gen
    simpa [step] using this
  | defForeign n tok =>
    have := inv_define hinv n (.plain false tok []) rfl [] (fun y hy => by cases hy) s.gen
    simpa [step] using this
  | setVar n v =>
    have := inv_define hinv n (.var (some v)) rfl [] (fun y hy => by cases hy) s.gen
    simpa [step] using this
  | clone i =>
    simp only [step]
    cases hi : s.insts[i]? with
    | none => exact hinv
    | some inst =>
      refine ⟨hinv.inj, hinv.symHist, hinv.below, hinv.track, ?_⟩
      intro y hy
      rcases List.mem_append.mp hy with hy | hy
      · exact hinv.insts y hy
      · rcases List.mem_singleton.mp hy with rfl
        exact hinv.insts y (List.mem_of_getElem? hi)
  | wrapper n =>
    simp only [step]
    cases hb : lookupB s.sym n with
    | none => exact hinv
    | some b =>
      refine ⟨hinv.inj, hinv.symHist, hinv.below, hinv.track, ?_⟩
      intro y hy
      rcases List.mem_append.mp hy with hy | hy
      · exact hinv.insts y hy
      · rcases List.mem_singleton.mp hy with rfl
        exact ⟨fun v hv => (by cases hv), fun _ => rfl⟩
  | alias n m =>
    simp only [step]
    cases hb : lookupB s.sym m with
    | none => exact hinv
    | some b =>
      refine ⟨hinv.inj, ?_, hinv.below, hinv.track, hinv.insts⟩
      intro k c hc
      simp only at hc
      rw [lookupB_bind] at hc
      by_cases h : n = k
      · simp only [h, if_true, Option.some.injEq] at hc
        subst hc; exact hinv.symHist m b hb
      · simp only [h, if_false] at hc
        exact hinv.symHist k c hc
  | query i => exact inv_query hinv i
  | lock b => exact ⟨hinv.inj, hinv.symHist, hinv.below, hinv.track, hinv.insts⟩

theorem inv_run {H : Ser → List Char} {s : St} (hinv : Inv H s) (es : List Ev) : Inv H (run H s es) := by
  induction es generalizing s with
  | nil => exact hinv
  | cons e es ih => exact ih (inv_step hinv e)

end Memento.VersionCache
