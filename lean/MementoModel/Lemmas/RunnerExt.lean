import MementoModel.Lemmas.RunnerLemmas

/-!
  Invariants of every evaluation (`Ext`), fuel monotonicity, and independence of the un-memoized
  (disabled-store) semantics from the state it is started in. Core-only.
-/
namespace Memento.Runner

/-- every stored record carries the key it is stored under -/
def Keyed (s : St) : Prop := ∀ k r, s.get k = some r → r.key = k

/-- `s'` is reachable from `s` by evaluation: flag kept, entries only added (never overwritten),
    trace only extended, and only entries of executed keys may have changed -/
structure Ext (s s' : St) : Prop where
  enabled : s'.enabled = s.enabled
  grows : ∀ k r, s.get k = some r → s'.get k = some r
  frame : ∃ t, s'.trace = s.trace ++ t ∧ ∀ k, k ∉ t → s'.get k = s.get k
  keyed : Keyed s → Keyed s'

theorem Ext.refl (s : St) : Ext s s :=
  ⟨rfl, fun _ _ h => h, ⟨[], by simp, fun _ _ => rfl⟩, id⟩

theorem Ext.trans {a b c : St} (h1 : Ext a b) (h2 : Ext b c) : Ext a c := by
  obtain ⟨t1, ht1, hf1⟩ := h1.frame
  obtain ⟨t2, ht2, hf2⟩ := h2.frame
  refine ⟨h2.enabled.trans h1.enabled, fun k r h => h2.grows k r (h1.grows k r h),
    ⟨t1 ++ t2, by rw [ht2, ht1, List.append_assoc], fun k hk => ?_⟩, fun h => h2.keyed (h1.keyed h)⟩
  simp only [List.mem_append, not_or] at hk
  rw [hf2 k hk.2, hf1 k hk.1]

theorem Ext.pushTrace (s : St) (key : Key) : Ext s { s with trace := s.trace ++ [key] } :=
  ⟨rfl, fun _ _ h => h, ⟨[key], rfl, fun _ _ => rfl⟩, id⟩

@[simp] theorem storeAfter_trace (s1 : St) (key : Key) (o : Outcome) (r : Rec) :
    (storeAfter s1 key o r).trace = s1.trace := by
  unfold storeAfter; split
  · rfl
  · split
    · rfl
    · simp

@[simp] theorem storeAfter_enabled (s1 : St) (key : Key) (o : Outcome) (r : Rec) :
    (storeAfter s1 key o r).enabled = s1.enabled := by
  unfold storeAfter; split
  · rfl
  · split
    · rfl
    · simp

theorem storeAfter_cases (s1 : St) (key : Key) (o : Outcome) (r : Rec) :
    storeAfter s1 key o r = s1 ∨ (isNonMemo o = false ∧ s1.get key = none ∧ storeAfter s1 key o r = s1.put key r) := by
  unfold storeAfter
  cases hn : isNonMemo o
  · cases hg : s1.get key
    · right; simp
    · left; simp
  · left; simp

/-- the state after a computed call extends the state before it; the executed key is the first
    new trace entry and only entries of executed keys may have changed -/
theorem Ext.local {s s1 : St} {key : Key} {r : Rec} (o : Outcome) (hr : r.key = key)
    (h : Ext { s with trace := s.trace ++ [key] } s1) :
    Ext s (storeAfter s1 key o r) ∧
    ∃ rest, (storeAfter s1 key o r).trace = s.trace ++ key :: rest ∧
      s1.trace = s.trace ++ key :: rest ∧
      ∀ k, k ∉ rest → s1.get k = s.get k := by
  obtain ⟨t, ht, hf⟩ := h.frame
  have ht' : s1.trace = s.trace ++ key :: t := by rw [ht]; simp
  refine ⟨?_, t, by rw [storeAfter_trace, ht'], ht', fun k hk => by rw [hf k hk]; rfl⟩
  rcases storeAfter_cases s1 key o r with h1 | ⟨_, hg, h1⟩
  · rw [h1]; exact (Ext.pushTrace s key).trans h
  · rw [h1]
    refine ⟨by rw [St.put_enabled]; exact h.enabled, fun k x hx => ?_, ⟨key :: t, by rw [St.put_trace, ht'], fun k hk => ?_⟩, fun hk k x hx => ?_⟩
    · have hx1 : s1.get k = some x := h.grows k x hx
      have hne : k ≠ key := by intro e; rw [e, hg] at hx1; cases hx1
      rw [St.get_put_ne s1 hne]; exact hx1
    · simp only [List.mem_cons, not_or] at hk
      rw [St.get_put_ne s1 hk.1, hf k hk.2]; rfl
    · rcases St.get_put_cases hx with ⟨e1, e2, _⟩ | ⟨_, hx'⟩
      · rw [e1, e2]; exact hr
      · exact h.keyed hk k x hx'

def CalleeExt (callee : St → Frame → Fn → List Val → CtxSpec → Flags → Option BatchResult) : Prop :=
  ∀ s fr fn args ctx fl s1 res recs, callee s fr fn args ctx fl = some (s1, res, recs) → Ext s s1

def ExecExt (exec : Body → St → Frame → Option (St × Outcome × Frame)) : Prop :=
  ∀ b s fr s1 o fr1, exec b s fr = some (s1, o, fr1) → Ext s s1

theorem execBody_ext {callee} (hc : CalleeExt callee) : ExecExt (execBody callee) := by
  intro b
  induction b with
  | ret o =>
    intro s fr s1 o' fr1 h
    simp only [execBody] at h; cases h; exact Ext.refl _
  | resource h k ih =>
    intro s fr s1 o' fr1 h
    simp only [execBody] at h; exact ih _ _ _ _ _ h
  | call fn arg ctx fl k ih =>
    intro s fr s1 o' fr1 h
    obtain ⟨s2, recs, ⟨e, hc1, h2⟩ | ⟨o, hc1, h2⟩⟩ := execBody_call_inv h
    · exact (hc _ _ _ _ _ _ _ _ _ hc1).trans (ih _ _ _ _ _ _ h2)
    · exact (hc _ _ _ _ _ _ _ _ _ hc1).trans (ih _ _ _ _ _ _ h2)
  | batch fn args ctx fl k ih =>
    intro s fr s1 o' fr1 h
    obtain ⟨s2, r, recs, hc1, h2⟩ := execBody_batch_inv h
    exact (hc _ _ _ _ _ _ _ _ _ hc1).trans (ih _ _ _ _ _ _ h2)

/-- inversion of a computed `runLocal` -/
theorem runLocal_miss_inv {P : Prog} {exec} {s s2 : St} {key : Key} {fl : Flags} {o : Outcome} {r : Rec}
    (hg : s.get key = none) (h : runLocal P exec s key fl = some (s2, o, r)) :
    ∃ s1 ob fr1, exec (P.body key.fn key.arg) { s with trace := s.trace ++ [key] } (fr0 key fl.prevent) = some (s1, ob, fr1) ∧
      r = mkRec key ob fr1 ∧ o = deliver fl ob ∧ s2 = storeAfter s1 key ob r := by
  rw [runLocal_miss hg] at h
  split at h
  · cases h
  · rename_i s1 ob fr1 he
    cases h
    exact ⟨s1, ob, fr1, he, rfl, rfl, rfl⟩

theorem runLocal_ext {P : Prog} {exec} (he : ExecExt exec) {s s2 : St} {key : Key} {fl : Flags} {o : Outcome} {r : Rec}
    (h : runLocal P exec s key fl = some (s2, o, r)) : Ext s s2 ∧ (Keyed s → r.key = key) := by
  cases hg : s.get key with
  | some r0 =>
    rw [runLocal_hit hg] at h; cases h
    exact ⟨Ext.refl _, fun hk => hk _ _ hg⟩
  | none =>
    obtain ⟨s1, ob, fr1, hx, hr, _, hs⟩ := runLocal_miss_inv hg h
    subst hs
    have hk : r.key = key := by rw [hr]; rfl
    exact ⟨(Ext.local ob hk (he _ _ _ _ _ _ hx)).1, fun _ => hk⟩

theorem batchLoop_ext {P : Prog} {exec} (he : ExecExt exec) {fl : Flags} :
    ∀ (pre : List (Key × Option Rec)) {s s' : St} {os : List Outcome} {rs : List Rec},
      batchLoop P exec fl s pre = some (s', os, rs) → Ext s s'
  | [], s, s', os, rs, h => by simp only [batchLoop] at h; cases h; exact Ext.refl _
  | (key, p) :: rest, s, s', os, rs, h => by
    obtain ⟨s1, o, r, os1, rs1, _, _, hb, hc⟩ := batchLoop_cons_inv h
    have h2 := batchLoop_ext he rest hb
    rcases hc with ⟨_, e, _⟩ | ⟨_, hl⟩
    · rw [e] at h2; exact h2
    · exact (runLocal_ext he hl).1.trans h2

theorem runBatchWith_ext {P : Prog} {exec} (he : ExecExt exec) {s s' : St} {caller : Option Frame} {fn : Fn}
    {args : List Val} {ctx : CtxSpec} {fl : Flags} {res} {recs : List Rec}
    (h : runBatchWith P exec s caller fn args ctx fl = some (s', res, recs)) : Ext s s' := by
  rw [runBatchWith_eq] at h
  split at h
  · cases h; exact Ext.refl _
  · split at h
    · cases h; exact Ext.refl _
    · split at h
      · cases h
      · rename_i hb; cases h; exact batchLoop_ext he _ hb

theorem run_ext (P : Prog) : ∀ (n : Nat) {s s' : St} {caller : Option Frame} {fn : Fn} {args : List Val}
    {ctx : CtxSpec} {fl : Flags} {res} {recs : List Rec},
    run P n s caller fn args ctx fl = some (s', res, recs) → Ext s s'
  | 0, _, _, _, _, _, _, _, _, _, h => by rw [run_zero] at h; cases h
  | n + 1, _, _, _, _, _, _, _, _, _, h => by
    rw [run_succ] at h
    refine runBatchWith_ext (execBody_ext ?_) h
    intro s fr fn args ctx fl s1 res recs hc
    exact run_ext P n hc

theorem E_ext (P : Prog) (n : Nat) : ExecExt (E P n) :=
  execBody_ext (fun _ _ _ _ _ _ _ _ _ hc => run_ext P n hc)

/-! ### keys of the propagated records -/

theorem batchLoop_keys {P : Prog} {exec} (he : ExecExt exec) {fl : Flags} :
    ∀ (pre : List (Key × Option Rec)) {s s' : St} {os : List Outcome} {rs : List Rec},
      Keyed s → (∀ k r, (k, some r) ∈ pre → r.key = k) →
      batchLoop P exec fl s pre = some (s', os, rs) → rs.map (·.key) = pre.map (·.1) ∧ os.length = pre.length
  | [], s, s', os, rs, _, _, h => by simp only [batchLoop] at h; cases h; exact ⟨rfl, rfl⟩
  | (key, p) :: rest, s, s', os, rs, hk, hp, h => by
    obtain ⟨s1, o, r, os1, rs1, e1, e2, hb, hc⟩ := batchLoop_cons_inv h
    subst e1 e2
    have hp' : ∀ k r, (k, some r) ∈ rest → r.key = k := fun k r hm => hp k r (List.mem_cons_of_mem _ hm)
    rcases hc with ⟨e, e', _⟩ | ⟨_, hl⟩
    · subst e e'
      have := batchLoop_keys he rest hk hp' hb
      simp [this.1, this.2, hp key r (List.mem_cons_self ..)]
    · have hl' := runLocal_ext he hl
      have := batchLoop_keys he rest (hl'.1.keyed hk) hp' hb
      simp [this.1, this.2, hl'.2 hk]

/-! ### fuel monotonicity -/

def ExecLe (e e' : Body → St → Frame → Option (St × Outcome × Frame)) : Prop :=
  ∀ b s fr x, e b s fr = some x → e' b s fr = some x

theorem execBody_le {c c' : St → Frame → Fn → List Val → CtxSpec → Flags → Option BatchResult}
    (hc : ∀ s fr fn args ctx fl x, c s fr fn args ctx fl = some x → c' s fr fn args ctx fl = some x) :
    ExecLe (execBody c) (execBody c') := by
  intro b
  induction b with
  | ret o => intro s fr x h; exact h
  | resource h k ih => intro s fr x h; simp only [execBody] at h ⊢; exact ih _ _ _ h
  | call fn arg ctx fl k ih =>
    intro s fr x h
    obtain ⟨s2, recs, ⟨e, hc1, h2⟩ | ⟨o, hc1, h2⟩⟩ := execBody_call_inv h
    · rw [execBody_call_err (hc _ _ _ _ _ _ _ hc1)]; exact ih _ _ _ _ h2
    · rw [execBody_call_ok (hc _ _ _ _ _ _ _ hc1)]; exact ih _ _ _ _ h2
  | batch fn args ctx fl k ih =>
    intro s fr x h
    obtain ⟨s2, r, recs, hc1, h2⟩ := execBody_batch_inv h
    rw [execBody_batch_some (hc _ _ _ _ _ _ _ hc1)]; exact ih _ _ _ _ h2

theorem runLocal_le {P : Prog} {e e'} (he : ExecLe e e') {s : St} {key : Key} {fl : Flags} {x}
    (h : runLocal P e s key fl = some x) : runLocal P e' s key fl = some x := by
  cases hg : s.get key with
  | some r0 => rw [runLocal_hit hg] at h ⊢; exact h
  | none =>
    rw [runLocal_miss hg] at h ⊢
    split at h
    · cases h
    · rename_i s1 ob fr1 hx
      rw [he _ _ _ _ hx]; exact h

theorem batchLoop_le {P : Prog} {e e'} (he : ExecLe e e') {fl : Flags} :
    ∀ (pre : List (Key × Option Rec)) {s : St} {x}, batchLoop P e fl s pre = some x → batchLoop P e' fl s pre = some x
  | [], s, x, h => by simp only [batchLoop] at h ⊢; exact h
  | (key, some r) :: rest, s, x, h => by
    rw [batchLoop_cons_some] at h ⊢
    split at h
    · cases h
    · rename_i hb; rw [batchLoop_le he rest hb]; exact h
  | (key, none) :: rest, s, x, h => by
    rw [batchLoop_cons_none] at h ⊢
    split at h
    · cases h
    · rename_i s1 o r hl
      rw [runLocal_le he hl]
      split at h
      · cases h
      · rename_i hb; simp only; rw [batchLoop_le he rest hb]; exact h

theorem runBatchWith_le {P : Prog} {e e'} (he : ExecLe e e') {s : St} {caller : Option Frame} {fn : Fn}
    {args : List Val} {ctx : CtxSpec} {fl : Flags} {x}
    (h : runBatchWith P e s caller fn args ctx fl = some x) : runBatchWith P e' s caller fn args ctx fl = some x := by
  rw [runBatchWith_eq] at h ⊢
  split at h
  · rename_i hu; rw [if_pos hu]; exact h
  · rename_i hu; rw [if_neg hu]
    split at h
    · rename_i hp; rw [if_pos hp]; exact h
    · rename_i hp; rw [if_neg hp]
      split at h
      · cases h
      · rename_i hb; rw [batchLoop_le he _ hb]; exact h

theorem run_mono_succ (P : Prog) : ∀ (n : Nat) {s : St} {c : Option Frame} {fn : Fn} {args : List Val} {ctx : CtxSpec}
    {fl : Flags} {x}, run P n s c fn args ctx fl = some x → run P (n + 1) s c fn args ctx fl = some x
  | 0, _, _, _, _, _, _, _, h => by rw [run_zero] at h; cases h
  | n + 1, _, _, _, _, _, _, _, h => by
    rw [run_succ] at h ⊢
    refine runBatchWith_le (execBody_le ?_) h
    intro s fr fn args ctx fl x hc
    exact run_mono_succ P n hc

theorem run_le (P : Prog) {n m : Nat} (hnm : n ≤ m) {s : St} {c : Option Frame} {fn : Fn} {args : List Val}
    {ctx : CtxSpec} {fl : Flags} {x} (h : run P n s c fn args ctx fl = some x) :
    run P m s c fn args ctx fl = some x := by
  induction hnm with
  | refl => exact h
  | step _ ih => exact run_mono_succ P _ ih

theorem E_le (P : Prog) {n m : Nat} (hnm : n ≤ m) : ExecLe (E P n) (E P m) :=
  execBody_le (fun _ _ _ _ _ _ _ hc => run_le P hnm hc)

/-! ### the un-memoized semantics does not depend on the state it starts in -/

def Dis (s : St) : Prop := s.enabled = false

def CalleeInd (callee : St → Frame → Fn → List Val → CtxSpec → Flags → Option BatchResult) : Prop :=
  ∀ s1 s2 fr fn args ctx fl s1' res recs, Dis s1 → Dis s2 → callee s1 fr fn args ctx fl = some (s1', res, recs) →
    Dis s1' ∧ ∃ s2', Dis s2' ∧ callee s2 fr fn args ctx fl = some (s2', res, recs)

def ExecInd (exec : Body → St → Frame → Option (St × Outcome × Frame)) : Prop :=
  ∀ b s1 s2 fr s1' o fr', Dis s1 → Dis s2 → exec b s1 fr = some (s1', o, fr') →
    Dis s1' ∧ ∃ s2', Dis s2' ∧ exec b s2 fr = some (s2', o, fr')

theorem execBody_ind {callee} (hc : CalleeInd callee) : ExecInd (execBody callee) := by
  intro b
  induction b with
  | ret o =>
    intro s1 s2 fr s1' o' fr' h1 h2 h
    simp only [execBody] at h; cases h
    exact ⟨h1, s2, h2, rfl⟩
  | resource h k ih =>
    intro s1 s2 fr s1' o' fr' h1 h2 h
    simp only [execBody] at h ⊢; exact ih _ _ _ _ _ _ h1 h2 h
  | call fn arg ctx fl k ih =>
    intro s1 s2 fr s1' o' fr' h1 h2 h
    obtain ⟨sa, recs, ⟨e, hc1, hx⟩ | ⟨o, hc1, hx⟩⟩ := execBody_call_inv h
    · obtain ⟨hd, sb, hdb, hc2⟩ := hc _ s2 _ _ _ _ _ _ _ _ h1 h2 hc1
      rw [execBody_call_err hc2]; exact ih _ _ _ _ _ _ _ hd hdb hx
    · obtain ⟨hd, sb, hdb, hc2⟩ := hc _ s2 _ _ _ _ _ _ _ _ h1 h2 hc1
      rw [execBody_call_ok hc2]; exact ih _ _ _ _ _ _ _ hd hdb hx
  | batch fn args ctx fl k ih =>
    intro s1 s2 fr s1' o' fr' h1 h2 h
    obtain ⟨sa, r, recs, hc1, hx⟩ := execBody_batch_inv h
    obtain ⟨hd, sb, hdb, hc2⟩ := hc _ s2 _ _ _ _ _ _ _ _ h1 h2 hc1
    rw [execBody_batch_some hc2]; exact ih _ _ _ _ _ _ _ hd hdb hx

theorem storeAfter_dis {s1 : St} (h : Dis s1) (key : Key) (o : Outcome) (r : Rec) : storeAfter s1 key o r = s1 := by
  rcases storeAfter_cases s1 key o r with h1 | ⟨_, _, h1⟩
  · exact h1
  · rw [h1, St.put_disabled h]

theorem runLocal_dis {P : Prog} {exec} {s : St} (hd : Dis s) (key : Key) (fl : Flags) :
    runLocal P exec s key fl =
      match exec (P.body key.fn key.arg) { s with trace := s.trace ++ [key] } (fr0 key fl.prevent) with
      | none => none
      | some (s1, o, fr) => some (storeAfter s1 key o (mkRec key o fr), deliver fl o, mkRec key o fr) :=
  runLocal_miss (St.get_disabled hd key)

theorem runLocal_ind {P : Prog} {exec} (he : ExecInd exec) {s1 s2 s1' : St} {key : Key} {fl : Flags} {o : Outcome} {r : Rec}
    (h1 : Dis s1) (h2 : Dis s2) (h : runLocal P exec s1 key fl = some (s1', o, r)) :
    Dis s1' ∧ ∃ s2', Dis s2' ∧ runLocal P exec s2 key fl = some (s2', o, r) := by
  rw [runLocal_dis h1] at h
  rw [runLocal_dis h2]
  split at h
  · cases h
  · rename_i sa ob fr1 hx
    have h1' : Dis { s1 with trace := s1.trace ++ [key] } := h1
    have h2' : Dis { s2 with trace := s2.trace ++ [key] } := h2
    obtain ⟨hda, sb, hdb, hx2⟩ := he _ _ _ _ _ _ _ h1' h2' hx
    rw [hx2]
    cases h
    simp only [storeAfter_dis hda, storeAfter_dis hdb]
    exact ⟨hda, sb, hdb, rfl⟩

theorem batchLoop_ind {P : Prog} {exec} (he : ExecInd exec) {fl : Flags} :
    ∀ (keys : List Key) {s1 s2 s1' : St} {os : List Outcome} {rs : List Rec}, Dis s1 → Dis s2 →
      batchLoop P exec fl s1 (keys.map (fun k => (k, none))) = some (s1', os, rs) →
      Dis s1' ∧ ∃ s2', Dis s2' ∧ batchLoop P exec fl s2 (keys.map (fun k => (k, none))) = some (s2', os, rs)
  | [], s1, s2, s1', os, rs, h1, h2, h => by
    simp only [List.map_nil, batchLoop] at h ⊢; cases h; exact ⟨h1, s2, h2, rfl⟩
  | key :: rest, s1, s2, s1', os, rs, h1, h2, h => by
    simp only [List.map_cons] at h ⊢
    rw [batchLoop_cons_none] at h ⊢
    split at h
    · cases h
    · rename_i sa o r hl
      obtain ⟨hda, sb, hdb, hl2⟩ := runLocal_ind he h1 h2 hl
      rw [hl2]
      split at h
      · cases h
      · rename_i sc os1 rs1 hb
        obtain ⟨hdc, sd, hdd, hb2⟩ := batchLoop_ind he rest hda hdb hb
        simp only [hb2]
        cases h
        exact ⟨hdc, sd, hdd, rfl⟩

theorem preDis {s : St} (h : Dis s) (f : Val → Key) (args : List Val) :
    args.map (fun a => (f a, s.get (f a))) = (args.map f).map (fun k => (k, none)) := by
  simp [List.map_map, Function.comp_def, St.get_disabled h]

theorem runBatchWith_ind {P : Prog} {exec} (he : ExecInd exec) {s1 s2 s1' : St} {caller : Option Frame} {fn : Fn}
    {args : List Val} {ctx : CtxSpec} {fl : Flags} {res} {recs : List Rec} (h1 : Dis s1) (h2 : Dis s2)
    (h : runBatchWith P exec s1 caller fn args ctx fl = some (s1', res, recs)) :
    Dis s1' ∧ ∃ s2', Dis s2' ∧ runBatchWith P exec s2 caller fn args ctx fl = some (s2', res, recs) := by
  rw [runBatchWith_eq] at h ⊢
  split at h
  · rename_i hu; rw [if_pos hu]; cases h; exact ⟨h1, s2, h2, rfl⟩
  · rename_i hu; rw [if_neg hu]
    split at h
    · rename_i hp; rw [if_pos hp]; cases h; exact ⟨h1, s2, h2, rfl⟩
    · rename_i hp; rw [if_neg hp]
      rw [preDis h1 (fun a => (⟨fn, a, effCtx caller ctx⟩ : Key))] at h
      rw [preDis h2 (fun a => (⟨fn, a, effCtx caller ctx⟩ : Key))]
      split at h
      · cases h
      · rename_i sa os rs hb
        obtain ⟨hda, sb, hdb, hb2⟩ := batchLoop_ind he _ h1 h2 hb
        simp only [hb2]
        cases h
        exact ⟨hda, sb, hdb, rfl⟩

theorem run_ind (P : Prog) : ∀ (n : Nat) {s1 s2 s1' : St} {caller : Option Frame} {fn : Fn} {args : List Val}
    {ctx : CtxSpec} {fl : Flags} {res} {recs : List Rec}, Dis s1 → Dis s2 →
    run P n s1 caller fn args ctx fl = some (s1', res, recs) →
    Dis s1' ∧ ∃ s2', Dis s2' ∧ run P n s2 caller fn args ctx fl = some (s2', res, recs)
  | 0, _, _, _, _, _, _, _, _, _, _, _, _, h => by rw [run_zero] at h; cases h
  | n + 1, _, _, _, _, _, _, _, _, _, _, h1, h2, h => by
    rw [run_succ] at h ⊢
    refine runBatchWith_ind (execBody_ind ?_) h1 h2 h
    intro s1 s2 fr fn args ctx fl s1' res recs h1 h2 hc
    exact run_ind P n h1 h2 hc

theorem E_ind (P : Prog) (n : Nat) : ExecInd (E P n) :=
  execBody_ind (fun _ _ _ _ _ _ _ _ _ _ h1 h2 hc => run_ind P n h1 h2 hc)

end Memento.Runner
