import MementoModel.Model.Store
/-
  Crash / fault model of `memoize` on the filesystem store (C08).

  `memoize` issues a sequence of *primitive* mutations (storage_base.py:1420-1438,
  storage_filesystem.py `output` / `_write_non_versioned_link`):
      for every blob of the result (partition members, then the index / the value itself)
        unless an object for the content key is already linked:
          write version file  c/.versions/<uuid>/<sha>          (open, write, close)
          write temp file     .tmp/<uuid>.link                   (open, write, close)
          rename temp file →  c/<sha>.link                       (atomic)
      write version file  m/<qn>/.versions/<uuid>/<hash>.memento.json
      write temp file, rename → m/<qn>/<hash>.memento.json.link
  (directory creations are invisible at this level.)

  A *variant* is a prefix of that sequence, optionally followed by a *torn* execution of the
  next primitive (the process died, or an I/O error was raised, in the middle of the file write).
-/
namespace Memento.Store
open Memento

inductive Prim
  | writeObj (k : K) (v : Ver) (c : Content)   -- a version file, complete
  | writeTmp                                    -- the temporary link file
  | replaceLink (k : K) (v : Ver)               -- os.replace(tmp, <key>.link)
  | removeLink (k : K)                          -- os.unlink(<key>.link)   (null result under an override key)
deriving DecidableEq, Repr

namespace Prim

/-- complete execution -/
def apply (d : DS) : Prim → DS
  | .writeObj k v c => { d with objs := ((k, v), c) :: d.objs, next := max d.next (v + 1) }
  | .writeTmp => d
  | .replaceLink k v => { d with links := aset d.links k v }
  | .removeLink k => { d with links := adel d.links k }

/-- execution cut in the middle of the file write (renames / unlinks are atomic: not executed) -/
def applyTorn (d : DS) : Prim → DS
  | .writeObj k v _ => { d with objs := ((k, v), .torn) :: d.objs, next := max d.next (v + 1) }
  | .writeTmp => d
  | .replaceLink _ _ => d
  | .removeLink _ => d

end Prim

/-- a memoize request at the storage level: the blobs to store (for a partition: the members,
    then the index; for a plain value: the value; for the null result: none), under an optional
    key override, and the memento to record -/
structure Request where
  fn : Fn
  arg : Arg
  override : Option Nat
  mem : Nat
  blobs : List Bytes        -- all but the last are partition members; the last is what the memento names
deriving Repr

/-- primitives for storing one blob; returns the content key the blob ends up under -/
def blobPrims (d : DS) (override : Option Nat) (b : Bytes) (v : Ver) : List Prim × (K × Ver) × Ver :=
  match override with
  | some o => ([.writeObj (.override o) v (.blob b), .writeTmp, .replaceLink (.override o) v], (.override o, v), v + 1)
  | none =>
    if d.existsNV (.content b) then
      match d.getVersioned (.content b) with
      | some v0 => ([], (.content b, v0), v)
      | none => ([], (.content b, v), v)
    else ([.writeObj (.content b) v (.blob b), .writeTmp, .replaceLink (.content b) v], (.content b, v), v + 1)

/-- the primitives of the data part, threading the store (a later blob may dedup against an earlier one) -/
def dataPrims (d : DS) (override : Option Nat) : List Bytes → Ver → List Prim × Option (K × Ver) × DS × Ver
  | [], v => ([], none, d, v)
  | b :: bs, v =>
    -- partition members are stored under `<override>/<key>`; we keep one override id per request:
    -- members of an overridden partition are always rewritten, like the index
    let (ps, ck, v') := blobPrims d override b v
    let d' := ps.foldl Prim.apply d
    match bs with
    | [] => (ps, some ck, d', v')
    | _ =>
      let (ps2, ck2, d2, v2) := dataPrims d' override bs v'
      (ps ++ ps2, ck2, d2, v2)

/-- the whole primitive sequence of `memoize` (store not read-only, no cache involved) -/
def memoizePrims (d : DS) (r : Request) : List Prim :=
  match r.blobs with
  | [] =>
    let pre := match r.override with
      | some o => if (alookup d.links (.override o)).isSome then [Prim.removeLink (.override o)] else []
      | none => []
    pre ++ [.writeObj (.memento r.fn r.arg) d.next (.mrec r.mem none), .writeTmp, .replaceLink (.memento r.fn r.arg) d.next]
  | _ =>
    let (ps, ck, _, v) := dataPrims d r.override r.blobs d.next
    ps ++ [.writeObj (.memento r.fn r.arg) v (.mrec r.mem ck), .writeTmp, .replaceLink (.memento r.fn r.arg) v]

/-- the store after `n` complete primitives, then (if `torn`) a torn execution of the next one -/
def variant (d : DS) (ps : List Prim) (n : Nat) (torn : Bool) : DS :=
  let d' := (ps.take n).foldl Prim.apply d
  if torn then
    match ps[n]? with
    | some p => p.applyTorn d'
    | none => d'
  else d'

/-! ### the read path of a later call (fresh process, no cache) -/

inductive CallOut
  | served (v : Option Bytes)        -- read back from the store, body not executed
  | computed                         -- body executed (and the result memoized again)
  | raised                           -- an exception other than IOError escaped to the caller
deriving DecidableEq, Repr

/-- `get_memento` → `process_existing_memento` (IOError ⇒ recompute) -/
def callOutcome (d : DS) (fn : Fn) (arg : Arg) : CallOut :=
  match d.inputNV (.memento fn arg) with
  | none => .computed                                  -- no link / dangling link: IOError ⇒ None ⇒ compute
  | some (.mrec _ ck) =>
    match ck with
    | none => .served none
    | some (k, v) =>
      match d.inputV k v with
      | none => .computed                              -- IOError while reading the result ⇒ recompute
      | some (.blob b) => .served (some b)
      | some _ => .raised                              -- truncated pickle / wrong document: not an IOError
  | some _ => .raised                                  -- truncated memento JSON: JSONDecodeError escapes

/-- `is_memoized` gate before `memoize` when recomputing -/
def gateOpen (d : DS) (fn : Fn) (arg : Arg) : Bool := !(d.existsNV (.memento fn arg))

end Memento.Store
