import MementoModel.Model.Cache

/-!
# Model of concurrent callers (`runner_local.py`: `_mutex_for_invocation`, `batch_run` pre-check,
`memento_run_local`; `MemoryCache` with its lock, fix F9)

A labelled transition system. Threads call (leaf) memento functions; the shared state is the store
(which calls are memoized), the per-call mutex table, the execution counters and the memory cache.
The events are the shared-state access points of the runner, in the order the code performs them:

  start → pre-check outside the mutex (`batch_run`: bulk `get_mementos`) → [hit: served] |
  acquire the per-call mutex → lookup inside the mutex (`get_memento`) → [hit: served] |
  execute the body → memoize → release

plus `cacheOp`: any method of the memory cache, which is one atomic step since the cache's methods are
serialized by a lock (F9). An event is *enabled* only where the code can perform it; `step` returns
`none` for an event that is not enabled (the trace acceptor of the correspondence check, and the
transition relation of the theorems, are this one function). Any number of threads and keys.

Nested invocations: a "thread" of this model is an *invocation* (a frame). A body that calls another memento
function starts a new model thread which runs the same protocol between the caller's `exec` and `memoize` events
(both are separate events, so anything may happen in between); the caller simply takes no step meanwhile, which is a
restriction of the schedules and keeps every safety theorem. The per-call mutexes are re-entrant in the code, but keys
within one call stack are distinct (a function calling itself with the same arguments never terminates), so
re-entrancy is never used and a frame sees the mutex as a plain lock. `progress` (no deadlock) is stated for threads
that take no nested steps.
-/
namespace Memento.Conc

abbrev Tid := Nat
abbrev K := Nat

inductive Pc | idle | started | wantLock | locked | missed | executed | stored
deriving DecidableEq, Repr

structure St where
  pc : Tid → Pc
  key : Tid → K
  memo : K → Bool
  holder : K → Option Tid
  execs : K → Nat
  completed : K → Bool          -- ghost: some call of k has returned to its caller
  cache : Cache.State

def upd {α} (f : Nat → α) (i : Nat) (v : α) : Nat → α := fun j => if j = i then v else f j

inductive Ev
  | start (t : Tid) (k : K)
  | pre (t : Tid) (hit : Bool)
  | acq (t : Tid)
  | lookup (t : Tid) (hit : Bool)
  | exec (t : Tid)
  | memoize (t : Tid)
  | rel (t : Tid)
  | cacheOp (t : Tid) (op : Cache.Op)

def step (s : St) : Ev → Option St
  | .start t k =>
    if s.pc t = .idle then some { s with pc := upd s.pc t .started, key := upd s.key t k }
    else none
  | .pre t hit =>
    if s.pc t = .started ∧ hit = s.memo (s.key t) then
      some { s with pc := upd s.pc t (if hit then .idle else .wantLock),
                    completed := if hit then upd s.completed (s.key t) true else s.completed }
    else none
  | .acq t =>
    if s.pc t = .wantLock ∧ s.holder (s.key t) = none then
      some { s with pc := upd s.pc t .locked, holder := upd s.holder (s.key t) (some t) }
    else none
  | .lookup t hit =>
    if s.pc t = .locked ∧ hit = s.memo (s.key t) then
      some { s with pc := upd s.pc t (if hit then .stored else .missed) }
    else none
  | .exec t =>
    if s.pc t = .missed then
      some { s with pc := upd s.pc t .executed, execs := upd s.execs (s.key t) (s.execs (s.key t) + 1) }
    else none
  | .memoize t =>
    if s.pc t = .executed then some { s with pc := upd s.pc t .stored, memo := upd s.memo (s.key t) true }
    else none
  | .rel t =>
    if s.pc t = .stored then
      some { s with pc := upd s.pc t .idle, holder := upd s.holder (s.key t) none, completed := upd s.completed (s.key t) true }
    else none
  | .cacheOp _ op => some { s with cache := (Cache.step s.cache op).1 }

/-- run a trace; `none` as soon as an event is not enabled -/
def run (s : St) : List Ev → Option St
  | [] => some s
  | e :: es => match step s e with
    | some s' => run s' es
    | none => none

def init (memo0 : K → Bool) (budget : Nat) : St :=
  { pc := fun _ => .idle, key := fun _ => 0, memo := memo0, holder := fun _ => none, execs := fun _ => 0,
    completed := fun _ => false, cache := Cache.init budget }

def inCrit : Pc → Bool
  | .locked | .missed | .executed | .stored => true
  | _ => false

end Memento.Conc
