import MementoModel.Model.Cache
/-
  Storage layer models.

  * `Spec`        — the abstract dictionary of memoized calls (the property's own words).
  * `MemBackend`  — `MemoryStorageBackend` (storage_memory.py).
  * `DS`          — a versioned key/object store: what `_FilesystemDataSource` implements
                    (objects `dir/.versions/<uuid>/<base>`, links `dir/<base>.link`).
  * `FsBackend`   — `FilesystemStorageBackend` = `StorageBackendBase` over
                    `DataSourceMetadataSource` + data `DS` + optional `MemoryCache`.

  Keys are *structured* (`K`); that their string renderings (`m/<qn>/<hash>.memento.json`, …)
  are injective and that the prefix/suffix tests of the listing code select exactly the
  intended keys is proved at character level in `Lemmas/Paths.lean`.
  Core-only.
-/
namespace Memento.Store
open Memento

abbrev Fn := Nat      -- qualified function name incl. version
abbrev Arg := Nat     -- argument hash
abbrev MKey := Nat    -- custom metadata key
abbrev Bytes := Nat   -- identity of a byte string (equal ids ⇔ equal bytes ⇔ equal SHA-256, `H` idealised)
abbrev Ver := Nat     -- uuid of a stored version (fresh counter)

/-! ## The abstract dictionary -/

structure Entry where
  mem : Nat           -- the memento recorded for the call
  val : Option Bytes  -- the value's serialised bytes; `none` = the null result
deriving DecidableEq, Repr

structure Spec where
  entries : List ((Fn × Arg) × Entry)
  mdata   : List ((Fn × Arg × MKey) × Bytes)
deriving Repr

def Spec.empty : Spec := ⟨[], []⟩

def alookup {α β} [DecidableEq α] (l : List (α × β)) (a : α) : Option β :=
  (l.find? (fun p => p.1 == a)).map (·.2)

def aset {α β} [DecidableEq α] (l : List (α × β)) (a : α) (b : β) : List (α × β) :=
  (a, b) :: l.filter (fun p => !(p.1 == a))

def adel {α β} [DecidableEq α] (l : List (α × β)) (a : α) : List (α × β) :=
  l.filter (fun p => !(p.1 == a))

/-- insertion sort + dedup, for canonical listings -/
def insertNat (x : Nat) : List Nat → List Nat
  | [] => [x]
  | y :: ys => if x < y then x :: y :: ys else if x = y then y :: ys else y :: insertNat x ys

def sortDedup (l : List Nat) : List Nat := l.foldr insertNat []

inductive Op
  | memoize (fn : Fn) (arg : Arg) (override : Option Nat) (mem : Nat) (val : Option Bytes)
      (size : Nat) (weakrefable : Bool)
  | getm (ks : List (Fn × Arg))
  | lookread (fn : Fn) (arg : Arg)
  | ismem (fn : Fn) (arg : Arg)
  | fcall (fn : Fn) (arg : Arg)
  | ffn (fn : Fn)
  | fall
  | lsf
  | lsm (fn : Fn)
  | wmeta (fn : Fn) (arg : Arg) (k : MKey) (b : Bytes)
  | rmeta (fn : Fn) (arg : Arg) (k : MKey)
  | hold (b : Bytes)     -- the caller keeps / drops a strong reference to a result object
  | drop (b : Bytes)     --   (only matters for the weak references of the memory cache)
deriving Repr

inductive Out
  | unit
  | mems (ms : List (Option Nat))
  | val (v : Option (Option Bytes))     -- none = no memento; some none = null result
  | bool (b : Bool)
  | fns (fs : List Fn)                  -- sorted, distinct
  | memset (ms : List Nat)              -- sorted
  | bytes (b : Option Bytes)
  | valueError
  | ioError
deriving DecidableEq, Repr

namespace Spec

def step (s : Spec) : Op → Spec × Out
  | .memoize fn arg _ mem val _ _ =>
    ({ s with entries := aset s.entries (fn, arg) ⟨mem, val⟩ }, .unit)
  | .getm ks => (s, .mems (ks.map (fun k => (alookup s.entries k).map (·.mem))))
  | .lookread fn arg => (s, .val ((alookup s.entries (fn, arg)).map (·.val)))
  | .ismem fn arg => (s, .bool (alookup s.entries (fn, arg)).isSome)
  | .fcall fn arg =>
    ({ entries := adel s.entries (fn, arg),
       mdata := s.mdata.filter (fun p => !(p.1.1 == fn && p.1.2.1 == arg)) }, .unit)
  | .ffn fn =>
    ({ entries := s.entries.filter (fun p => !(p.1.1 == fn)),
       mdata := s.mdata.filter (fun p => !(p.1.1 == fn)) }, .unit)
  | .fall => (Spec.empty, .unit)
  | .lsf => (s, .fns (sortDedup (s.entries.map (·.1.1))))
  | .lsm fn => (s, .memset (sortDedup ((s.entries.filter (fun p => p.1.1 == fn)).map (·.2.mem))))
  | .wmeta fn arg k b => ({ s with mdata := aset s.mdata (fn, arg, k) b }, .unit)
  | .rmeta fn arg k => (s, .bytes (alookup s.mdata (fn, arg, k)))
  | .hold _ => (s, .unit)
  | .drop _ => (s, .unit)

end Spec

/-- metadata is only ever attached to memoized calls (how the framework uses it) -/
def Op.admissible (s : Spec) : Op → Bool
  | .wmeta fn arg _ _ => (alookup s.entries (fn, arg)).isSome
  | _ => true

/-! ## `MemoryStorageBackend` -/

structure MemBackend where
  mementos : List ((Fn × Arg) × Nat)          -- `mementos[qn][arg_hash]`
  result   : List ((Fn × Arg) × Option Bytes)  -- `result[qn/arg_hash]`
  metadata : List ((Fn × Arg × MKey) × Bytes)  -- `metadata[qn/arg_hash][key]`
  readOnly : Bool
deriving Repr

namespace MemBackend

def init (ro : Bool := false) : MemBackend := ⟨[], [], [], ro⟩

def step (s : MemBackend) : Op → MemBackend × Out
  | .memoize fn arg _ mem val _ _ =>
    if s.readOnly then (s, .unit) else
    ({ s with result := aset s.result (fn, arg) val, mementos := aset s.mementos (fn, arg) mem }, .unit)
  | .getm ks => (s, .mems (ks.map (fun k => alookup s.mementos k)))
  | .lookread fn arg =>
    match alookup s.mementos (fn, arg) with
    | none => (s, .val none)
    | some _ => (s, .val (alookup s.result (fn, arg)))
  | .ismem fn arg => (s, .bool (alookup s.mementos (fn, arg)).isSome)
  | .fcall fn arg =>
    if s.readOnly then (s, .valueError) else
    ({ s with mementos := adel s.mementos (fn, arg), result := adel s.result (fn, arg),
              metadata := s.metadata.filter (fun p => !(p.1.1 == fn && p.1.2.1 == arg)) }, .unit)
  | .ffn fn =>
    if s.readOnly then (s, .valueError) else
    -- forget every call of the function; results and metadata are dropped by key prefix `qn/`
    ({ s with mementos := s.mementos.filter (fun p => !(p.1.1 == fn)),
              result := s.result.filter (fun p => !(p.1.1 == fn)),
              metadata := s.metadata.filter (fun p => !(p.1.1 == fn)) }, .unit)
  | .fall => if s.readOnly then (s, .valueError) else ({ s with mementos := [], result := [], metadata := [] }, .unit)
  | .lsf => (s, .fns (sortDedup (s.mementos.map (·.1.1))))
  | .lsm fn => (s, .memset (sortDedup ((s.mementos.filter (fun p => p.1.1 == fn)).map (·.2))))
  | .wmeta fn arg k b =>
    if s.readOnly then (s, .valueError) else ({ s with metadata := aset s.metadata (fn, arg, k) b }, .unit)
  | .rmeta fn arg k => (s, .bytes (alookup s.metadata (fn, arg, k)))
  | .hold _ => (s, .unit)
  | .drop _ => (s, .unit)

def abs (s : MemBackend) : Spec :=
  { entries := s.mementos.map (fun p => (p.1, ⟨p.2, (alookup s.result p.1).getD none⟩)),
    mdata := s.metadata }

end MemBackend

/-! ## `NullStorageBackend`: stateless, never reports anything as memoized -/

def nullStep : Op → Out
  | .getm ks => .mems (ks.map (fun _ => none))
  | .lookread _ _ => .val none
  | .ismem _ _ => .bool false
  | .lsf => .fns []
  | .lsm _ => .memset []
  | .rmeta _ _ _ => .bytes none
  | _ => .unit

/-! ## The versioned object store (`_FilesystemDataSource`) with structured keys -/

inductive K
  | content (h : Bytes)                                   -- `c/<sha256>`
  | override (o : Nat)                                    -- a user key (never under `c/`, `m/`)
  | memento (fn : Fn) (arg : Arg)                         -- `m/<qn>/<arg>.memento.json`
  | mdat (fn : Fn) (arg : Arg) (k : MKey) (withData : Bool) -- `m/<qn>/<arg>.metadata.<k>[.with_data]`
deriving DecidableEq, Repr

def K.isMetaArea : K → Bool
  | .memento .. | .mdat .. => true
  | _ => false

def K.fn? : K → Option Fn
  | .memento fn _ | .mdat fn _ _ _ => some fn
  | _ => none

def K.call? : K → Option (Fn × Arg)
  | .memento fn a | .mdat fn a _ _ => some (fn, a)
  | _ => none

inductive Content
  | blob (b : Bytes)                                   -- a serialised result
  | mrec (mem : Nat) (ck : Option (K × Ver))           -- a memento document (with its content key)
  | raw (b : Bytes)                                    -- custom metadata bytes
  | torn                                               -- an incomplete write (crash / fault)
deriving DecidableEq, Repr

structure DS where
  objs  : List ((K × Ver) × Content)   -- version files
  links : List (K × Ver)               -- `<key>.link` ↦ version it names
  next  : Ver                          -- uuid supply
deriving Repr

namespace DS

def empty : DS := ⟨[], [], 1⟩

/-- `output(key, data)`: fresh uuid, write the version file, then (re)write the link -/
def output (d : DS) (k : K) (c : Content) : DS × Ver :=
  ({ objs := ((k, d.next), c) :: d.objs, links := aset d.links k d.next, next := d.next + 1 }, d.next)

/-- `exists_nonversioned`: the link exists and the file it names exists -/
def existsNV (d : DS) (k : K) : Bool :=
  match alookup d.links k with
  | none => false
  | some v => (alookup d.objs (k, v)).isSome

def getVersioned (d : DS) (k : K) : Option Ver := alookup d.links k

def inputNV (d : DS) (k : K) : Option Content :=
  match alookup d.links k with
  | none => none
  | some v => alookup d.objs (k, v)

def inputV (d : DS) (k : K) (v : Ver) : Option Content := alookup d.objs (k, v)

/-- `delete_nonversioned_key`: only the link -/
def deleteLink (d : DS) (k : K) : DS := { d with links := adel d.links k }

/-- `delete_all_versions(key, recursive=False)`: the link and every version of that key -/
def deleteAll (d : DS) (k : K) : DS :=
  { d with links := adel d.links k, objs := d.objs.filter (fun p => !(p.1.1 == k)) }

/-- delete every key satisfying `sel` (recursive directory deletion) -/
def deleteWhere (d : DS) (sel : K → Bool) : DS :=
  { d with links := d.links.filter (fun p => !(sel p.1)), objs := d.objs.filter (fun p => !(sel p.1.1)) }

end DS

/-! ## `FilesystemStorageBackend` -/

/-- memento heap: what a `Memento` object carries that the read path needs -/
structure MInfo where
  fn  : Fn
  arg : Arg
  ck  : Option (K × Ver)
deriving DecidableEq, Repr

structure FsBackend where
  ds       : DS                        -- data and metadata objects (one store; `separate` only
  separate : Bool                      --   changes what `forget_everything` wipes)
  cache    : Option Cache.State
  heap     : List (Nat × MInfo)        -- memento id ↦ its fields
  readOnly : Bool
  nextObj  : Nat := 1                  -- supply of identities for objects deserialised from the store
  vinfo    : List (Bytes × (Nat × Bool)) := []
    -- data from the environment: `_estimate_object_size` / weak-referenceability of the object
    -- that deserialising these bytes yields (used when a store read fills the cache)

namespace FsBackend

def init (separate : Bool) (cacheBudget : Option Nat) (ro : Bool := false) : FsBackend :=
  { ds := DS.empty, separate, cache := cacheBudget.map Cache.init, heap := [], readOnly := ro }

def ckey (fn : Fn) (arg : Arg) : Cache.Key := ⟨fn, arg⟩

/-- `BlobStrategy.store` / `NullStrategy.store` -/
def codecStore (d : DS) (override : Option Nat) (val : Option Bytes) : DS × Option (K × Ver) :=
  match val with
  | none =>
    match override with
    | some o => (d.deleteLink (.override o), none)
    | none => (d, none)
  | some b =>
    match override with
    | some o => let (d', v) := d.output (.override o) (.blob b); (d', some (.override o, v))
    | none =>
      if d.existsNV (.content b) then
        match d.getVersioned (.content b) with
        | some v => (d, some (.content b, v))
        | none => (d, none)   -- unreachable: existsNV implies a link
      else let (d', v) := d.output (.content b) (.blob b); (d', some (.content b, v))

/-- `DataSourceMetadataSource._read_memento` via `get_mementos` (IOError ⇒ None) -/
def readMemento (d : DS) (fn : Fn) (arg : Arg) : Option (Nat × Option (K × Ver)) :=
  match d.inputNV (.memento fn arg) with
  | some (.mrec m ck) => some (m, ck)
  | _ => none

/-- `codec.load(result_type, data_source, content_key)`; `none` = IOError -/
def loadResult (d : DS) (ck : Option (K × Ver)) : Option (Option Bytes) :=
  match ck with
  | none => some none                      -- null result: nothing is read
  | some (k, v) =>
    match d.inputV k v with
    | some (.blob b) => some (some b)
    | _ => none

/-- identity of a result object in the cache model: `bytes id + 1 + 10^6 * generation`
    (0 is `None`); generation 0 = the object the caller passed to `memoize`, generation `n > 0` =
    the n-th object deserialised from the store. -/
def objId (val : Option Bytes) (gen : Nat) : Nat :=
  match val with
  | some b => b + 1 + 1000000 * gen
  | none => 0

def objBytes (v : Nat) : Option Bytes := if v = 0 then none else some (v % 1000000 - 1)

def cachePut (s : FsBackend) (fn : Fn) (arg : Arg) (mem : Nat) (val : Option Bytes) (size : Nat)
    (wr hasResult : Bool) (gen : Nat := 0) : FsBackend :=
  match s.cache with
  | none => s
  | some c =>
    { s with cache := some (Cache.prune (Cache.put c (ckey fn arg) mem (objId val gen) size wr hasResult none)) }

/-- the cache phase of `get_mementos`: looked up for *all* keys before anything else happens -/
def cacheLookup (s : FsBackend) (fn : Fn) (arg : Arg) : Option Nat :=
  match s.cache with
  | none => none
  | some c => (Cache.lookup c.cache (ckey fn arg)).map (·.mem)

/-- the store phase for one cache miss: read the memento document; on success remember the
    memento object and put a memento-only entry (size 16 = `sys.getsizeof(None)`) in the cache -/
def fetchMemento (s : FsBackend) (fn : Fn) (arg : Arg) : FsBackend × Option Nat :=
  match readMemento s.ds fn arg with
  | none => (s, none)
  | some (m, ck) =>
    let s' := { s with heap := aset s.heap m ⟨fn, arg, ck⟩ }
    (cachePut s' fn arg m none 16 false false, some m)

def mergeMementos (s : FsBackend) : List ((Fn × Arg) × Option Nat) → FsBackend × List (Option Nat)
  | [] => (s, [])
  | ((fn, arg), cached) :: rest =>
    match cached with
    | some m => let (s2, ms) := mergeMementos s rest; (s2, some m :: ms)
    | none =>
      let (s1, m) := fetchMemento s fn arg
      let (s2, ms) := mergeMementos s1 rest
      (s2, m :: ms)

/-- `StorageBackendBase.get_mementos` -/
def getMementos (s : FsBackend) (ks : List (Fn × Arg)) : FsBackend × List (Option Nat) :=
  mergeMementos s (ks.map (fun k => (k, cacheLookup s k.1 k.2)))

def getMemento (s : FsBackend) (fn : Fn) (arg : Arg) : FsBackend × Option Nat :=
  match getMementos s [(fn, arg)] with
  | (s', [m]) => (s', m)
  | (s', _) => (s', none)

/-- `StorageBackendBase.read_result(memento)`; `none` = IOError escapes -/
def readResult (s : FsBackend) (mem : Nat) (size : Nat) (wr : Bool) : FsBackend × Option (Option Bytes) :=
  match alookup s.heap mem with
  | none => (s, none)
  | some mi =>
    let fromStore : FsBackend × Option (Option Bytes) :=
      match loadResult s.ds mi.ck with
      | none => (s, none)
      | some v => ({ cachePut s mi.fn mi.arg mem v size wr true s.nextObj with nextObj := s.nextObj + 1 }, some v)
    match s.cache with
    | none => fromStore
    | some c =>
      match Cache.readResult c (ckey mi.fn mi.arg) with
      | (c', .value v) => ({ s with cache := some (Cache.prune c') }, some (objBytes v))
      | (_, .keyError) => fromStore

def isMemoized (s : FsBackend) (fn : Fn) (arg : Arg) : FsBackend × Bool :=
  match s.cache with
  | none => (s, s.ds.existsNV (.memento fn arg))
  | some c =>
    match Cache.isMemoized c (ckey fn arg) with
    | (c', true) => ({ s with cache := some (Cache.prune c') }, true)
    | (_, false) => (s, s.ds.existsNV (.memento fn arg))

def mapCache (s : FsBackend) (f : Cache.State → Cache.State) : FsBackend :=
  { s with cache := s.cache.map (fun c => Cache.prune (f c)) }

def sizeOf (s : FsBackend) (v : Option Bytes) : Nat :=
  match v with
  | none => 16
  | some b => ((alookup s.vinfo b).map (·.1)).getD 0

def wrOf (s : FsBackend) (v : Option Bytes) : Bool :=
  match v with
  | none => false
  | some b => ((alookup s.vinfo b).map (·.2)).getD false

def step (s : FsBackend) : Op → FsBackend × Out
  | .memoize fn arg override mem val size wr =>
    if s.readOnly then (s, .unit) else
    let s1 := cachePut s fn arg mem val size wr true           -- write-through first
    let (d1, ck) := codecStore s1.ds override val              -- then the data
    let (d2, _) := d1.output (.memento fn arg) (.mrec mem ck)  -- then the memento
    ({ s1 with ds := d2, heap := aset s1.heap mem ⟨fn, arg, ck⟩ }, .unit)
  | .getm ks => let (s', ms) := getMementos s ks; (s', .mems ms)
  | .lookread fn arg =>
    match getMemento s fn arg with
    | (s1, none) => (s1, .val none)
    | (s1, some m) =>
      -- the size of the value that will be put in the cache on a store read
      let v? := match alookup s1.heap m with
        | some mi => (loadResult s1.ds mi.ck).getD none
        | none => none
      match readResult s1 m (sizeOf s1 v?) (wrOf s1 v?) with
      | (s2, some v) => (s2, .val (some v))
      | (s2, none) => (s2, .ioError)     -- an IOError escaping (never on well-formed stores)
  | .ismem fn arg => let (s', b) := isMemoized s fn arg; (s', .bool b)
  | .fcall fn arg =>
    if s.readOnly then (s, .valueError) else
    let s1 := mapCache s (fun c => Cache.forgetCall c (ckey fn arg))
    ({ s1 with ds := s1.ds.deleteWhere (fun k => k.call? == some (fn, arg)) }, .unit)
  | .ffn fn =>
    if s.readOnly then (s, .valueError) else
    let s1 := mapCache s (fun c => Cache.forgetFunction c fn)
    ({ s1 with ds := s1.ds.deleteWhere (fun k => k.fn? == some fn) }, .unit)
  | .fall =>
    if s.readOnly then (s, .valueError) else
    let s1 := mapCache s Cache.forgetEverything
    ({ s1 with ds := s1.ds.deleteWhere (fun k => if s.separate then k.isMetaArea else true) }, .unit)
  | .lsf => (s, .fns (sortDedup (s.ds.links.filterMap (fun p => p.1.fn?))))
  | .lsm fn =>
    let ms := s.ds.links.filterMap (fun p => match p.1 with
      | .memento f a => if f = fn then (readMemento s.ds f a).map (·.1) else none
      | _ => none)
    (s, .memset (sortDedup ms))
  | .wmeta fn arg k b =>
    if s.readOnly then (s, .valueError) else
    let (d, _) := s.ds.output (.mdat fn arg k false) (.raw b)
    ({ s with ds := d }, .unit)
  | .rmeta fn arg k =>
    if s.ds.existsNV (.mdat fn arg k false) then
      match s.ds.inputNV (.mdat fn arg k false) with
      | some (.raw b) => (s, .bytes (some b))
      | _ => (s, .ioError)
    else (s, .bytes none)
  | .hold b => (mapCache s (fun c => Cache.hold c (b + 1)), .unit)
  | .drop b => (mapCache s (fun c => Cache.drop c (b + 1)), .unit)

/-- abstraction to the dictionary: the linked mementos and the bytes their content keys name -/
def abs (s : FsBackend) : Spec :=
  { entries := s.ds.links.filterMap (fun p => match p.1 with
      | .memento fn arg =>
        match readMemento s.ds fn arg with
        | some (m, ck) => some ((fn, arg), ⟨m, (loadResult s.ds ck).getD none⟩)
        | none => none
      | _ => none),
    mdata := s.ds.links.filterMap (fun p => match p.1 with
      | .mdat fn arg k false =>
        match s.ds.inputNV (.mdat fn arg k false) with
        | some (.raw b) => some ((fn, arg, k), b)
        | _ => none
      | _ => none) }

end FsBackend

end Memento.Store
