/-
  Character-level model of memento's naming scheme and of how stored names are resolved again.

  Mirrors (twosigma/memento):
    * `MementoFunction.__init__`            memento.py:282-287   (`qualified_name_without_version`)
    * `FunctionReference.__init__`          reference.py:389-401 (`qualify`: cluster prefix, then `#version`)
    * `FunctionReference.parse_qualified_name` reference.py:439-455 — the regular expression
        `((?P<cluster>[^#]*?)::)?(?P<module>[^:#]*):(?P<function>[^#]*)(#(?P<version>.*))?`
      under `re.match` (anchored at the start only, backtracking, `.` does not match a newline),
      written as explicit searches (`parseCl`, `parseRest`)
    * `FunctionReference.from_qualified_name` / `_find_function`   reference.py:457-575
    * `UnboundExternalMementoFunction.__init__` / `ExternalMementoFunctionBase.__init__` external.py
    * `MementoCodec.decode_memento` as far as function references are concerned
      (serialization.py:77-92,114-132,153-174,227-241) and the arity check of
      `FunctionReferenceWithArguments._compute_effective_kwargs` (reference.py:738-770; no partial arguments)
    * `DataSourceMetadataSource.get_mementos` / `list_functions` / `list_mementos` (storage_base.py:924-976)
    * `_FilesystemDataSource._escape_key`, and the name handling of the non-recursive
      `list_keys_nonversioned` (`urllib.parse.unquote`, stripping of `.link`)  storage_filesystem.py

  Strings are `List Char`; `String` appears only at the driver boundary. Core-only, all functions total.
-/
namespace Memento.QName

abbrev Str := List Char

/-! ## Building qualified names -/

/-- does the string start with `"::"`? returns the remainder -/
def stripDC : Str → Option Str
  | a :: b :: r => if a = ':' ∧ b = ':' then some r else none
  | _ => none

/-- Python `"::" in s` -/
def hasDC : Str → Bool
  | [] => false
  | a :: r => (stripDC (a :: r)).isSome || hasDC r

/-- `"#" + version` if a version is given -/
def verSuffix : Option Str → Str
  | none => []
  | some v => '#' :: v

/-- `FunctionReference.__init__`, lines 389-401: `base` is `memento_fn.qualified_name_without_version`
    for a real function and `module + ":" + function_name` for an external stub. The cluster prefix
    is added only if `"::"` does not already occur in `base` (quirk kept), then the version. -/
def qualify (base : Str) (cluster : Option Str) (version : Option Str) : Str :=
  (match cluster with
   | some c => if hasDC base then base else c ++ ':' :: ':' :: base
   | none => base) ++ verSuffix version

/-- name given to an external stub: `UnboundExternalMementoFunction(cluster, module, function, version)` -/
def build (c : Option Str) (m f : Str) (v : Option Str) : Str :=
  qualify (m ++ ':' :: f) c v

/-- `MementoFunction.qualified_name_without_version` (memento.py:283-287) -/
def qnwv (c : Option Str) (m q : Str) : Str :=
  (match c with | some c => c ++ [':', ':'] | none => []) ++ (m ++ ':' :: q)

/-- `fn.fn_reference().qualified_name` of a registered function in cluster `c`, module `m`,
    qualname `q`, whose current version is `ver` (`_update_fn_reference`) -/
def realName (c : Option Str) (m q ver : Str) : Str :=
  qualify (qnwv c m q) c (some ver)

/-! ## Parsing: the regular expression as explicit searches -/

structure Parts where
  cluster  : Option Str
  module   : Str
  function : Str
  version  : Option Str
deriving DecidableEq, Repr

/-- `[^:#]` -/
def isModCh (c : Char) : Bool := c != ':' && c != '#'
/-- `[^#]` -/
def notHash (c : Char) : Bool := c != '#'
/-- `.` (no DOTALL): everything except a newline -/
def notNl (c : Char) : Bool := c != '\n'

/-- `(#(?P<version>.*))?` at the start of `s` (what follows is ignored: `re.match` is not anchored
    at the end) -/
def parseVer : Str → Option Str
  | [] => none
  | c :: v => if c = '#' then some (v.takeWhile notNl) else none

/-- `(?P<module>[^:#]*):(?P<function>[^#]*)(#(?P<version>.*))?` matched at the start of `s`.
    The greedy module group can only be followed by `:` at its maximal extent (every shorter
    extent is followed by a character that is not `:`), so there is nothing to backtrack into. -/
def parseRest (s : Str) : Option (Str × Str × Option Str) :=
  match s.dropWhile isModCh with
  | [] => none
  | c :: r =>
    if c = ':' then some (s.takeWhile isModCh, r.takeWhile notHash, parseVer (r.dropWhile notHash))
    else none

/-- `((?P<cluster>[^#]*?)::)` followed by the rest of the pattern: the lazy group tries every
    length 0, 1, 2, … (only over characters other than `#`), and at each length needs `::` and a
    successful match of the rest; otherwise it backtracks to the next length. -/
def parseCl : Str → Option (Str × Str × Str × Option Str)
  | [] => none
  | c :: r =>
    match (stripDC (c :: r)).bind parseRest with
    | some p => some ([], p)
    | none =>
      if c = '#' then none
      else (parseCl r).map (fun x => (c :: x.1, x.2))

/-- `FunctionReference.parse_qualified_name`; `none` = `ValueError` (no match) -/
def parse (s : Str) : Option Parts :=
  match parseCl s with
  | some (c, m, f, v) => some ⟨some c, m, f, v⟩
  | none =>
    match parseRest s with
    | some (m, f, v) => some ⟨none, m, f, v⟩
    | none => none

/-! ## File names: `_escape_key`, `unquote`, listing -/

/-- `key.replace(":", "%3A")` -/
def escape : Str → Str
  | [] => []
  | c :: r => if c = ':' then '%' :: '3' :: 'A' :: escape r else c :: escape r

def hexv (c : Char) : Option Nat :=
  if '0' ≤ c ∧ c ≤ '9' then some (c.toNat - '0'.toNat)
  else if 'a' ≤ c ∧ c ≤ 'f' then some (c.toNat - 'a'.toNat + 10)
  else if 'A' ≤ c ∧ c ≤ 'F' then some (c.toNat - 'A'.toNat + 10)
  else none

/-- `urllib.parse.unquote` on ASCII input: every `%XX` (two hex digits) becomes the character with
    that code, every other `%` stays. (For `XX ≥ 0x80` Python decodes UTF-8 sequences; the model
    returns the Latin-1 character instead — never exercised, see the evidence.) -/
def unquote : Str → Str
  | c :: a :: b :: r =>
    if c = '%' then
      match hexv a, hexv b with
      | some x, some y => Char.ofNat (16 * x + y) :: unquote r
      | _, _ => c :: unquote (a :: b :: r)
    else c :: unquote (a :: b :: r)
  | c :: r => c :: unquote r      -- fewer than two characters follow: nothing to decode
  | [] => []

def dotLink : Str := ['.', 'l', 'i', 'n', 'k']

/-- `s.endswith(".link")` → `s[0:-5]` -/
def stripLink (s : Str) : Str :=
  if dotLink.isSuffixOf s then s.take (s.length - 5) else s

/-- key name reported by the non-recursive `list_keys_nonversioned` for the directory entry
    `entry` (`isDir`: the entry is a directory — function directories `m/<qualified name>` are):
    `unquote`, then `.link` is stripped from link *files* only. -/
def listedName (isDir : Bool) (entry : Str) : Str :=
  let n := unquote entry
  if isDir then n else stripLink n

/-! ## Resolving a stored name against the current code base -/

/-- what `getattr(module, dotted.path)` finds -/
inductive Obj
  /-- a `MementoFunctionType`: its own cluster, `fn.__module__`, `fn.__qualname__`, current `version()`,
      and the parameter names of its signature -/
  | mfn (cluster : Option Str) (module qualname version : Str) (params : List Str)
  /-- callable, but not a memento function -/
  | plain
  /-- not callable -/
  | value
deriving DecidableEq, Repr

/-- an importable module: name and attribute table (keyed by the whole dotted path) -/
structure Module where
  name  : Str
  attrs : List (Str × Obj)
deriving Repr

abbrev CodeBase := List Module

def lookupAttr : List (Str × Obj) → Str → Option Obj
  | [], _ => none
  | (k, o) :: r, f => if k = f then some o else lookupAttr r f

def lookupModule : CodeBase → Str → Option (List (Str × Obj))
  | [], _ => none
  | md :: r, m => if md.name = m then some md.attrs else lookupModule r m

def localsTag : Str := ['<', 'l', 'o', 'c', 'a', 'l', 's', '>']

/-- `function_name.find("<locals>") != -1` -/
def hasLocals : Str → Bool
  | [] => false
  | c :: r => localsTag.isPrefixOf (c :: r) || hasLocals r

/-- why `_find_function` did not return a function -/
inductive FindErr
  | emptyModuleName      -- `import_module("")`: ValueError
  | relativeImport       -- `import_module(".x")` without package: TypeError (NOT caught by the caller)
  | moduleNotFound       -- ModuleNotFoundError
  | locals               -- ValueError
  | attribute            -- AttributeError
  | notCallable          -- ValueError
  | notMemento           -- ValueError
  | versionMismatch      -- ValueError
deriving DecidableEq, Repr

/-- the function found: own cluster, module, qualname, version, parameter names -/
structure Found where
  cluster  : Option Str
  module   : Str
  qualname : Str
  version  : Str
  params   : List Str
deriving DecidableEq, Repr

/-- `FunctionReference._find_function` (without partial arguments) -/
def findFunction (cb : CodeBase) (m f : Str) (v : Option Str) : Except FindErr Found :=
  match m with
  | [] => .error .emptyModuleName
  | c0 :: _ =>
    if c0 = '.' then .error .relativeImport else
    match lookupModule cb m with
    | none => .error .moduleNotFound
    | some attrs =>
      if hasLocals f then .error .locals else
      match lookupAttr attrs f with
      | none => .error .attribute
      | some .value => .error .notCallable
      | some .plain => .error .notMemento
      | some (.mfn c m' q ver ps) =>
        match v with
        | some v' => if ver = v' then .ok ⟨c, m', q, ver, ps⟩ else .error .versionMismatch
        | none => .ok ⟨c, m', q, ver, ps⟩

inductive Err
  | valueError     -- the name does not parse / more positional arguments than parameters
  | typeError      -- relative module name
deriving DecidableEq, Repr

/-- a decoded `FunctionReference`: `.external`, `.qualified_name`, `.cluster_name`, `.parameter_names` -/
structure Ref where
  external : Bool
  qn       : Str
  cluster  : Option Str
  params   : List Str
deriving DecidableEq, Repr

/-- `_cluster_name` of a reference: the given cluster name, else the function's own -/
def pickCluster (given own : Option Str) : Option Str :=
  match given with
  | some c => some c
  | none => own

/-- `FunctionReference.from_qualified_name(qn, parameter_names=pn, external=ext)`: a bound reference
    takes its parameter names from the signature of the function found, an external stub takes the
    given ones (`[]` if none are given) -/
def resolve (cb : CodeBase) (qn : Str) (ext : Bool := false) (pn : Option (List Str) := none) : Except Err Ref :=
  match parse qn with
  | none => .error .valueError
  | some p =>
    -- UnboundExternalMementoFunction(...): the stub's name is rebuilt and parsed once more
    let stub : Except Err Ref :=
      let q := build p.cluster p.module p.function p.version
      match parse q with
      | none => .error .valueError
      | some _ => .ok ⟨true, q, p.cluster, pn.getD []⟩
    if ext then stub else
    match findFunction cb p.module p.function p.version with
    | .ok fd =>
      .ok ⟨false, qualify (qnwv fd.cluster fd.module fd.qualname) p.cluster (some (p.version.getD fd.version)),
           pickCluster p.cluster fd.cluster, fd.params⟩
    | .error .relativeImport => .error .typeError
    | .error _ => stub

/-- does the code base hold a memento function under `module:function` whose version is `v`
    (any version if `v` is `none`)? — "module, function and version all match" -/
def Matches (cb : CodeBase) (m f : Str) (v : Option Str) : Prop :=
  ∃ attrs c m' q ver ps, lookupModule cb m = some attrs ∧ lookupAttr attrs f = some (.mfn c m' q ver ps) ∧
    (v = none ∨ v = some ver)

/-! ## Stored mementos -/

/-- a function reference inside a stored memento (JSON, `encode_fn_reference` /
    `encode_fn_reference_with_args`): qualified name, `parameterNames`, and — for the memento's own
    call and its recorded invocations — the number of positional arguments stored with it -/
structure StoredCall where
  qn     : Str
  params : Option (List Str)
  nargs  : Nat
deriving DecidableEq, Repr

/-- `decode_fn_reference` -/
def decodeRef (cb : CodeBase) (s : StoredCall) : Except Err Ref :=
  resolve cb s.qn false s.params

/-- `decode_fn_reference_with_args`: the reference, then `FunctionReferenceWithArguments(...)` binds
    the stored positional arguments to the reference's parameter names (`_compute_effective_kwargs`:
    `ValueError` if there are more arguments than names; no partial arguments in this model) -/
def decodeCall (cb : CodeBase) (s : StoredCall) : Except Err Ref :=
  match decodeRef cb s with
  | .error e => .error e
  | .ok r => if r.params.length < s.nargs then .error .valueError else .ok r

/-- the references inside a stored memento: its own call, the recorded invocations (calls), and
    the function dependencies (plain references) -/
structure Stored where
  own         : StoredCall
  invocations : List StoredCall
  deps        : List StoredCall
deriving DecidableEq, Repr

structure Read where
  own         : Ref
  invocations : List Ref
  deps        : List Ref
deriving DecidableEq, Repr

def mapAll (f : StoredCall → Except Err Ref) : List StoredCall → Except Err (List Ref)
  | [] => .ok []
  | q :: r =>
    match f q with
    | .error e => .error e
    | .ok x =>
      match mapAll f r with
      | .error e => .error e
      | .ok xs => .ok (x :: xs)

/-- `MementoCodec.decode_memento` restricted to function references: an exception of any reference
    propagates -/
def readMemento (cb : CodeBase) (s : Stored) : Except Err Read :=
  match decodeCall cb s.own with
  | .error e => .error e
  | .ok o =>
    match mapAll (decodeCall cb) s.invocations with
    | .error e => .error e
    | .ok is =>
      match mapAll (decodeRef cb) s.deps with
      | .error e => .error e
      | .ok ds => .ok ⟨o, is, ds⟩

/-- metadata store: (qualified name, argument hash) ↦ stored memento -/
abbrev MetaStore := List (Str × Str × Stored)

def MetaStore.find : MetaStore → Str → Str → Option Stored
  | [], _, _ => none
  | (q, a, s) :: r, qn, h => if q = qn ∧ a = h then some s else MetaStore.find r qn h

/-- `DataSourceMetadataSource.get_mementos` for one call: a missing file (`IOError`) gives `None`;
    `FunctionNotFoundError` would too but cannot arise from names; everything else propagates -/
def getMemento (cb : CodeBase) (st : MetaStore) (qn h : Str) : Except Err (Option Read) :=
  match st.find qn h with
  | none => .ok none
  | some s =>
    match readMemento cb s with
    | .error e => .error e
    | .ok r => .ok (some r)

/-- `list_mementos(fn)`: every memento file under the function's directory is decoded, no handler -/
def listMementos (cb : CodeBase) : MetaStore → Str → Except Err (List Read)
  | [], _ => .ok []
  | (q, _, s) :: r, qn =>
    if q = qn then
      match readMemento cb s with
      | .error e => .error e
      | .ok x =>
        match listMementos cb r qn with
        | .error e => .error e
        | .ok xs => .ok (x :: xs)
    else listMementos cb r qn

/-- a name alone, as `list_functions` passes it to `from_qualified_name` -/
def nameOnly (q : Str) : StoredCall := ⟨q, none, 0⟩

/-- `list_functions` of the filesystem metadata source: one directory entry per function -/
def listFunctionsFs (cb : CodeBase) (dirEntries : List Str) : Except Err (List Ref) :=
  mapAll (decodeRef cb) (dirEntries.map (fun e => nameOnly (listedName true e)))

/-- `list_functions` of the memory backend: the dictionary keys are the qualified names -/
def listFunctionsMem (cb : CodeBase) (keys : List Str) : Except Err (List Ref) :=
  mapAll (decodeRef cb) (keys.map nameOnly)

end Memento.QName
