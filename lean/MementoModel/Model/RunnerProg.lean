import MementoModel.Model.Runner
/-
  First-order program syntax used by the driver and the harness' program generator; `denote`
  compiles it to interaction trees. (The theorems quantify over *all* `Body`s, not only these.)
-/
namespace Memento.Runner

/-- statements; `guard = (m, r)` with `m ≠ 0`: the statement runs only when `arg % m = r` (so
    different arguments of one function can reach different callees) -/
inductive Stmt
  | call (g : Fn) (off : Int) (ctx : CtxSpec) (fl : Flags) (caught : Bool) (guard : Nat × Nat)
  | batch (g : Fn) (offs : List Int) (ctx : CtxSpec) (fl : Flags) (raiseFirst : Bool) (guard : Nat × Nat)
  | resource (h : Nat)
deriving Repr

def guardOk (guard : Nat × Nat) (a : Val) : Bool := guard.1 == 0 || (a ≥ 0 && a.toNat % guard.1 == guard.2)

structure FnDef where
  stmts    : List Stmt
  raiseMod : Nat        -- raise (cls, msg) when `arg % raiseMod = raiseRem` (raiseMod = 0: never)
  raiseRem : Nat
  cls      : Cls
  msg      : Nat
  const    : Int        -- otherwise return (sum of the collected values) + const + 10 * arg
  explicit : Bool
deriving Repr

def raises (d : FnDef) (a : Val) : Bool := d.raiseMod != 0 && a.toNat % d.raiseMod == d.raiseRem && a ≥ 0

def firstExc : List Outcome → Option Outcome
  | [] => none
  | .exc c m :: _ => some (.exc c m)
  | _ :: r => firstExc r

def sumSlots : List Outcome → Int
  | [] => 0
  | .val (some v) :: r => v + sumSlots r
  | .val none :: r => sumSlots r
  | .exc _ _ :: r => -500 + sumSlots r

def denoteStmts (d : FnDef) (a : Val) : List Stmt → Int → Body
  | [], acc => if raises d a then .ret (.exc d.cls d.msg) else .ret (.val (some (acc + d.const + 10 * a)))
  | .resource h :: rest, acc => .resource h (denoteStmts d a rest acc)
  | .call g off ctx fl caught guard :: rest, acc =>
    if !guardOk guard a then denoteStmts d a rest acc else
    .call g (a + off) ctx fl (fun o => match o with
      | .val (some v) => denoteStmts d a rest (acc + v)
      | .val none => denoteStmts d a rest acc
      | .exc c m =>
        -- a handler cannot tell an opaque exception from its replayed form (MementoException)
        if caught then denoteStmts d a rest (acc - 1000 - (if c = clsOpaque then clsMemento else c)) else .ret (.exc c m))
  | .batch g offs ctx fl raiseFirst guard :: rest, acc =>
    if !guardOk guard a then denoteStmts d a rest acc else
    .batch g (offs.map (a + ·)) ctx fl (fun r => match r with
      | .error e => .ret e                                        -- the batch call itself raised
      | .ok os =>
        match (if raiseFirst then firstExc os else none) with
        | some e => .ret e
        | none => denoteStmts d a rest (acc + sumSlots os))

def denote (d : FnDef) (a : Val) : Body := denoteStmts d a d.stmts 0

def emptyDef : FnDef := ⟨[], 0, 0, 0, 0, 0, false⟩

def lookupDef (defs : List (Fn × FnDef)) (f : Fn) : FnDef :=
  ((defs.find? (fun p => p.1 == f)).map (·.2)).getD emptyDef

def progOf (defs : List (Fn × FnDef)) (declared : List (Fn × Fn)) : Prog :=
  { body := fun f a => denote (lookupDef defs f) a,
    explicit := fun f => (lookupDef defs f).explicit,
    declared := fun f g => declared.contains (f, g) }

end Memento.Runner
