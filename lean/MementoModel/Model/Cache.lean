/-
  Model of `twosigma.memento.storage_base.MemoryCache` (storage_base.py:1068-1291).

  Mirrors, statement by statement:
    _mark_used, _evict, get_mementos, read_result, is_memoized, is_all_memoized, _put_ref, put,
    forget_call, forget_everything, forget_function.

  Core-only (no Mathlib) so that the driver can be compiled.
-/
namespace Memento.Cache

/-- cache key `qualified_name + "/" + arg_hash`; `fn` is the qualified name (incl. version). -/
structure Key where
  fn  : Nat
  arg : Nat
deriving DecidableEq, Repr

/-- `_CacheEntry` -/
structure Entry where
  size     : Nat     -- obj_size = _estimate_object_size(result)
  mem      : Nat     -- identity of the Memento object
  val      : Nat     -- identity of the value object (0 = `None` for memento-only entries)
  hasValue : Bool
deriving DecidableEq, Repr

structure State where
  budget : Nat                    -- memory_cache_bytes
  usage  : Int                    -- memory_usage (a separately maintained counter)
  cache  : List (Key × Entry)     -- dict
  lru    : List Key               -- lru_deque, oldest first
  refs   : List (Key × Nat)       -- WeakValueDictionary: key ↦ value identity
  held   : List Nat               -- value identities strongly held by the *caller* (ghost of the harness)
  clock  : Nat                    -- ghost: logical time
  stamp  : Key → Nat              -- ghost: time of last use (put / read hit / is_memoized hit)

def init (budget : Nat) : State :=
  { budget, usage := 0, cache := [], lru := [], refs := [], held := [], clock := 1, stamp := fun _ => 0 }

def lookup (c : List (Key × Entry)) (k : Key) : Option Entry :=
  (c.find? (fun p => p.1 == k)).map (·.2)

def hasKey (c : List (Key × Entry)) (k : Key) : Bool := c.any (fun p => p.1 == k)

def refLookup (r : List (Key × Nat)) (k : Key) : Option Nat :=
  (r.find? (fun p => p.1 == k)).map (·.2)

/-- ghost: record a use of `k` -/
def touchStamp (s : State) (k : Key) : State :=
  { s with stamp := fun j => if j = k then s.clock else s.stamp j, clock := s.clock + 1 }

/-- `_mark_used`: remove (if present) then append. -/
def markUsed (s : State) (k : Key) : State :=
  touchStamp { s with lru := s.lru.erase k ++ [k] } k

/-- `_evict(cache_key)` -/
def evict (s : State) (k : Key) : State :=
  let s1 := match lookup s.cache k with
    | some e => { s with usage := s.usage - e.size, cache := s.cache.filter (fun p => !(p.1 == k)) }
    | none => s
  { s1 with lru := s1.lru.erase k }

/-- the value object is alive iff the caller holds it or a resident entry holds it -/
def alive (s : State) (v : Nat) : Bool :=
  s.held.contains v || s.cache.any (fun p => p.2.hasValue && p.2.val == v)

/-- weak references die with their referent -/
def prune (s : State) : State :=
  { s with refs := s.refs.filter (fun p => alive s p.2) }

/-- `get_mementos` (never touches recency) -/
def getMementos (s : State) (ks : List Key) : List (Option Nat) :=
  ks.map (fun k => (lookup s.cache k).map (·.mem))

inductive ReadOut | value (v : Nat) | keyError
deriving DecidableEq, Repr

/-- `read_result(memento)`; the key is the memento's key -/
def readResult (s : State) (k : Key) : State × ReadOut :=
  match lookup s.cache k with
  | some e =>
    if e.hasValue then (markUsed s k, .value e.val) else (s, .keyError)
  | none =>
    match refLookup s.refs k with
    | some v => (s, .value v)
    | none => (s, .keyError)

/-- `is_memoized` -/
def isMemoized (s : State) (k : Key) : State × Bool :=
  if hasKey s.cache k then (markUsed s k, true)
  else (s, (refLookup s.refs k).isSome)

/-- `is_all_memoized(fns)` = `all([is_memoized(x) for x in fns])`: the list is built before `all` looks at it, so
    *every* queried key that is resident is marked used, also those listed after a missing one -/
def isAllMemoized (s : State) : List Key → State × Bool
  | [] => (s, true)
  | k :: ks =>
    let r := isMemoized s k
    let rs := isAllMemoized r.1 ks
    (rs.1, r.2 && rs.2)

/-- `_put_ref`: `TypeError` (not weak-referenceable) is swallowed; an older reference for the
    key is dropped in that case (so a stale object can never be served for the key). -/
def putRef (s : State) (k : Key) (v : Nat) (weakrefable : Bool) : State :=
  if weakrefable then { s with refs := (k, v) :: s.refs.filter (fun p => !(p.1 == k)) }
  else { s with refs := s.refs.filter (fun p => !(p.1 == k)) }

/-- the `while len(lru) > 0 and usage + size > budget: _evict(lru.popleft())` loop.
    Structural on a fuel that is the initial deque length (each iteration pops one). -/
def makeRoom (size : Nat) : Nat → State → State
  | 0, s => s
  | n+1, s =>
    match s.lru with
    | [] => s
    | k :: rest =>
      if s.usage + size > s.budget then
        makeRoom size n (evict { s with lru := rest } k)
      else s

/-- the part of `put` after the size test: evict the key, make room, insert, append, add -/
def putCore (s : State) (k : Key) (mem v size : Nat) (hasResult : Bool) : State :=
  let s := evict s k
  let s := makeRoom size s.lru.length s
  let e : Entry := { size, mem, val := v, hasValue := hasResult }
  touchStamp { s with cache := s.cache ++ [(k, e)], lru := s.lru ++ [k], usage := s.usage + size } k

/-- `put` after the first `_put_ref`: size test, view-busting copy, `putCore` -/
def putSized (s : State) (k : Key) (mem v size : Nat) (weakrefable hasResult : Bool)
    (vcopy : Option Nat) : State :=
  if size > s.budget then evict s k   -- too big: nothing of this key stays resident
  else
    match vcopy with
    | some v' => putCore (putRef s k v' weakrefable) k mem v' size hasResult
    | none => putCore s k mem v size hasResult

/-- `put(memento, result, has_result)`.
    `v` is the identity of `result`, `size` = `_estimate_object_size(result)`,
    `weakrefable` whether `WeakValueDictionary.__setitem__` accepts it.
    (`vcopy`: DataFrame/Series are copied — the stored identity is a fresh one.) -/
def put (s : State) (k : Key) (mem v size : Nat) (weakrefable hasResult : Bool)
    (vcopy : Option Nat := none) : State :=
  putSized (if hasResult then putRef s k v weakrefable else s) k mem v size weakrefable hasResult vcopy

def forgetCall (s : State) (k : Key) : State :=
  evict { s with refs := s.refs.filter (fun p => !(p.1 == k)) } k

def forgetEverything (s : State) : State :=
  { s with usage := 0, cache := [], lru := [], refs := [] }

/-- `forget_function`: evict every key of the function, one `_evict` at a time -/
def forgetFunction (s : State) (fn : Nat) : State :=
  let s := { s with refs := s.refs.filter (fun p => !(p.1.fn == fn)) }
  let ks := (s.cache.filter (fun p => p.1.fn == fn)).map (·.1)
  ks.foldl evict s

/-- the caller acquires / drops a strong reference to a value object -/
def hold (s : State) (v : Nat) : State := { s with held := v :: s.held.filter (· != v) }
def drop (s : State) (v : Nat) : State := { s with held := s.held.filter (· != v) }

/-- operations of the cache as a state machine -/
inductive Op
  | put (k : Key) (mem v size : Nat) (weakrefable hasResult : Bool) (vcopy : Option Nat)
  | getm (ks : List Key)
  | read (k : Key)
  | ismem (k : Key)
  | allmem (ks : List Key)
  | fcall (k : Key)
  | ffn (fn : Nat)
  | fall
  | hold (v : Nat)
  | drop (v : Nat)
deriving Repr

inductive Out
  | unit
  | mems (ms : List (Option Nat))
  | read (r : ReadOut)
  | bool (b : Bool)
deriving DecidableEq, Repr

/-- one step without weak-reference pruning -/
def stepRaw (s : State) : Op → State × Out
  | .put k m v sz wr hr vc => (put s k m v sz wr hr vc, .unit)
  | .getm ks => (s, .mems (getMementos s ks))
  | .read k => let (s', r) := readResult s k; (s', .read r)
  | .ismem k => let (s', b) := isMemoized s k; (s', .bool b)
  | .allmem ks => let (s', b) := isAllMemoized s ks; (s', .bool b)
  | .fcall k => (forgetCall s k, .unit)
  | .ffn fn => (forgetFunction s fn, .unit)
  | .fall => (forgetEverything s, .unit)
  | .hold v => (hold s v, .unit)
  | .drop v => (drop s v, .unit)

def step (s : State) (op : Op) : State × Out :=
  let (s', o) := stepRaw s op
  (prune s', o)

def run (s : State) (ops : List Op) : State := ops.foldl (fun s op => (step s op).1) s

/-- what the resident entries account for -/
def total (c : List (Key × Entry)) : Int := (c.map (fun p => (p.2.size : Int))).sum

def keys (c : List (Key × Entry)) : List Key := c.map (·.1)

end Memento.Cache
