/-!
# Model of declarative configuration (`configuration.py`, backend constructors, `to_dict`)

Decision logic only: which options a backend constructor reads from its configuration and which from its
arguments (`FilesystemStorageBackend.__init__`, `StorageBackendBase.__init__`, `StorageBackend.__init__`),
what `to_dict` emits, how `FunctionCluster` picks storage and runner, and how `Environment.get_cluster`
walks the repositories. Paths and names are abstract tokens. Core-only, total, executable.
-/
namespace Memento.Config

abbrev Str := Nat

/-- the options of a storage configuration (a dict: each key present or absent) -/
structure StorageCfg where
  type : Str                       -- 0 = filesystem, 1 = memory, 2 = null
  path : Option Str := none
  metaPath : Option Str := none
  cacheMb : Option Nat := none
  readonly : Option Bool := none
deriving DecidableEq, Repr

/-- constructor arguments (each given or `None`) -/
structure StorageArgs where
  path : Option Str := none
  metaPath : Option Str := none
  cacheMb : Option Nat := none
  readOnly : Option Bool := none
deriving DecidableEq, Repr

/-- the behaviour of a backend: where data and metadata go, cache size (`none` = no cache), read-only -/
structure StorageSig where
  type : Str
  path : Option Str                -- `none` for backends without paths
  metaPath : Option Str
  cache : Option Nat
  readOnly : Bool
deriving DecidableEq, Repr

def orElse {α} (a b : Option α) : Option α := match a with | some x => some x | none => b

/-- `if memory_cache_mb:` — zero is falsy -/
def truthy : Option Nat → Option Nat
  | some 0 => none
  | x => x

/-- `StorageBackend.create(type, config)` / the constructors called with explicit arguments; `home` is the default path -/
def mkStorage (home : Str) (cfg : StorageCfg) (args : StorageArgs) : StorageSig :=
  let ro := (orElse args.readOnly cfg.readonly).getD false
  if cfg.type = 0 then
    let p := (orElse args.path cfg.path).getD home
    let mp := (orElse args.metaPath cfg.metaPath).getD p
    { type := 0, path := some p, metaPath := some mp, cache := truthy (orElse args.cacheMb cfg.cacheMb), readOnly := ro }
  else
    { type := cfg.type, path := none, metaPath := none, cache := none, readOnly := ro }

/-- `to_dict()` of a backend, as a configuration -/
def storageToCfg (s : StorageSig) : StorageCfg :=
  if s.type = 0 then
    { type := 0, path := s.path, metaPath := (if s.metaPath = s.path then none else s.metaPath),
      cacheMb := s.cache, readonly := some s.readOnly }
  else { type := s.type, readonly := some s.readOnly }

/-- the same options given as constructor arguments -/
def argsOf (cfg : StorageCfg) : StorageArgs :=
  { path := cfg.path, metaPath := cfg.metaPath, cacheMb := cfg.cacheMb, readOnly := cfg.readonly }

structure ClusterCfg where
  name : Str
  storage : Option StorageCfg := none      -- absent: default storage (filesystem, empty config)
  runner : Option Str := none              -- runner type; absent: local (0); 1 = null
deriving DecidableEq, Repr

structure ClusterSig where
  name : Str
  storage : StorageSig
  runner : Str
deriving DecidableEq, Repr

/-- `FunctionCluster(config, storage=…, runner=…)` -/
def mkCluster (home : Str) (cfg : ClusterCfg) (storageArg : Option StorageSig) (runnerArg : Option Str) : ClusterSig :=
  { name := cfg.name,
    storage := match storageArg with
      | some s => s
      | none => match cfg.storage with
        | some sc => mkStorage home sc {}
        | none => mkStorage home { type := 0 } {},
    runner := match runnerArg with
      | some r => r
      | none => cfg.runner.getD 0 }

def clusterToCfg (c : ClusterSig) : ClusterCfg :=
  { name := c.name, storage := some (storageToCfg c.storage), runner := some c.runner }

/-- a repository: cluster key ↦ cluster (a dict: first entry of a key counts) -/
abbrev Repo := List (Str × ClusterSig)
abbrev Env := List Repo

def repoGet : Repo → Str → Option ClusterSig
  | [], _ => none
  | (k, c) :: r, n => if k = n then some c else repoGet r n

/-- `ConfigurationRepository(config, clusters=…)`: the clusters of the configuration are built from their cluster
    configurations; an explicit `clusters` argument replaces the whole map (it is not merged key by key) -/
def mkRepo (home : Str) (cfgClusters : List (Str × ClusterCfg)) (clustersArg : Option Repo) : Repo :=
  match clustersArg with
  | some r => r
  | none => cfgClusters.map (fun kc => (kc.1, mkCluster home kc.2 none none))

/-- `Environment.get_cluster(name)` for a named cluster: the first repository, in priority order, that defines it -/
def getCluster : Env → Str → Option ClusterSig
  | [], _ => none
  | r :: rs, n => match repoGet r n with
    | some c => some c
    | none => getCluster rs n

/-- `Environment(env.to_dict())`: every cluster is rebuilt from its dictionary form -/
def dumpLoad (home : Str) (e : Env) : Env :=
  e.map (fun r => r.map (fun kc => (kc.1, mkCluster home (clusterToCfg kc.2) none none)))

end Memento.Config
