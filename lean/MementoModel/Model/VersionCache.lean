import MementoModel.Model.Version

/-!
# Model of the in-process version cache (`MementoFunction._update_dependencies`)

Mirrors `memento.py` (`__init__` registration and generation bump, `clone_with`,
`_update_dependencies`, `_recompute_version`) and the `did_change` methods of the hash rules
(`code_hash.py`).

* Objects have identity: every (re)definition binds the name to a fresh `Bound` (`stamp` = identity,
  `d` = the definition). `did_change` of a function rule compares identities (`is not` / `!=` on
  function objects), of a variable rule serialised values, of an undefined-symbol rule definedness.
* An `Inst` is a `MementoFunction` instance: the registered function object, a modifier clone
  (`clone_with`: copies `_calculated_version` and `_hash_rules`) or an unregistered wrapper (no version,
  no rules). It is *live* while its name is still bound to the function object it wraps.
* `gen` / `cache` are `_global_fn_generation` / `_global_fn_version_cache`.
* Functions of other packages (`defForeign`) get no rule; the symbols bound to them are watched without a rule (fix F27:
  `HashRuleSet.watched_symbols`, `_watched_symbols`), so re-binding such a symbol is noticed like any other change.
* `locked` is `FunctionCluster.locked` of the (single) cluster: while it is set, an instance that already has a version answers it
  without looking at anything (`_update_dependencies`: "Do not recompute version if the cluster is locked"), and the registration of
  a memento function is refused (`Environment.register_function` raises): the `def` statement fails, the name keeps its binding —
  but the generation has been incremented and the version cache written by then, which the model reproduces. (Re-executing, while
  locked, a definition whose name and version are registered already is accepted by the code; the model leaves it out.)
* `hist` is ghost state (every `Bound` ever created), used only to state invariants.
Core-only, total, executable. The enumeration order of reference sets is fixed to `id` (C03: irrelevant).
-/
namespace Memento.VersionCache
open Memento.Version

structure Bound where
  stamp : Nat
  d : Def
deriving DecidableEq, Repr

abbrev Sym := List (Name × Bound)

def lookupB : Sym → Name → Option Bound
  | [], _ => none
  | (k, b) :: r, n => if k = n then some b else lookupB r n

def progOf (sym : Sym) : Prog := sym.map (fun p => (p.1, p.2.d))

def bind (sym : Sym) (n : Name) (b : Bound) : Sym := (n, b) :: sym.filter (fun p => p.1 != n)

/-- a hash rule as kept in `_hash_rules`: its key, and what it remembers of its target
    (`memento_fn` / `src_fn` object identity, `last_value`) -/
structure Snap where
  node : Node
  stamp : Option Nat
  val : Option Tok
deriving DecidableEq, Repr

def mkSnap (sym : Sym) (x : Node) : Snap :=
  match lookupB sym x.target with
  | some b => ⟨x, some b.stamp, (match b.d with | .var v => v | _ => none)⟩
  | none => ⟨x, none, none⟩

def isMementoDef : Def → Bool
  | .memento _ _ _ => true
  | _ => false

/-- `rule.did_change()` against the current symbol table -/
def didChange (sym : Sym) (s : Snap) : Bool :=
  match s.node.kind with
  | .mfn =>
    match s.node.parent with
    | none => false                                  -- the function's own rule: `resolver = lambda: self`
    | some _ =>
      match lookupB sym s.node.target with
      | some b => !(isMementoDef b.d && some b.stamp == s.stamp)
      | none => true
  | .fn =>
    match lookupB sym s.node.target with
    | some b => !(some b.stamp == s.stamp)
    | none => true
  | .gvar =>
    match lookupB sym s.node.target with
    | some ⟨_, .var (some v)⟩ => !(some v == s.val)
    | _ => true
  | .undef => (lookupB sym s.node.target).isSome

structure Inst where
  name : Name
  stamp : Nat                       -- identity of the function object this instance wraps
  cver : Option (List Char)         -- `_calculated_version`
  snaps : List Snap                 -- `_hash_rules`
  watch : List (Name × Nat) := []   -- `_watched_symbols` (fix F27): symbols that resolved to a function of another package
                                    --   (no rule is kept for it), with the identity of that function
deriving Repr

/-- is this definition a plain function of another package? -/
def isForeign : Def → Bool
  | .plain false _ _ => true
  | _ => false

/-- the functions whose sources are scanned for `f`'s version: the targets of its function rules (the root included) -/
def closureFns (P : Prog) (f : Name) : List Name :=
  ((rules P id f).filter (fun x => x.kind == .mfn || x.kind == .fn)).map (·.target)

/-- `HashRuleSet.watched_symbols` after `_recompute_version`: every reference, in the source of a function of the closure,
    that resolves to a function of another package -/
def watchOf (sym : Sym) (f : Name) : List (Name × Nat) :=
  (closureFns (progOf sym) f).flatMap (fun p =>
    match lookup (progOf sym) p with
    | some d => d.refs.filterMap (fun r =>
        match lookupB sym r with
        | some b => if isForeign b.d then some (r, b.stamp) else none
        | none => none)
    | none => [])

/-- `resolver() != obj` for a watched symbol -/
def watchChanged (sym : Sym) (w : Name × Nat) : Bool :=
  match lookupB sym w.1 with
  | some b => !(b.stamp == w.2)
  | none => true

structure St where
  sym : Sym := []
  gen : Nat := 0
  cache : List (Name × Nat × List Char) := []
  insts : List Inst := []
  next : Nat := 0
  locked : Bool := false            -- `FunctionCluster.locked`
  hist : List Bound := []           -- ghost
deriving Repr

def cacheGet (c : List (Name × Nat × List Char)) (n : Name) : Option (Nat × List Char) :=
  match c with
  | [] => none
  | (k, e) :: r => if k = n then some e else cacheGet r n

def cacheSet (c : List (Name × Nat × List Char)) (n : Name) (e : Nat × List Char) : List (Name × Nat × List Char) :=
  (n, e) :: c.filter (fun p => p.1 != n)

inductive Ev
  | defMemento (n : Name) (explicit : Option (List Char)) (tok : Tok) (refs : List Name)
  | defPlain (n : Name) (tok : Tok) (refs : List Name)
  | defForeign (n : Name) (tok : Tok)       -- `n = <a plain function of another package>`
  | setVar (n : Name) (v : Tok)
  | clone (i : Nat)
  | wrapper (n : Name)
  | alias (n m : Name)            -- `n = m`: bind a second name to the object `m` is bound to
  | query (i : Nat)
  | lock (b : Bool)               -- `cluster.locked = b`
deriving Repr

def setInst (l : List Inst) (i : Nat) (x : Inst) : List Inst := l.set i x

/-- `_recompute_version` + the tail of `_update_dependencies` for instance `i` -/
def recompute (H : Ser → List Char) (s : St) (i : Nat) (inst : Inst) : St × List Char :=
  let P := progOf s.sym
  let v := version H P id inst.name
  let snaps := (sortedRules P id inst.name).map (mkSnap s.sym)
  ({ s with insts := setInst s.insts i { inst with cver := some v, snaps := snaps, watch := watchOf s.sym inst.name },
            cache := cacheSet s.cache inst.name (s.gen, v) }, v)

/-- `_update_dependencies` followed by reading the version, for instance `i`.
    Instances whose function object has been replaced since (not live) are outside the model: `none`. -/
def query (H : Ser → List Char) (s : St) (i : Nat) : St × Option (List Char) :=
  match s.insts[i]? with
  | none => (s, none)
  | some inst =>
    match lookupB s.sym inst.name with
    | none => (s, none)
    | some b =>
      if !(b.stamp == inst.stamp) then (s, none) else
      match b.d with
      | .memento (some e) _ _ => (s, some e)        -- explicit version: static
      | _ =>
        if s.locked && inst.cver.isSome then (s, inst.cver) else       -- locked cluster: the version is frozen
        match cacheGet s.cache inst.name with
        | some (g, v) =>
          if g == s.gen && !inst.snaps.isEmpty then
            if inst.snaps.any (didChange s.sym) || inst.watch.any (watchChanged s.sym) then
              let (s', v') := recompute H { s with gen := s.gen + 1 } i inst
              (s', some v')
            else
              match inst.cver with
              | none => ({ s with insts := setInst s.insts i { inst with cver := some v } }, some v)
              | some c => (s, some c)
          else
            let (s', v') := recompute H s i inst
            (s', some v')
        | none =>
          let (s', v') := recompute H s i inst
          (s', some v')

def step (H : Ser → List Char) (s : St) : Ev → St × Option (List Char)
  | .defMemento n e tok refs =>
    let b : Bound := ⟨s.next, .memento e tok refs⟩
    if s.locked then
      -- refused: `__init__` has incremented the generation and `register_function` has asked the new object for its reference
      -- (which computes its version and writes the cache entry of the name) before the lock is looked at; nothing is bound
      ({ s with gen := s.gen + 1,
                cache := (match e with
                          | some _ => s.cache
                          | none => cacheSet s.cache n (s.gen + 1, version H (progOf (bind s.sym n b)) id n)) }, none)
    else
    -- registration bumps the generation; the new function object is an instance of its own;
    -- instances wrapping the previous object of that name are no longer live (they stay in the list)
    let inst : Inst := ⟨n, s.next, none, [], []⟩
    let s1 : St := { s with sym := bind s.sym n b, next := s.next + 1, hist := b :: s.hist, gen := s.gen + 1,
                            insts := s.insts ++ [inst] }
    match e with
    | some _ => (s1, none)                 -- explicit version: the reference is static, nothing is computed
    | none =>
      -- `register_function` asks the new object for its reference, which computes its version, rules and watch list and
      -- writes the cache entry (see the header for the one difference: a function that refers to its own name)
      ((recompute H s1 s.insts.length inst).1, none)
  | .defPlain n tok refs =>
    let b : Bound := ⟨s.next, .plain true tok refs⟩
    ({ s with sym := bind s.sym n b, next := s.next + 1, hist := b :: s.hist }, none)
  | .defForeign n tok =>
    let b : Bound := ⟨s.next, .plain false tok []⟩
    ({ s with sym := bind s.sym n b, next := s.next + 1, hist := b :: s.hist }, none)
  | .setVar n v =>
    let b : Bound := ⟨s.next, .var (some v)⟩
    ({ s with sym := bind s.sym n b, next := s.next + 1, hist := b :: s.hist }, none)
  | .clone i =>
    match s.insts[i]? with
    | some inst => ({ s with insts := s.insts ++ [inst] }, none)
    | none => (s, none)
  | .wrapper n =>
    match lookupB s.sym n with
    | some b => ({ s with insts := s.insts ++ [⟨n, b.stamp, none, [], []⟩] }, none)
    | none => (s, none)
  | .alias n m =>
    match lookupB s.sym m with
    | some b => ({ s with sym := bind s.sym n b }, none)
    | none => (s, none)
  | .query i => query H s i
  | .lock b => ({ s with locked := b }, none)

def run (H : Ser → List Char) (s : St) : List Ev → St
  | [] => s
  | e :: es => run H (step H s e).1 es

/-- the instance still wraps the function object its name is bound to -/
def live (s : St) (inst : Inst) : Prop :=
  ∃ b, lookupB s.sym inst.name = some b ∧ b.stamp = inst.stamp ∧ isMementoDef b.d = true

end Memento.VersionCache
