/-!
# Model of function versioning

Mirrors `code_hash.py` (`HashRule` family, `_visit_dependency`, `collect_transitive_dependencies`),
`memento.py` (`_recompute_version`, `_validate_dependency`) and `dependency_graph.py`
(`transitive_/direct_memento_fn_dependencies`, `_rules_until_first_memento_fn`).

* A program is a finite table `Name ↦ Def` (the global symbol tables of the package, flattened: a
  name is the *object* a symbol resolves to; `module.attr` and alias spellings of a reference are
  part of the referring definition's code token).
* `Def.memento explicit tok refs`: a memento function; `tok` stands for everything `fn_code_hash`
  digests (bytecode, names, constants incl. nested code objects, defaults, keyword-only defaults,
  flags), `refs` for `list_dotted_names` resolved to objects, in source order. The traversal iterates
  a Python `set` of these names: its order is the parameter `ord` (any permutation), see C03.
  The digest of a function (`Ser.code`) covers `refs` as *resolved* references: in the code the symbols are
  part of the code object (`co_names`), a symbol that is the function's own name is bound to it by the rule
  key, and every other symbol (an alias) is digested together with the function it refers to (fix F21 —
  before it, re-binding an alias between two functions of the closure did not change the version; found by
  the partition stream of the correspondence check, which showed this model to be finer than the code).
  (Fix F24: a plain function reached through a symbol other than its own name gets a rule of its own, keyed with that
  symbol; in the model a name *is* the object, so two functions are two names whatever their `__qualname__`.)
* `Def.plain inPkg tok refs`: a plain function, `inPkg` = its module's `__package__` is the root's.
* `Def.var (some v)`: a module variable of a supported type with serialised value `v`;
  `Def.var none`: a variable of an unsupported type (no rule matches; untracked).
* a name without entry is an undefined symbol.

Rules are nodes `(kind, parent, target)` — the `key` of a `HashRule`; the rule set is the
depth-first closure from the root rule with the visited set keyed by rule key (cycle breaking), as in
`collect_transitive_dependencies`. Core-only, all functions total and executable.
-/
namespace Memento.Version

abbrev Name := Nat
abbrev Tok := Nat

inductive Def
  | memento (explicit : Option (List Char)) (tok : Tok) (refs : List Name)
  | plain (inPkg : Bool) (tok : Tok) (refs : List Name)
  | var (val : Option Tok)
deriving DecidableEq, Repr

abbrev Prog := List (Name × Def)

def lookup : Prog → Name → Option Def
  | [], _ => none
  | (k, d) :: r, n => if k = n then some d else lookup r n

/-- rule kinds, in the order of the real key strings
    (`Function` < `GlobalVariable` < `MementoFunction` < `UndefinedSymbol`) -/
inductive Kind | fn | gvar | mfn | undef
deriving DecidableEq, Repr

def Kind.idx : Kind → Nat
  | .fn => 0 | .gvar => 1 | .mfn => 2 | .undef => 3

structure Node where
  kind : Kind
  parent : Option Name
  target : Name
deriving DecidableEq, Repr

def Def.refs : Def → List Name
  | .memento _ _ r => r
  | .plain _ _ r => r
  | .var _ => []

/-- `_visit_dependency` for symbol `r` seen in the source of `parent`: which rule (if any) is made.
    Strategy order of `HashRule.all_rules`: memento function, plain function, variable;
    an unresolvable name gives an `UndefinedSymbol` rule; an out-of-package plain function and a
    value of an unsupported type give nothing. -/
def mkNode (P : Prog) (parent : Name) (r : Name) : Option Node :=
  match lookup P r with
  | none => some ⟨.undef, some parent, r⟩
  | some (.memento _ _ _) => some ⟨.mfn, some parent, r⟩
  | some (.plain inPkg _ _) => if inPkg then some ⟨.fn, some parent, r⟩ else none
  | some (.var (some _)) => some ⟨.gvar, some parent, r⟩
  | some (.var none) => none

/-- the rules visited from a rule (`collect_transitive_dependencies` of the rule's class) -/
def succ (P : Prog) (ord : List Name → List Name) (x : Node) : List Node :=
  match x.kind with
  | .mfn | .fn =>
    match lookup P x.target with
    | some d => (ord d.refs).filterMap (mkNode P x.target)
    | none => []
  | _ => []

/-- skip the rules that are already in the result (`if self in result: return`) -/
def dropVisited (vis : List Node) : List Node → List Node
  | [] => []
  | x :: t => if x ∈ vis then dropVisited vis t else x :: t

/-- depth-first closure with a visited list used as a set; `n` bounds the number of rules added -/
def closure (sc : Node → List Node) : Nat → List Node → List Node → List Node
  | 0, _, vis => vis
  | n+1, todo, vis =>
    match dropVisited vis todo with
    | [] => vis
    | x :: t => closure sc n (sc x ++ t) (x :: vis)

def rootNode (f : Name) : Node := ⟨.mfn, none, f⟩

def names (P : Prog) : List Name := P.map (·.1) ++ P.flatMap (fun p => p.2.refs)

/-- every node that can ever be made over the names of `P` (the closure's allNodes) -/
def allNodes (P : Prog) (f : Name) : List Node :=
  rootNode f :: (names P).flatMap (fun p => (names P).flatMap (fun t =>
    [⟨.fn, some p, t⟩, ⟨.gvar, some p, t⟩, ⟨.mfn, some p, t⟩, ⟨.undef, some p, t⟩]))

def fuel (P : Prog) (f : Name) : Nat := (allNodes P f).length + 1

/-- `_recompute_version`'s `hash_rules` as a list (a set: no duplicates) -/
def rules (P : Prog) (ord : List Name → List Name) (f : Name) : List Node :=
  closure (succ P ord) (fuel P f) [rootNode f] []

/-! ### ordering of rules (`sorted(hash_rules)`, by key) -/

def Node.code (x : Node) : Nat × Nat × Nat :=
  (x.kind.idx, (match x.parent with | none => 0 | some p => p + 1), x.target)

def Node.le (a b : Node) : Bool :=
  let x := a.code; let y := b.code
  x.1 < y.1 || (x.1 == y.1 && (x.2.1 < y.2.1 || (x.2.1 == y.2.1 && x.2.2 ≤ y.2.2)))

def insertNode (x : Node) : List Node → List Node
  | [] => [x]
  | y :: t => if Node.le x y then x :: y :: t else y :: insertNode x t

/-- `sorted(...)` by key (insertion sort: structurally recursive, so that closed examples evaluate) -/
def sortNodes : List Node → List Node
  | [] => []
  | x :: t => insertNode x (sortNodes t)

def sortedRules (P : Prog) (ord : List Name → List Name) (f : Name) : List Node := sortNodes (rules P ord f)

/-! ### hashing -/

/-- what is fed to SHA-256 at the three places versions are made of -/
inductive Ser
  | code (salted : Bool) (name : Name) (tok : Tok) (refs : List Name)   -- `fn_code_hash`
  | value (v : Tok)                                                    -- `GlobalVariableHashRule`
  | rules (s : List Char)                                              -- `_recompute_version`
  | explicit (name : Name) (e : List Char)                             -- explicit version of a dependency (with its name, fix F23)
deriving DecidableEq, Repr

/-- `compute_hash` of a rule: `None` for undefined symbols; a digest of "name#version" for an
    explicitly versioned memento function (fix F17: the string itself entered verbatim before; fix F23: the
    digest did not cover the name, see `Props/C01.lean`); otherwise a digest of the code / value -/
def ruleHash (H : Ser → List Char) (P : Prog) (x : Node) : Option (List Char) :=
  match x.kind, lookup P x.target with
  | .mfn, some (.memento (some e) _ _) => some (H (.explicit x.target e))
  | .mfn, some (.memento none tok refs) => some (H (.code true x.target tok refs))
  | .fn, some (.plain _ tok refs) => some (H (.code false x.target tok refs))
  | .gvar, some (.var (some v)) => some (H (.value v))
  | _, _ => none

/-- the string digested for the version: rule hashes in key order, concatenated without separator -/
def versionInput (H : Ser → List Char) (P : Prog) (ord : List Name → List Name) (f : Name) : List Char :=
  ((sortedRules P ord f).filterMap (ruleHash H P)).flatten

/-- `MementoFunction.version()` of an automatically versioned function (computed from scratch) -/
def version (H : Ser → List Char) (P : Prog) (ord : List Name → List Name) (f : Name) : List Char :=
  H (.rules (versionInput H P ord f))

/-- the version that enters the qualified name -/
def effectiveVersion (H : Ser → List Char) (P : Prog) (ord : List Name → List Name) (f : Name) : List Char :=
  match lookup P f with
  | some (.memento (some e) _ _) => e
  | _ => version H P ord f

/-! ### dependency reports -/

def isMemento (P : Prog) (n : Name) : Bool :=
  match lookup P n with
  | some (.memento _ _ _) => true
  | _ => false

def dedup : List Name → List Name
  | [] => []
  | x :: xs => if x ∈ xs then dedup xs else x :: dedup xs

/-- `transitive_memento_fn_dependencies` (as a duplicate-free list) -/
def transDeps (P : Prog) (ord : List Name → List Name) (f : Name) : List Name :=
  dedup (((rules P ord f).filter (fun x => x.kind == .mfn && x.target != f)).map (·.target))

/-- `direct_memento_fn_dependencies`: memento rules with `first_level`, i.e. made while visiting the root -/
def directDeps (P : Prog) (ord : List Name → List Name) (f : Name) : List Name :=
  dedup (((rules P ord f).filter (fun x => x.kind == .mfn && x.target != f && x.parent == some f)).map (·.target))

/-- nodes visited from `g` without passing through another memento function
    (`_rules_until_first_memento_fn`): closure where memento rules are not expanded -/
def succPlain (P : Prog) (ord : List Name → List Name) (x : Node) : List Node :=
  match x.kind with
  | .fn => succ P ord x
  | _ => []

/-- the memento functions `g` is linked to in the dependency graph -/
def edgesFrom (P : Prog) (ord : List Name → List Name) (g : Name) : List Name :=
  dedup (((closure (succPlain P ord) (fuel P g) (succ P ord (rootNode g)) []).filter
    (fun x => x.kind == .mfn && x.target != g)).map (·.target))

/-- the whole dependency graph of `f` (`generate_graph`): one group of edges per memento function reached -/
def graphEdges (P : Prog) (ord : List Name → List Name) (f : Name) : List (Name × Name) :=
  (f :: transDeps P ord f).flatMap (fun g => (edgesFrom P ord g).map (fun h => (g, h)))

/-- `_validate_dependency`: may `callee` be called from a running `caller`?
    `fnArgs` = memento functions passed to this invocation of the caller as arguments. -/
def callAllowed (P : Prog) (ord : List Name → List Name) (caller callee : Name) (fnArgs : List Name) : Bool :=
  match lookup P caller with
  | some (.memento (some _) _ _) => true          -- explicitly versioned caller: not checked
  | _ => caller == callee || (transDeps P ord caller).contains callee || fnArgs.contains callee

end Memento.Version
