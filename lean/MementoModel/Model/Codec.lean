import MementoModel.Model.ArgHash
/-
  The JSON metadata codec (serialization.py `MementoCodec`), as far as mementos are concerned:
  `encode_datetime / decode_datetime`, `encode_versioned_data_source_key / decode_…`,
  `encode_arg / decode_arg`, `encode_fn_reference / decode_fn_reference`,
  `encode_fn_reference_with_args / decode_…`, `encode_resource_handle / decode_…`,
  `encode_invocation_metadata / decode_…`, `encode_memento / decode_memento`;
  together with what the constructors called by the decoders do (reference.py):
  `FunctionReference.from_qualified_name` (local function or external stub),
  `FunctionReference.__init__` / `FunctionReferenceWithArguments.__init__`
  (`ArgumentHasher.normalize` of the argument containers, effective kwargs must be computable).

  Values are the `Arg` of Model/ArgHash.lean (floats / dates / datetimes are named by their
  `repr` / `isoformat()` token), documents are the `JVal` of Model/Json.lean (numbers are named by
  the token `json.dumps` prints).  Below the model (trusted, exercised by the correspondence):
  `json.dumps/json.loads` on primitives, `float.__repr__`, `datetime.isoformat`, `dateutil`
  parsing of the texts `encode_datetime` produces, `timedelta(seconds=total_seconds())`,
  qualified-name parsing / rebuilding (property C12; a qualified name is an opaque token here).
  `decode_*` is modelled as `Option` (`none` = the real decoder raises).
  Core-only.
-/
namespace Memento.Codec
open Memento.Json Memento.ArgHash
set_option linter.unusedVariables false

/-! ## datetime text -/

/-- Python `s.replace("+00:00", "Z")`: every (non-overlapping, left to right) occurrence -/
def replZ : List Char → List Char
  | '+' :: '0' :: '0' :: ':' :: '0' :: '0' :: rest => 'Z' :: replZ rest
  | c :: cs => c :: replZ cs
  | [] => []

/-- `MementoCodec.encode_datetime` on the `isoformat()` text -/
def encDatetime (iso : String) : String := String.ofList (replZ iso.toList)

def plus00 : List Char := ['+', '0', '0', ':', '0', '0']

/-- `isoformat()` of what `dateutil.parser.parse` returns for a text produced by `encode_datetime`:
    a trailing `Z` is UTC and prints as `+00:00`; every other text prints as it was (trusted) -/
def unZ (cs : List Char) : List Char :=
  if cs.getLast? = some 'Z' then cs.dropLast ++ plus00 else cs

/-- `re.match(r"^\d\d\d\d-\d\d-\d\d$", state)` -/
def isDateOnly : List Char → Bool
  | [a, b, c, d, '-', e, f, '-', g, h] =>
    a.isDigit && b.isDigit && c.isDigit && d.isDigit && e.isDigit && f.isDigit && g.isDigit && h.isDigit
  | _ => false

/-- `MementoCodec.decode_datetime`: a `date` iff the text is date-only, else a `datetime` -/
def decDatetime (s : String) : Arg :=
  if isDateOnly s.toList then .date (String.ofList (unZ s.toList)) else .datetime (String.ofList (unZ s.toList))

/-- the `isoformat()` text of `decode_datetime(s)`, whichever of the two types it is -/
def decTimeText (s : String) : String := String.ofList (unZ s.toList)

/-! ## versioned keys `key#version` -/

structure VKey where
  key : String
  version : String
deriving DecidableEq, Repr

/-- `encode_versioned_data_source_key` -/
def encVKey (k : VKey) : String := k.key ++ "#" ++ k.version

/-- split at the **last** `c` -/
def splitLast (c : Char) : List Char → Option (List Char × List Char)
  | [] => none
  | x :: xs =>
    match splitLast c xs with
    | some (a, b) => some (x :: a, b)
    | none => if x = c then some ([], xs) else none

/-- `decode_versioned_data_source_key`: `rfind("#")`; when there is no `#` Python's `-1` makes the key
    `state[0:-1]` (all but the last character) and the version `state[0:]` (everything) -/
def decVKey (s : String) : VKey :=
  match splitLast '#' s.toList with
  | some (a, b) => ⟨String.ofList a, String.ofList b⟩
  | none => ⟨String.ofList s.toList.dropLast, s⟩

/-! ## typed `{type, value}` argument encoding -/

def fnRefTag : String := "twosigma.memento.FunctionReference"

def tagged (ty : String) (v : JVal) : JVal := .obj (.cons "type" (.str ty) (.cons "value" v .nil))

/-- the body of `encode_fn_reference` -/
def refObj (qn : String) (pa : JList) (pk : JObj) (pn : List String) : JVal :=
  .obj (.cons "qualifiedName" (.str qn) (.cons "partialArgs" (.arr pa)
    (.cons "partialKwargs" (.obj pk) (.cons "parameterNames" (.arr (strList pn)) .nil))))

mutual
  /-- `MementoCodec.encode_arg` -/
  def encArg : Arg → JVal
    | .none => .obj (.cons "type" (.str "null") .nil)
    | .bool b => tagged "boolean" (.bool b)
    | .int z => tagged "number" (.num (intTok z))
    | .float t => tagged "number" (.num t)
    | .str s => tagged "string" (.str s)
    | .date iso => tagged "date" (.str (encDatetime iso))
    | .datetime iso => tagged "timestamp" (.str (encDatetime iso))
    | .list l => tagged "list_result" (.arr (encArgL l))
    | .dict d => tagged "dictionary" (.obj (encArgO d))
    | .fnref qn pa pk pn => tagged fnRefTag (refObj qn (encArgL pa) (encArgO pk) pn)
  def encArgL : ArgList → JList
    | .nil => .nil
    | .cons a l => .cons (encArg a) (encArgL l)
  def encArgO : ArgObj → JObj
    | .nil => .nil
    | .cons k a o => .cons k (encArg a) (encArgO o)
end

/-! ## mementos -/

/-- `FunctionReference`: qualified name (opaque), normalized partial arguments, formal parameter names -/
structure FnRef where
  qn : String
  pargs : ArgList
  pkw : ArgObj
  pnames : List String

/-- `FunctionReferenceWithArguments` (its `effective_kwargs` / `arg_hash` are functions of these) -/
structure Call where
  ref : FnRef
  args : ArgList
  kwargs : ArgObj
  ctx : ArgObj

/-- `ResourceHandle` (plain strings, `None` allowed) -/
structure Resource where
  rtype : Option String
  url : Option String
  version : Option String
deriving DecidableEq, Repr

/-- `metadata.ResultType` -/
inductive ResultType
  | exception | null | boolean | string | binary | number | date | timestamp | list_result | dictionary
  | array_boolean | array_int8 | array_int16 | array_int32 | array_int64 | array_float32 | array_float64
  | index | series | data_frame | partition | memento_function
deriving DecidableEq, Repr

def ResultType.all : List ResultType :=
  [.exception, .null, .boolean, .string, .binary, .number, .date, .timestamp, .list_result, .dictionary,
   .array_boolean, .array_int8, .array_int16, .array_int32, .array_int64, .array_float32, .array_float64,
   .index, .series, .data_frame, .partition, .memento_function]

/-- the enum member name (`ResultType.x.name`), which is the wire name -/
def ResultType.name : ResultType → String
  | .exception => "exception" | .null => "null" | .boolean => "boolean" | .string => "string"
  | .binary => "binary" | .number => "number" | .date => "date" | .timestamp => "timestamp"
  | .list_result => "list_result" | .dictionary => "dictionary"
  | .array_boolean => "array_boolean" | .array_int8 => "array_int8" | .array_int16 => "array_int16"
  | .array_int32 => "array_int32" | .array_int64 => "array_int64" | .array_float32 => "array_float32"
  | .array_float64 => "array_float64" | .index => "index" | .series => "series"
  | .data_frame => "data_frame" | .partition => "partition" | .memento_function => "memento_function"

/-- `ResultType[name]` (`KeyError` = `none`) -/
def ResultType.ofName (s : String) : Option ResultType := ResultType.all.find? (fun r => r.name == s)

/-- `Memento` with its `InvocationMetadata` inlined -/
structure Memento where
  time : String                        -- `memento.time.isoformat()`
  call : Call                          -- `invocation_metadata.fn_reference_with_args`
  invocations : Option (List Call)
  resources : Option (List Resource)
  runtime : String                     -- `repr(runtime.total_seconds())`
  resultType : ResultType
  deps : List FnRef                    -- `function_dependencies` (a set; listed in iteration order)
  runner : JVal                        -- a JSON-native dict, passed through
  correlationId : Option String
  contentKey : Option VKey

def optStr : Option String → JVal
  | none => .null
  | some s => .str s

def jlistOf : List JVal → JList
  | [] => .nil
  | v :: r => .cons v (jlistOf r)

/-- `encode_fn_reference` -/
def encRef (r : FnRef) : JVal := refObj r.qn (encArgL r.pargs) (encArgO r.pkw) r.pnames

/-- `encode_fn_reference_with_args` -/
def encCall (c : Call) : JVal :=
  .obj (.cons "fnReference" (encRef c.ref) (.cons "args" (.arr (encArgL c.args))
    (.cons "kwargs" (.obj (encArgO c.kwargs)) (.cons "contextArgs" (.obj (encArgO c.ctx)) .nil))))

/-- `encode_resource_handle` -/
def encResource (r : Resource) : JVal :=
  .obj (.cons "resourceType" (optStr r.rtype) (.cons "url" (optStr r.url) (.cons "version" (optStr r.version) .nil)))

def encOptList {α} (f : α → JVal) : Option (List α) → JVal
  | none => .null
  | some l => .arr (jlistOf (l.map f))

/-- `encode_invocation_metadata` -/
def encMeta (m : Memento) : JVal :=
  .obj (.cons "fnReferenceWithArgs" (encCall m.call)
    (.cons "invocations" (encOptList encCall m.invocations)
    (.cons "resources" (encOptList encResource m.resources)
    (.cons "runtimeSeconds" (.num m.runtime)
    (.cons "resultType" (.str m.resultType.name) .nil)))))

def encContentKey : Option VKey → JVal
  | none => .null
  | some k => .str (encVKey k)

/-- `encode_memento` -/
def encMemento (m : Memento) : JVal :=
  .obj (.cons "time" (.str (encDatetime m.time))
    (.cons "invocationMetadata" (encMeta m)
    (.cons "functionDependencies" (.arr (jlistOf (m.deps.map encRef)))
    (.cons "runner" m.runner
    (.cons "correlationId" (optStr m.correlationId)
    (.cons "contentKey" (encContentKey m.contentKey) .nil))))))

/-! ## decoding -/

/-- the code base a document is decoded against: the qualified names (cluster prefix and version
    included) that resolve to a local memento function of that very version, with the parameter names of
    its signature; every other name becomes an external stub -/
abbrev CodeBase := List (String × List String)

def cbGet (cb : CodeBase) (qn : String) : Option (List String) := (cb.find? (fun p => p.1 == qn)).map (·.2)

/-- `FunctionReference.from_qualified_name(..., parameter_names=doc)`: a local function takes the names
    from its signature (the document's are ignored); a stub takes the document's (`[]` if null) -/
def resolveNames (cb : CodeBase) (qn : String) (doc : Option (List String)) : List String :=
  match cbGet cb qn with
  | some pn => pn
  | none => doc.getD []

/-- `ArgumentHasher.normalize(list(args))` as done by the reference constructors -/
def normL (l : ArgList) : Option ArgList :=
  match normalize (.list l) with
  | some (.list l') => some l'
  | _ => none

/-- `ArgumentHasher.normalize(kwargs)`; the result must still be a dictionary -/
def normO (o : ArgObj) : Option ArgObj :=
  match normalize (.dict o) with
  | some (.dict o') => some o'
  | _ => none

/-- `state[key]` on a JSON object (`none` = `KeyError`) -/
def fld : JObj → String → Option JVal
  | .nil, _ => none
  | .cons k v o, key => if k = key then some v else fld o key

theorem sizeOf_get? : ∀ {o : JObj} {k : String} {v : JVal}, fld o k = some v → sizeOf v < sizeOf o
  | .nil, _, _, h => by simp [fld] at h
  | .cons k' v' o', k, v, h => by
    simp only [fld] at h
    split at h
    · cases h; simp; omega
    · have := sizeOf_get? h; simp; omega

mutual
  /-- `MementoCodec.decode_arg` -/
  def decArg (cb : CodeBase) : JVal → Option Arg
    | .obj o =>
      match fld o "type" with
      | some (.str ty) =>
        if ty = "" then none
        else if ty = "null" then some .none
        else
          match h : fld o "value" with
          | none => none
          | some v =>
            if ty = "boolean" ∨ ty = "string" ∨ ty = "number" then
              -- the value is returned as it is, whatever the tag says
              match v with
              | .null => some .none
              | .bool b => some (.bool b)
              | .num t => if isIntTok t then (t.toInt?).map .int else some (.float t)
              | .str s => some (.str s)
              | _ => none            -- raw containers: outside the model
            else if ty = fnRefTag then
              match decRef cb v with
              | some (qn, pa, pk, pn) => some (.fnref qn pa pk pn)
              | none => none
            else if ty = "list_result" then
              match hv : v with
              | .arr l => (decArgL cb l).map .list
              | _ => none
            else if ty = "dictionary" then
              match hv : v with
              | .obj d => (decArgO cb d).map .dict
              | _ => none
            else if ty = "date" ∨ ty = "timestamp" then
              match v with
              | .str s => some (decDatetime s)
              | _ => none
            else none                 -- binary / arrays: not argument types; unknown: ValueError
      | _ => none
    | _ => none
  termination_by v => sizeOf v
  decreasing_by
    all_goals simp_wf
    all_goals (have := sizeOf_get? h; subst_vars; simp at this ⊢; omega)
  def decArgL (cb : CodeBase) : JList → Option ArgList
    | .nil => some .nil
    | .cons v l =>
      match decArg cb v, decArgL cb l with
      | some a, some l' => some (.cons a l')
      | _, _ => none
  termination_by l => sizeOf l
  def decArgO (cb : CodeBase) : JObj → Option ArgObj
    | .nil => some .nil
    | .cons k v o =>
      match decArg cb v, decArgO cb o with
      | some a, some o' => some (.cons k a o')
      | _, _ => none
  termination_by o => sizeOf o
  /-- `MementoCodec.decode_fn_reference` + `FunctionReference.from_qualified_name` +
      `FunctionReference.__init__` (partial arguments normalized) -/
  def decRef (cb : CodeBase) : JVal → Option (String × ArgList × ArgObj × List String)
    | .obj o =>
      match fld o "qualifiedName" with
      | some (.str qn) =>
        match hpa : fld o "partialArgs", hpk : fld o "partialKwargs", fld o "parameterNames" with
        | some pav, some pkv, some pnv =>
          let pa : Option ArgList := match hv : pav with
            | .null => some .nil
            | .arr l => decArgL cb l
            | _ => none
          let pk : Option ArgObj := match hv : pkv with
            | .null => some .nil
            | .obj d => decArgO cb d
            | _ => none
          let pn : Option (Option (List String)) := match pnv with
            | .null => some none
            | .arr l => (jstrings l).map some
            | _ => none
          match pa, pk, pn with
          | some pa, some pk, some pn =>
            match normL pa, normO pk with
            | some pa', some pk' => some (qn, pa', pk', resolveNames cb qn pn)
            | _, _ => none
          | _, _, _ => none
        | _, _, _ => none
      | _ => none
    | _ => none
  termination_by v => sizeOf v
  decreasing_by
    all_goals simp_wf
    · have := sizeOf_get? hpa; subst_vars; simp at this ⊢; omega
    · have := sizeOf_get? hpk; subst_vars; simp at this ⊢; omega
end

def decFnRef (cb : CodeBase) (v : JVal) : Option FnRef :=
  (decRef cb v).map (fun (qn, pa, pk, pn) => ⟨qn, pa, pk, pn⟩)

def jtoList : JList → List JVal
  | .nil => []
  | .cons v l => v :: jtoList l

def mapOpt {α β} (f : α → Option β) : List α → Option (List β)
  | [] => some []
  | a :: r =>
    match f a, mapOpt f r with
    | some b, some r' => some (b :: r')
    | _, _ => none

def decOptArgL (cb : CodeBase) : JVal → Option ArgList
  | .null => some .nil
  | .arr l => decArgL cb l
  | _ => none

def decOptArgO (cb : CodeBase) : JVal → Option ArgObj
  | .null => some .nil
  | .obj d => decArgO cb d
  | _ => none

/-- the effective kwargs of a call (`_compute_effective_kwargs`), `none` = the constructor raises -/
def callEffKw (c : Call) : Option KwMap :=
  match effKw c.ref.pnames c.ref.pargs.toList c.ref.pkw.toList c.args.toList c.kwargs.toList with
  | .ok m => some m
  | .error _ => none

/-- `arg_hash` of a call, for a given hash function on strings -/
def callHash (H : String → String) (c : Call) : Option String :=
  (callEffKw c).map (fun kw => argHash H kw c.ctx.toList)

/-- `decode_fn_reference_with_args` + `FunctionReferenceWithArguments.__init__` -/
def decCall (cb : CodeBase) : JVal → Option Call
  | .obj o =>
    match fld o "fnReference", fld o "args", fld o "kwargs", fld o "contextArgs" with
    | some rv, some av, some kv, some cv =>
      match decFnRef cb rv, decOptArgL cb av, decOptArgO cb kv, decOptArgO cb cv with
      | some ref, some args, some kwargs, some ctx =>
        match normL args, normO kwargs, normO ctx with
        | some args', some kwargs', some ctx' =>
          let c : Call := ⟨ref, args', kwargs', ctx'⟩
          if (callEffKw c).isSome then some c else none
        | _, _, _ => none
      | _, _, _, _ => none
    | _, _, _, _ => none
  | _ => none

def decOptStr : JVal → Option (Option String)
  | .null => some none
  | .str s => some (some s)
  | _ => none

/-- `decode_resource_handle` (fields are passed through; the model accepts strings and null) -/
def decResource : JVal → Option Resource
  | .obj o =>
    match fld o "resourceType", fld o "url", fld o "version" with
    | some a, some b, some c =>
      match decOptStr a, decOptStr b, decOptStr c with
      | some a, some b, some c => some ⟨a, b, c⟩
      | _, _, _ => none
    | _, _, _ => none
  | _ => none

def decOptList {α} (f : JVal → Option α) : JVal → Option (Option (List α))
  | .null => some none
  | .arr l => (mapOpt f (jtoList l)).map some
  | _ => none

/-- the three non-finite tokens `json.dumps` prints (`allow_nan=True`) -/
def nonFiniteTok (t : String) : Bool := t == "NaN" || t == "Infinity" || t == "-Infinity"

/-- `timedelta(seconds=x).total_seconds()` printed: floats as they are, (small) integers as `n.0`;
    NaN / infinities are rejected by `timedelta` -/
def decRuntime : JVal → Option String
  | .num t => if nonFiniteTok t then none else if isIntTok t then some (t ++ ".0") else some t
  | _ => none

def decContentKey : JVal → Option (Option VKey)
  | .null => some none
  | .str s => some (some (decVKey s))
  | _ => none

/-- `decode_memento` (+ `decode_invocation_metadata`) -/
def decMemento (cb : CodeBase) : JVal → Option Memento
  | .obj o =>
    match fld o "time", fld o "invocationMetadata", fld o "functionDependencies",
          fld o "runner", fld o "correlationId", fld o "contentKey" with
    | some (.str t), some (.obj im), some dv, some runner, some cid, some ck =>
      match fld im "fnReferenceWithArgs", fld im "invocations", fld im "resources",
            fld im "runtimeSeconds", fld im "resultType" with
      | some cv, some iv, some rv, some rt, some (.str rty) =>
        match decCall cb cv, decOptList (decCall cb) iv, decOptList decResource rv, decRuntime rt,
              ResultType.ofName rty with
        | some call, some invs, some ress, some runtime, some resultType =>
          let deps : Option (List FnRef) := match dv with
            | .null => some []
            | .arr l => mapOpt (decFnRef cb) (jtoList l)
            | _ => none
          match deps, decOptStr cid, decContentKey ck with
          | some deps, some cid, some ck =>
            some ⟨decTimeText t, call, invs, ress, runtime, resultType, deps, runner, cid, ck⟩
          | _, _, _ => none
        | _, _, _, _, _ => none
      | _, _, _, _, _ => none
    | _, _, _, _, _, _ => none
  | _ => none

/-! ## the wire format other implementations read -/

def allStr : JList → Bool
  | .nil => true
  | .cons (.str _) l => allStr l
  | .cons _ _ => false

mutual
  /-- a typed argument node: exactly `{"type": "null"}` or `{"type": T, "value": V}` with `V` of the JSON
      kind `T` announces -/
  def wireArg : JVal → Bool
    | .obj (.cons k1 (.str ty) .nil) => k1 == "type" && ty == "null"
    | .obj (.cons k1 (.str ty) (.cons k2 v .nil)) => k1 == "type" && k2 == "value" && wireVal ty v
    | _ => false
  def wireVal (ty : String) : JVal → Bool
    | .null => false
    | .bool _ => ty == "boolean"
    | .num _ => ty == "number"
    | .str _ => ty == "string" || ty == "date" || ty == "timestamp"
    | .arr l => ty == "list_result" && wireArgL l
    | .obj o => (ty == "dictionary" && wireArgO o) || (ty == fnRefTag && wireRefO o)
  def wireArgL : JList → Bool
    | .nil => true
    | .cons v l => wireArg v && wireArgL l
  def wireArgO : JObj → Bool
    | .nil => true
    | .cons _ v o => wireArg v && wireArgO o
  /-- the four fields of a function reference -/
  def wireRefO : JObj → Bool
    | .cons k1 (.str _) (.cons k2 (.arr pa) (.cons k3 (.obj pk) (.cons k4 (.arr pn) .nil))) =>
      k1 == "qualifiedName" && k2 == "partialArgs" && k3 == "partialKwargs" && k4 == "parameterNames" &&
        wireArgL pa && wireArgO pk && allStr pn
    | _ => false
end

def wireRef : JVal → Bool
  | .obj o => wireRefO o
  | _ => false

def wireCall : JVal → Bool
  | .obj (.cons k1 r (.cons k2 (.arr a) (.cons k3 (.obj kw) (.cons k4 (.obj cx) .nil)))) =>
    k1 == "fnReference" && k2 == "args" && k3 == "kwargs" && k4 == "contextArgs" &&
      wireRef r && wireArgL a && wireArgO kw && wireArgO cx
  | _ => false

def isOptStr : JVal → Bool
  | .null => true
  | .str _ => true
  | _ => false

def wireResource : JVal → Bool
  | .obj (.cons k1 a (.cons k2 b (.cons k3 c .nil))) =>
    k1 == "resourceType" && k2 == "url" && k3 == "version" && isOptStr a && isOptStr b && isOptStr c
  | _ => false

def allJ (p : JVal → Bool) : JList → Bool
  | .nil => true
  | .cons v l => p v && allJ p l

def wireOptList (p : JVal → Bool) : JVal → Bool
  | .null => true
  | .arr l => allJ p l
  | _ => false

def wireMeta : JVal → Bool
  | .obj (.cons k1 c (.cons k2 iv (.cons k3 rv (.cons k4 (.num _) (.cons k5 (.str rty) .nil))))) =>
    k1 == "fnReferenceWithArgs" && k2 == "invocations" && k3 == "resources" && k4 == "runtimeSeconds" &&
      k5 == "resultType" && wireCall c && wireOptList wireCall iv && wireOptList wireResource rv &&
      (ResultType.ofName rty).isSome
  | _ => false

/-- **the wire format**: exact field names per object, typed `{type, value}` arguments whose tag agrees
    with the JSON kind of the value, result type among the enum's names -/
def wireMemento : JVal → Bool
  | .obj (.cons k1 (.str _) (.cons k2 im (.cons k3 (.arr deps) (.cons k4 _ (.cons k5 cid (.cons k6 ck .nil)))))) =>
    k1 == "time" && k2 == "invocationMetadata" && k3 == "functionDependencies" && k4 == "runner" &&
      k5 == "correlationId" && k6 == "contentKey" && wireMeta im && allJ wireRef deps && isOptStr cid && isOptStr ck
  | _ => false

mutual
  /-- plain (RFC 8259) JSON: no `NaN` / `Infinity` / `-Infinity` number tokens anywhere -/
  def strictJson : JVal → Bool
    | .num t => !nonFiniteTok t
    | .arr l => strictJsonL l
    | .obj o => strictJsonO o
    | _ => true
  def strictJsonL : JList → Bool
    | .nil => true
    | .cons v l => strictJson v && strictJsonL l
  def strictJsonO : JObj → Bool
    | .nil => true
    | .cons _ v o => strictJson v && strictJsonO o
end

/-! ## the domain: shape of the value tokens, and agreement with the code base -/

/-- shape of `date.isoformat()` -/
def wfDate (iso : String) : Bool := isDateOnly iso.toList

def tzShape : List Char → Bool
  | [s, a, b, ':', c, d] => (s == '+' || s == '-') && a.isDigit && b.isDigit && c.isDigit && d.isDigit
  | _ => false

def bodyChar (c : Char) : Bool := c.isDigit || c == '-' || c == ':' || c == '.' || c == 'T'

/-- shape of `datetime.isoformat()`: `YYYY-MM-DDTHH:MM:SS[.ffffff]` then nothing or `±hh:mm`
    (whole-minute offsets: what `dateutil.isoparse`, hence `ArgumentHasher.normalize`, accepts) -/
def wfDateTime (iso : String) : Bool :=
  let cs := iso.toList
  let n := cs.length
  let body := if tzShape (cs.drop (n - 6)) then cs.take (n - 6) else cs
  body.all bodyChar && body.contains 'T'

def noMT (o : ArgObj) : Bool := !((o.toList.map (·.1)).contains "_mementoType")

mutual
  /-- values as `ArgumentHasher.normalize` leaves them, with well-shaped tokens: float tokens are not integer
      literals, date / datetime tokens are `isoformat()` texts, no dictionary has a `_mementoType` key -/
  def wfArg : Arg → Bool
    | .float t => !isIntTok t
    | .date iso => wfDate iso
    | .datetime iso => wfDateTime iso
    | .list l => wfArgL l
    | .dict d => wfArgO d && noMT d
    | .fnref _ pa pk _ => wfArgL pa && wfArgO pk && noMT pk
    | _ => true
  def wfArgL : ArgList → Bool
    | .nil => true
    | .cons a l => wfArg a && wfArgL l
  def wfArgO : ArgObj → Bool
    | .nil => true
    | .cons _ a o => wfArg a && wfArgO o
end

/-- a reference agrees with the code base: if its qualified name resolves locally, the parameter names
    it carries are those of the local function -/
def namesAgree (cb : CodeBase) (qn : String) (pn : List String) : Bool :=
  match cbGet cb qn with
  | some pn' => pn' == pn
  | none => true

mutual
  def resolved (cb : CodeBase) : Arg → Bool
    | .list l => resolvedL cb l
    | .dict d => resolvedO cb d
    | .fnref qn pa pk pn => resolvedL cb pa && resolvedO cb pk && namesAgree cb qn pn
    | _ => true
  def resolvedL (cb : CodeBase) : ArgList → Bool
    | .nil => true
    | .cons a l => resolved cb a && resolvedL cb l
  def resolvedO (cb : CodeBase) : ArgObj → Bool
    | .nil => true
    | .cons _ a o => resolved cb a && resolvedO cb o
end

mutual
  /-- no NaN / infinity among the float tokens -/
  def finiteArg : Arg → Bool
    | .float t => !nonFiniteTok t
    | .list l => finiteArgL l
    | .dict d => finiteArgO d
    | .fnref _ pa pk _ => finiteArgL pa && finiteArgO pk
    | _ => true
  def finiteArgL : ArgList → Bool
    | .nil => true
    | .cons a l => finiteArg a && finiteArgL l
  def finiteArgO : ArgObj → Bool
    | .nil => true
    | .cons _ a o => finiteArg a && finiteArgO o
end

def wfRef (cb : CodeBase) (r : FnRef) : Bool :=
  wfArgL r.pargs && wfArgO r.pkw && noMT r.pkw && resolvedL cb r.pargs && resolvedO cb r.pkw && namesAgree cb r.qn r.pnames

/-- a call object that can exist: normalized, well-shaped containers; effective kwargs computable -/
def wfCall (cb : CodeBase) (c : Call) : Bool :=
  wfRef cb c.ref && wfArgL c.args && wfArgO c.kwargs && noMT c.kwargs && wfArgO c.ctx && noMT c.ctx &&
    resolvedL cb c.args && resolvedO cb c.kwargs && resolvedO cb c.ctx && (callEffKw c).isSome

def wfOptList {α} (p : α → Bool) : Option (List α) → Bool
  | none => true
  | some l => l.all p

def wfVKey (k : VKey) : Bool := !k.version.toList.contains '#'

/-- `repr` of a finite float: a numeric token that is not an integer literal and not NaN / ±Infinity -/
def wfRuntime (t : String) : Bool := !isIntTok t && !nonFiniteTok t

/-- the mementos the theorems quantify over -/
def wfMemento (cb : CodeBase) (m : Memento) : Bool :=
  wfDateTime m.time && wfCall cb m.call && wfOptList (wfCall cb) m.invocations && m.deps.all (wfRef cb) &&
    wfRuntime m.runtime && (match m.contentKey with | none => true | some k => wfVKey k)

def finiteRef (r : FnRef) : Bool := finiteArgL r.pargs && finiteArgO r.pkw

def finiteCall (c : Call) : Bool := finiteRef c.ref && finiteArgL c.args && finiteArgO c.kwargs && finiteArgO c.ctx

/-- no NaN / infinity anywhere in the memento (and the runner description is plain JSON) -/
def finiteMemento (m : Memento) : Bool :=
  finiteCall m.call && wfOptList finiteCall m.invocations && m.deps.all finiteRef && !nonFiniteTok m.runtime &&
    strictJson m.runner

end Memento.Codec
