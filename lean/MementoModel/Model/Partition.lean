/-!
# Model of partitions (`partition.py`, `OnDiskPartition`, `DefaultCodec.PicklePartition`,
`PicklePartitionStrategy.store`)

A partition is a string-keyed dictionary whose values are stored one blob per key plus an index.
Values are abstract (`V`): a value and the content key of its blob are identified — that a blob reads
back as the value stored is C02/C07's business.

* `Part.mem own parent recorded` — an `InMemoryPartition` / `OnDiskPartition` object (they differ in
  where `own` is staged, not in behaviour): own entries, optional `_merge_parent`, and — once the
  object has been serialised — the index that was written (`_output_keys`; `none` = never serialised).
* `Part.pickle index` — a `PicklePartition` read back from the store: the index only.

An index maps key ↦ (value, `from_parent`). Dictionaries are association lists; lookup takes the first
entry for a key; `store` builds them without duplicates. Core-only, total, executable.
-/
namespace Memento.Partition

abbrev K := Nat
abbrev V := Nat
abbrev KV := List (K × V)
abbrev Index := List (K × V × Bool)

def kvGet : KV → K → Option V
  | [], _ => none
  | (a, v) :: r, k => if a = k then some v else kvGet r k

def ixGet : Index → K → Option (V × Bool)
  | [], _ => none
  | (a, e) :: r, k => if a = k then some e else ixGet r k

inductive Part
  | mem (own : KV) (parent : Option Part) (recorded : Option Index)
  | pickle (index : Index)

/-- `get(key)`; `none` = `ValueError` (key not in the key list) -/
def Part.get : Part → K → Option V
  | .mem own none _, k => kvGet own k
  | .mem own (some p) _, k =>
    match kvGet own k with
    | some v => some v
    | none => p.get k
  | .pickle ix, k => (ixGet ix k).map (·.1)

def insertKey (k : K) : List K → List K
  | [] => [k]
  | a :: r => if k < a then k :: a :: r else if k = a then a :: r else a :: insertKey k r

/-- sorted, duplicate-free union -/
def sortKeys (l : List K) : List K := l.foldr insertKey []

/-- `list_keys(_include_merge_parent)` -/
def Part.listKeys : Part → Bool → List K
  | .mem own none _, _ => sortKeys (own.map (·.1))
  | .mem own (some p) _, incl =>
    if incl then sortKeys (p.listKeys true ++ own.map (·.1)) else sortKeys (own.map (·.1))
  | .pickle ix, incl =>
    if incl then sortKeys (ix.map (·.1)) else sortKeys ((ix.filter (fun e => !e.2.2)).map (·.1))

/-- remove the entries of key `k` -/
def ixDel (ix : Index) (k : K) : Index := ix.filter (fun e => e.1 != k)

/-- layer the own entries (not from the parent) over an index: `index[k] = entry` for each own key, in
    `list_keys(False)` order (sorted, one per key; the value is `get(k)`: the first entry of `own`) -/
def layer (own : KV) : List K → Index → Index
  | [], ix => ix
  | k :: ks, ix =>
    match kvGet own k with
    | some v => layer own ks ((k, v, false) :: ixDel ix k)
    | none => layer own ks ix

/-- the parent's index as `PicklePartitionStrategy.store` obtains it: a `PicklePartition`'s `_index`, or the
    `_output_keys` recorded on a partition object that was serialised earlier in this process; `none` = IOError -/
def parentIndex : Option Part → Option Index
  | none => some []
  | some (.pickle ix) => some ix
  | some (.mem _ _ (some r)) => some r
  | some (.mem _ _ none) => none

/-- `PicklePartitionStrategy.store obj`: the index written, and the object afterwards (its `_output_keys`
    now record the whole index). `none` = IOError (the runner swallows it: the result is not memoized). -/
def store : Part → Option (Index × Part)
  | .mem own parent rec =>
    match parentIndex parent with
    | none => none
    | some pix =>
      let base : Index := pix.map (fun e => (e.1, e.2.1, true))
      let ix := layer own (sortKeys (own.map (·.1))) base
      some (ix, .mem own parent (some ix))
  | .pickle ix =>
    -- a partition read back from the store and returned again (fix F20): inherited entries are carried over,
    -- the others are stored again and layered on top
    let own : KV := (ix.filter (fun e => !e.2.2)).map (fun e => (e.1, e.2.1))
    let base : Index := ix.filter (fun e => e.2.2)
    some (layer own (sortKeys (own.map (·.1))) base, .pickle ix)

/-- reading the result back from the store -/
def load (ix : Index) : Part := .pickle ix

end Memento.Partition
