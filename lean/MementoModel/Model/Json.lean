/-
  JSON values and memento's *normalized JSON* (reference.py `ArgumentHasher._normalized_json`):
  objects with keys sorted, no whitespace, primitives rendered by `json.dumps`.

  Token level: primitives are atomic tokens (their character rendering — string escaping, float
  repr — is `json.dumps` on primitives and is part of the trusted base; the driver renders them so
  that the byte-exact string can be compared through SHA-256 with the real `arg_hash`).
  Core-only.
-/
namespace Memento.Json

mutual
  inductive JVal
    | null
    | bool (b : Bool)
    | num (t : String)          -- the numeric token as `json.dumps` prints it (`1`, `1.0`, `1e+16`, `NaN`, …)
    | str (s : String)
    | arr (l : JList)
    | obj (o : JObj)
  inductive JList
    | nil
    | cons (v : JVal) (l : JList)
  inductive JObj
    | nil
    | cons (k : String) (v : JVal) (o : JObj)   -- in insertion order (a Python dict)
end

inductive Prim
  | null | bool (b : Bool) | num (t : String) | str (s : String)
deriving DecidableEq, Repr

inductive Tok
  | lb | rb | lc | rc | comma | colon | prim (p : Prim)
deriving DecidableEq, Repr

/-- insert a key/value pair into a key-sorted association list (before greater keys; members with
    equal keys do not keep their order — Python dict keys are distinct, see `DistinctJ`) -/
def insertKV {β} (k : String) (v : β) : List (String × β) → List (String × β)
  | [] => [(k, v)]
  | (k', v') :: rest => if k < k' then (k, v) :: (k', v') :: rest else (k', v') :: insertKV k v rest

/-- `sorted(obj.items(), key=lambda t: t[0])` (insertion sort) -/
def sortKV {β} (l : List (String × β)) : List (String × β) := l.foldr (fun p acc => insertKV p.1 p.2 acc) []

/-- members joined by commas: `"k":v,"k2":v2` -/
def serKVs : List (String × List Tok) → List Tok
  | [] => []
  | [(k, ts)] => .prim (.str k) :: .colon :: ts
  | (k, ts) :: rest => .prim (.str k) :: .colon :: ts ++ .comma :: serKVs rest

mutual
  /-- `_normalized_json` as a token list -/
  def ser : JVal → List Tok
    | .null => [.prim .null]
    | .bool b => [.prim (.bool b)]
    | .num t => [.prim (.num t)]
    | .str s => [.prim (.str s)]
    | .arr l => .lb :: serL l ++ [.rb]
    | .obj o => .lc :: serKVs (sortKV (serO o)) ++ [.rc]
  /-- elements separated by commas -/
  def serL : JList → List Tok
    | .nil => []
    | .cons v .nil => ser v
    | .cons v l => ser v ++ .comma :: serL l
  /-- each member rendered on its own: `(key, tokens of the value)` -/
  def serO : JObj → List (String × List Tok)
    | .nil => []
    | .cons k v o => (k, ser v) :: serO o
end

/-! ### character rendering (driver only; mirrors `json.dumps` with `ensure_ascii=True`) -/

def hex4 (n : Nat) : String :=
  let d (i : Nat) : Char :=
    let x := (n / (16 ^ i)) % 16
    if x < 10 then Char.ofNat (48 + x) else Char.ofNat (87 + x)
  String.ofList [d 3, d 2, d 1, d 0]

def escapeChar (c : Char) : String :=
  if c = '"' then "\\\"" else if c = '\\' then "\\\\"
  else if c = '\n' then "\\n" else if c = '\r' then "\\r" else if c = '\t' then "\\t"
  else if c.toNat = 8 then "\\b" else if c.toNat = 12 then "\\f"
  else if 32 ≤ c.toNat ∧ c.toNat ≤ 126 then String.singleton c     -- `[ -~]` is printed as is
  else if c.toNat < 0x10000 then "\\u" ++ hex4 c.toNat
  else
    let v := c.toNat - 0x10000
    "\\u" ++ hex4 (0xD800 + v / 0x400) ++ "\\u" ++ hex4 (0xDC00 + v % 0x400)

def renderStr (s : String) : String := "\"" ++ String.join (s.toList.map escapeChar) ++ "\""

def renderTok : Tok → String
  | .lb => "[" | .rb => "]" | .lc => "{" | .rc => "}" | .comma => "," | .colon => ":"
  | .prim .null => "null"
  | .prim (.bool true) => "true"
  | .prim (.bool false) => "false"
  | .prim (.num t) => t
  | .prim (.str s) => renderStr s

def render (ts : List Tok) : String := String.join (ts.map renderTok)

end Memento.Json
