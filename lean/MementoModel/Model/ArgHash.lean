import MementoModel.Model.Json
/-
  Argument identity (reference.py): `ArgumentHasher._encode/_decode/normalize/compute_hash`,
  `FunctionReferenceWithArguments._compute_effective_kwargs[_with_context_args]`.
  The digest is `SHA-256(render (ser (encode effectiveKwargsWithContext)))`; SHA-256 is a parameter.
  Core-only.
-/
namespace Memento.ArgHash
open Memento.Json

mutual
  /-- argument values of the documented domain -/
  inductive Arg
    | none
    | bool (b : Bool)
    | int (z : Int)
    | float (t : String)                    -- the float, named by its `repr` / `json.dumps` token
    | str (s : String)
    | date (iso : String)                   -- `datetime.date`, named by `isoformat()`
    | datetime (iso : String)               -- `datetime.datetime` (naive or aware), named by `isoformat()`
    | list (l : ArgList)
    | dict (d : ArgObj)
    | fnref (qn : String) (pargs : ArgList) (pkw : ArgObj) (pnames : List String)  -- a memento function
  inductive ArgList
    | nil
    | cons (a : Arg) (l : ArgList)
  inductive ArgObj
    | nil
    | cons (k : String) (a : Arg) (o : ArgObj)
end

def intTok (z : Int) : String := toString z   -- `json.dumps(int)`: decimal, leading `-`

def strList : List String → JList
  | [] => .nil
  | s :: ss => .cons (.str s) (strList ss)

def ArgList.isEmpty : ArgList → Bool
  | .nil => true
  | _ => false

mutual
  /-- `ArgumentHasher._encode` -/
  def encode : Arg → JVal
    | .none => .null
    | .bool b => .bool b
    | .int z => .num (intTok z)
    | .float t => .num t
    | .str s => .str s
    | .date iso => .obj (.cons "_mementoType" (.str "date") (.cons "iso8601" (.str iso) .nil))
    | .datetime iso => .obj (.cons "_mementoType" (.str "datetime") (.cons "iso8601" (.str iso) .nil))
    | .list l => .arr (encodeL l)
    | .dict d => .obj (encodeO d)
    | .fnref qn pargs pkw pnames =>
      .obj (.cons "_mementoType" (.str "FunctionReference")
        (.cons "qualifiedName" (.str qn)
        (.cons "partialArgs" (if pargs.isEmpty then .null else .arr (encodeL pargs))
        (.cons "partialKwargs" (.obj (encodeO pkw))
        (.cons "parameterNames" (.arr (strList pnames)) .nil)))))
  def encodeL : ArgList → JList
    | .nil => .nil
    | .cons a l => .cons (encode a) (encodeL l)
  def encodeO : ArgObj → JObj
    | .nil => .nil
    | .cons k a o => .cons k (encode a) (encodeO o)
end

def JObj.get? : JObj → String → Option JVal
  | .nil, _ => none
  | .cons k v o, key => if k = key then some v else JObj.get? o key

def JObj.hasKey (o : JObj) (key : String) : Bool := (JObj.get? o key).isSome

def jstrings : JList → Option (List String)
  | .nil => some []
  | .cons (.str s) l => (jstrings l).map (s :: ·)
  | .cons _ _ => none

/-- a numeric token is an integer literal iff it is `-?[0-9]+` (how `json.loads` separates int / float) -/
def isIntTok (t : String) : Bool :=
  let cs := t.toList
  let ds := match cs with | '-' :: r => r | r => r
  !ds.isEmpty && ds.all Char.isDigit

def ArgList.ofList : List Arg → ArgList
  | [] => .nil
  | a :: r => .cons a (ArgList.ofList r)

def ArgObj.ofList : List (String × Arg) → ArgObj
  | [] => .nil
  | (k, a) :: r => .cons k a (ArgObj.ofList r)

def ArgList.strings : ArgList → Option (List String)
  | .nil => some []
  | .cons (.str s) l => (ArgList.strings l).map (s :: ·)
  | .cons _ _ => none

def lget (ms : List (String × Option Arg)) (key : String) : Option (Option Arg) :=
  (ms.find? (fun p => p.1 == key)).map (·.2)

def allSome : List (String × Option Arg) → Option (List (String × Arg))
  | [] => some []
  | (k, some a) :: r => (allSome r).map ((k, a) :: ·)
  | (_, none) :: _ => none

/-- what `_decode` makes of an object whose members were decoded individually (`none` = that
    member does not decode); members that `_decode` does not look at are ignored, as in the code -/
def interpObj (ms : List (String × Option Arg)) : Option Arg :=
  match lget ms "_mementoType" with
  | some (some (.str "FunctionReference")) =>
    match lget ms "qualifiedName", lget ms "partialArgs", lget ms "partialKwargs", lget ms "parameterNames" with
    | some (some (.str qn)), some (some pa), some (some (.dict pkw)), some (some (.list pn)) =>
      match (match pa with | .none => some ArgList.nil | .list l => some l | _ => none), pn.strings with
      | some pargs, some names => some (.fnref qn pargs pkw names)
      | _, _ => none
    | _, _, _, _ => none
  | some (some (.str "datetime")) =>
    match lget ms "iso8601" with
    | some (some (.str iso)) => some (.datetime iso)
    | _ => none
  | some (some (.str "date")) =>
    match lget ms "iso8601" with
    | some (some (.str iso)) => some (.date iso)
    | _ => none
  | some _ => none                         -- unknown `_mementoType`: ValueError
  | none =>
    (allSome ms).map (fun l => .dict (ArgObj.ofList l))

mutual
  /-- `ArgumentHasher._decode` (`none` = it raises) -/
  def decode : JVal → Option Arg
    | .null => some .none
    | .bool b => some (.bool b)
    | .num t => if isIntTok t then (t.toInt?).map .int else some (.float t)
    | .str s => some (.str s)
    | .arr l => (decodeL l).map .list
    | .obj o => interpObj (decodeO o)
  def decodeL : JList → Option ArgList
    | .nil => some .nil
    | .cons v l => match decode v, decodeL l with
      | some a, some l' => some (.cons a l')
      | _, _ => none
  def decodeO : JObj → List (String × Option Arg)
    | .nil => []
    | .cons k v o => (k, decode v) :: decodeO o
end

/-- `ArgumentHasher.normalize` -/
def normalize (a : Arg) : Option Arg := decode (encode a)

/-! ### effective keyword arguments -/

abbrev KwMap := List (String × Arg)     -- a Python dict: insertion-ordered, distinct keys

def kwSet (m : KwMap) (k : String) (v : Arg) : KwMap :=
  if m.any (fun p => p.1 == k) then m.map (fun p => if p.1 == k then (k, v) else p) else m ++ [(k, v)]

def kwHas (m : KwMap) (k : String) : Bool := m.any (fun p => p.1 == k)

def kwGet (m : KwMap) (k : String) : Option Arg := (m.find? (fun p => p.1 == k)).map (·.2)

def ArgList.toList : ArgList → List Arg
  | .nil => []
  | .cons a l => a :: l.toList

def ArgObj.toList : ArgObj → List (String × Arg)
  | .nil => []
  | .cons k a o => (k, a) :: o.toList

inductive Err | tooManyPartial | tooManyArgs
deriving DecidableEq, Repr

/-- bind values to names by position -/
def bindPos (m : KwMap) : List String → List Arg → KwMap
  | n :: ns, a :: as => bindPos (kwSet m n a) ns as
  | _, _ => m

/-- `_compute_effective_kwargs`: partial kwargs, partial args by position, positional args on the
    *remaining* names, then keyword args -/
def effKw (params : List String) (pargs : List Arg) (pkw : KwMap) (args : List Arg) (kwargs : KwMap) :
    Except Err KwMap :=
  let r0 := pkw.foldl (fun m p => kwSet m p.1 p.2) []
  if params.length < pargs.length then .error .tooManyPartial else
  let r1 := bindPos r0 params pargs
  let remaining := params.filter (fun n => !kwHas r1 n)
  if remaining.length < args.length then .error .tooManyArgs else
  let r2 := bindPos r1 remaining args
  .ok (kwargs.foldl (fun m p => kwSet m p.1 p.2) r2)

/-- `MementoFunctionBase.partial(*a, **k)` on a function that already carries `pargs` / `pkw`: "successive calls to
    partial append args and update kwargs" (`new_partial_args += partial_args; new_partial_kwargs.update(partial_kwargs)`) -/
def partialStep (pargs : List Arg) (pkw : KwMap) (a : List Arg) (k : KwMap) : List Arg × KwMap :=
  (pargs ++ a, k.foldl (fun m p => kwSet m p.1 p.2) pkw)

/-- `_compute_effective_kwargs_with_context_args`: context args under one reserved key iff non-empty -/
def withCtx (kw : KwMap) (ctx : KwMap) : KwMap :=
  if ctx.isEmpty then kw else kwSet kw "_memento_context_args" (.dict (ArgObj.ofList ctx))

/-- the token list whose rendering is hashed: `_normalized_json(_encode(effective kwargs with ctx))` -/
def keyTokens (kw : KwMap) (ctx : KwMap) : List Tok :=
  ser (encode (.dict (ArgObj.ofList (withCtx kw ctx))))

/-- the argument hash, for a given hash function on strings -/
def argHash (H : String → String) (kw : KwMap) (ctx : KwMap) : String := H (render (keyTokens kw ctx))

end Memento.ArgHash
