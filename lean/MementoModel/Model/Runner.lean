/-
  The local runner: `MementoFunctionBase.call / call_batch` (base.py), `MementoFunction._validate_dependency`
  (memento.py:552-605), `memento_run_batch`, `LocalRunnerBackend.batch_run`, `memento_run_local`,
  `propagate_dependencies` (runner_local.py), `process_existing_memento` (runner.py),
  `MementoException.from_exception / to_exception` (exception.py), `ResourceFunction.__call__`.

  Programs are interaction trees: a body returns, raises, calls a memento function (and continues
  with what the call returned or raised), evaluates a batch, or obtains a resource handle.
  The store is the abstract dictionary of C05 (every backend refines it); single thread (C09 adds threads).
  Core-only.
-/
namespace Memento.Runner

abbrev Fn := Nat
abbrev Val := Int

/-- context arguments: `0` = none / the empty dict (not hashed), `c ≥ 1` = a non-empty dict -/
abbrev Ctx := Nat

/-- the modifier on the function object being called: no `with_context_args` (inherit the caller's),
    or `with_context_args(d)` — even `{}` (= `set 0`) replaces the inherited ones entirely -/
inductive CtxSpec
  | inherit
  | set (c : Ctx)
deriving DecidableEq, Repr

/-- exception classes, as far as the runner distinguishes them -/
abbrev Cls := Nat
def clsRebuildable : Cls := 0      -- e.g. ValueError(msg): rebuilt from its message on replay
def clsOpaque : Cls := 1           -- cannot be rebuilt from one string: replayed as MementoException
def clsNonMemoized : Cls := 2      -- NonMemoizedException: never recorded
def clsUndeclared : Cls := 7       -- UndeclaredDependencyError (a RuntimeError; rebuildable)
def clsRuntime : Cls := 8          -- RuntimeError("Further Memento calls are prevented…")
def clsMemento : Cls := 9          -- MementoException

inductive Outcome
  | val (v : Option Val)           -- `none` = Python `None`
  | exc (cls : Cls) (msg : Nat)    -- raised exception: class and (original) message
deriving DecidableEq, Repr

/-- what a *replayed* exception looks like (`to_exception`) -/
def replay : Outcome → Outcome
  | .exc c m => .exc (if c = clsOpaque then clsMemento else c) m
  | o => o

def Outcome.isExc : Outcome → Bool
  | .exc _ _ => true
  | _ => false

structure Flags where
  ignore  : Bool := false    -- `.ignore_result()`
  prevent : Bool := false    -- `.with_prevent_further_calls(True)`
deriving DecidableEq, Repr

structure Key where
  fn  : Fn
  arg : Val
  ctx : Ctx                  -- effective context args (part of the argument hash)
deriving DecidableEq, Repr

/-- a stored memento: result and provenance -/
structure Rec where
  key  : Key
  out  : Outcome             -- the value, or the exception as recorded (`from_exception`)
  invs : List Key            -- `invocation_metadata.invocations`, in order, with repetitions
  res  : List Nat            -- `invocation_metadata.resources`
  deps : List Fn             -- `function_dependencies` (a set; kept duplicate-free, order irrelevant)
deriving DecidableEq, Repr

inductive Body
  | ret (o : Outcome)                                             -- return / raise
  | call (fn : Fn) (arg : Val) (ctx : CtxSpec) (fl : Flags) (k : Outcome → Body)
  | batch (fn : Fn) (args : List Val) (ctx : CtxSpec) (fl : Flags) (k : Except Outcome (List Outcome) → Body)
                                         -- `call_batch(…, raise_first_exception=False)`: the slots, or the call itself raised
  | resource (h : Nat) (k : Body)                                 -- a resource function call

/-- a program: the body of each function for each (normalized) argument. Bodies do not receive
    context args — only the effective keyword arguments. -/
structure Prog where
  body     : Fn → Val → Body
  explicit : Fn → Bool               -- has an explicit version (no dependency validation as a caller)
  declared : Fn → Fn → Bool          -- callee ∈ transitive memento dependencies of caller (C14)

structure Frame where
  key     : Key
  prevent : Bool
  invs    : List Key
  res     : List Nat
  deps    : List Fn
deriving Repr

def addDep (deps : List Fn) (f : Fn) : List Fn := if deps.contains f then deps else deps ++ [f]

/-- `propagate_dependencies(caller_memento, result_memento)` -/
def propagate (fr : Frame) (r : Rec) : Frame :=
  { fr with invs := fr.invs ++ [r.key], deps := (r.deps.foldl addDep (addDep fr.deps r.key.fn)) }

structure St where
  store   : List (Key × Rec)
  trace   : List Key             -- body executions, in order (ghost)
  enabled : Bool := true         -- `false`: memoization switched off (the null storage): nothing is
                                 --   ever found or stored — the *meaning* of the program
deriving Repr

def St.get (s : St) (k : Key) : Option Rec :=
  if s.enabled then (s.store.find? (fun p => p.1 == k)).map (·.2) else none

def St.put (s : St) (k : Key) (r : Rec) : St :=
  if s.enabled then { s with store := (k, r) :: s.store.filter (fun p => !(p.1 == k)) } else s

/-- result of `call_batch` as the *caller's body* sees it: the call itself may raise (validation,
    prevented calls), otherwise one outcome per element; plus the mementos propagated to the caller -/
abbrev BatchResult := St × Except Outcome (List Outcome) × List Rec

/-- effective context args of a call: nearest override, else the caller's, else none -/
def effCtx (caller : Option Frame) (spec : CtxSpec) : Ctx :=
  match spec with
  | .set c => c
  | .inherit => match caller with
    | some fr => fr.key.ctx
    | none => 0

/-- run a body, given the evaluator for nested batches (open recursion; structural on the body) -/
def execBody (callee : St → Frame → Fn → List Val → CtxSpec → Flags → Option BatchResult) :
    Body → St → Frame → Option (St × Outcome × Frame)
  | .ret o, s, fr => some (s, o, fr)
  | .resource h k, s, fr => execBody callee k s { fr with res := fr.res ++ [h] }
  | .call fn arg ctx fl k, s, fr =>
    match callee s fr fn [arg] ctx fl with
    | none => none
    | some (s1, .error e, recs) => execBody callee (k e) s1 (recs.foldl propagate fr)
    | some (s1, .ok [o], recs) => execBody callee (k o) s1 (recs.foldl propagate fr)
    | some (_, .ok _, _) => none
  | .batch fn args ctx fl k, s, fr =>
    match callee s fr fn args ctx fl with
    | none => none
    | some (s1, r, recs) => execBody callee (k r) s1 (recs.foldl propagate fr)

/-- `process_existing_memento` on a found memento: an ignored result is `None`, but a memoized
    exception is still propagated (as a computed one is) -/
def serve (r : Rec) (fl : Flags) : Outcome := if fl.ignore && !r.out.isExc then .val none else replay r.out

/-- `memento_run_local` for one key, given the body evaluator for this fuel level -/
def runLocal (P : Prog)
    (exec : Body → St → Frame → Option (St × Outcome × Frame))
    (s : St) (key : Key) (fl : Flags) : Option (St × Outcome × Rec) :=
  match s.get key with
  | some r => some (s, serve r fl, r)                       -- re-check under the mutex
  | none =>
    let fr0 : Frame := { key, prevent := fl.prevent, invs := [], res := [], deps := [key.fn] }
    let s0 := { s with trace := s.trace ++ [key] }          -- the body starts executing
    match exec (P.body key.fn key.arg) s0 fr0 with
    | none => none
    | some (s1, o, fr) =>
      let r : Rec := { key, out := o, invs := fr.invs, res := fr.res, deps := fr.deps }
      match o with
      | .exc c _ =>
        if c = clsNonMemoized then some (s1, o, r)            -- re-raised, never recorded
        else
          let s2 := if (s1.get key).isSome then s1 else s1.put key r
          some (s2, o, r)                                     -- the original exception goes to the caller
      | .val _ =>
        let s2 := if (s1.get key).isSome then s1 else s1.put key r
        some (s2, if fl.ignore then .val none else o, r)

/-- the per-element loop of `LocalRunnerBackend.batch_run` (bulk pre-check results in `pre`) -/
def batchLoop (P : Prog) (exec : Body → St → Frame → Option (St × Outcome × Frame)) (fl : Flags) :
    St → List (Key × Option Rec) → Option (St × List Outcome × List Rec)
  | s, [] => some (s, [], [])
  | s, (key, pre) :: rest =>
    match pre with
    | some r =>
      match batchLoop P exec fl s rest with
      | none => none
      | some (s', os, rs) => some (s', serve r fl :: os, r :: rs)
    | none =>
      match runLocal P exec s key fl with
      | none => none
      | some (s1, o, r) =>
        match batchLoop P exec fl s1 rest with
        | none => none
        | some (s', os, rs) => some (s', o :: os, r :: rs)

/-- `call_batch` from frame `caller` (or from the top level): validation, prevented calls,
    context inheritance, bulk pre-check, loop -/
def runBatchWith (P : Prog) (exec : Body → St → Frame → Option (St × Outcome × Frame))
    (s : St) (caller : Option Frame) (fn : Fn) (args : List Val) (ctx : CtxSpec) (fl : Flags) :
    Option BatchResult :=
  -- `_validate_dependency` (only the immediate calling frame is consulted)
  let undeclared := match caller with
    | some fr => !(P.explicit fr.key.fn) && fr.key.fn != fn && !(P.declared fr.key.fn fn)
    | none => false
  if undeclared then some (s, .error (.exc clsUndeclared 0), [])
  else
    let prevented := match caller with
      | some fr => fr.prevent
      | none => false
    if prevented then some (s, .error (.exc clsRuntime 0), [])
    else
      let c := effCtx caller ctx
      let keys := args.map (fun a => (⟨fn, a, c⟩ : Key))
      let pre := keys.map (fun k => (k, s.get k))            -- one bulk `get_mementos`
      match batchLoop P exec fl s pre with
      | none => none
      | some (s', os, rs) => some (s', .ok os, rs)

/-- fuel-indexed knot: `run n` evaluates batches whose call trees have depth ≤ n -/
def run (P : Prog) : Nat → St → Option Frame → Fn → List Val → CtxSpec → Flags → Option BatchResult
  | 0, _, _, _, _, _, _ => none
  | n+1, s, caller, fn, args, ctx, fl =>
    runBatchWith P (execBody (fun s' fr f as c f' => run P n s' (some fr) f as c f')) s caller fn args ctx fl

/-- a top-level single call `f(arg)`: the batch of one; an exception result is raised -/
def callTop (P : Prog) (n : Nat) (s : St) (fn : Fn) (arg : Val) (ctx : CtxSpec) (fl : Flags) :
    Option (St × Outcome) :=
  match run P n s none fn [arg] ctx fl with
  | some (s', .ok [o], _) => some (s', o)
  | some (s', .error e, _) => some (s', e)
  | _ => none

/-- a top-level `call_batch(raise_first_exception=False)` -/
def batchTop (P : Prog) (n : Nat) (s : St) (fn : Fn) (args : List Val) (ctx : CtxSpec) (fl : Flags) :
    Option (St × List Outcome) :=
  match run P n s none fn args ctx fl with
  | some (s', .ok os, _) => some (s', os)
  | _ => none

/-- `f.forget(arg)` under context `c` -/
def forget (s : St) (k : Key) : St := { s with store := s.store.filter (fun p => !(p.1 == k)) }

/-! ### the un-memoized semantics (what the program means) -/

/-- an un-memoized top-level call: the same runner on a store that never finds or keeps anything -/
def pureCall (P : Prog) (n : Nat) (fn : Fn) (arg : Val) (ctx : CtxSpec) (fl : Flags) : Option Outcome :=
  (callTop P n { store := [], trace := [], enabled := false } fn arg ctx fl).map (·.2)

/-- the record an un-memoized execution of key `k` produces (its provenance) -/
def pureRec (P : Prog) (n : Nat) (k : Key) : Option Rec :=
  match run P n { store := [], trace := [], enabled := false } none k.fn [k.arg] (.set k.ctx) {} with
  | some (_, _, [r]) => some r
  | _ => none

end Memento.Runner
