import MementoModel.Model.Cache
import MementoModel.Lemmas.CacheLemmas
import MementoModel.Props.C06
import MementoModel.Model.Store
import MementoModel.Props.C05
import MementoModel.Props.C19
import MementoModel.Props.C07
