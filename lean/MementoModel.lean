import MementoModel.Model.Cache
import MementoModel.Lemmas.CacheLemmas
import MementoModel.Props.C06
